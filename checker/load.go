package main

import (
	"fmt"
	"go/ast"
	"go/token"
	"go/types"
	"os"
	"path/filepath"
	"sort"
	"strings"

	"golang.org/x/tools/go/packages"
	"golang.org/x/tools/go/ssa"
	"golang.org/x/tools/go/ssa/ssautil"
)

const modPath = "github.com/jub0bs/cors"

var wantPkgs = []string{
	modPath,
	modPath + "/cfgerrors",
	modPath + "/internal/headers",
	modPath + "/internal/methods",
	modPath + "/internal/origins",
	modPath + "/internal/util",
}

type Prog struct {
	Dir   string
	Fset  *token.FileSet
	Pkgs  map[string]*packages.Package
	SSA   *ssa.Program
	SPkgs map[string]*ssa.Package
	Files []string // non-test .go files parsed (relative)
	Funcs []*ssa.Function
	we    *WE
	// Renames: unexported identifiers resolved by shape (ALPHA, rename.go)
	Renames []Renaming
}

// Load type-checks the module in dir and builds SSA for its packages.
// Any incompleteness is an error: an analysis that cannot see must not pass.
func Load(dir string, env []string, tags string) (*Prog, error) {
	cfg := &packages.Config{
		Mode:  packages.LoadSyntax,
		Dir:   dir,
		Tests: false,
		Env:   append(os.Environ(), env...),
	}
	cfg.Env = append(cfg.Env, "GOWORK=off", "GOFLAGS=-mod=mod", "GOPROXY=off", "GOSUMDB=off")
	if tags != "" {
		cfg.BuildFlags = []string{"-tags=" + tags}
	}
	pkgs, err := packages.Load(cfg, "./...")
	if err != nil {
		return nil, fmt.Errorf("load: %v", err)
	}
	// ALPHA: unexported identifiers that were renamed are analysed under
	// their inventory names, through an overlay (files on disk untouched)
	var renames []Renaming
	if clean := func() bool {
		for _, pk := range pkgs {
			if len(pk.Errors) > 0 || pk.IllTyped {
				return false
			}
		}
		return true
	}(); clean && os.Getenv("CORSCHECK_NO_ALPHA") == "" {
		if mapping, log := detectRenamings(pkgs); len(mapping) > 0 {
			overlay, oerr := renameOverlay(pkgs, mapping)
			if oerr == nil {
				cfg.Overlay = overlay
				pkgs2, err2 := packages.Load(cfg, "./...")
				ok2 := err2 == nil
				for _, pk := range pkgs2 {
					if len(pk.Errors) > 0 || pk.IllTyped {
						ok2 = false
					}
				}
				if ok2 {
					pkgs, renames = pkgs2, log
				}
			}
		}
	}
	for _, note := range detectReceiverFlips(pkgs) {
		renames = append(renames, Renaming{Kind: "receiver", To: note})
	}
	p := &Prog{Dir: dir, Pkgs: map[string]*packages.Package{}, SPkgs: map[string]*ssa.Package{}, Renames: renames}
	var errs []string
	for _, pk := range pkgs {
		for _, e := range pk.Errors {
			errs = append(errs, e.Error())
		}
		if pk.IllTyped {
			errs = append(errs, pk.PkgPath+": ill-typed")
		}
		p.Pkgs[pk.PkgPath] = pk
		p.Fset = pk.Fset
	}
	if len(errs) > 0 {
		return nil, fmt.Errorf("type errors: %s", strings.Join(errs, "; "))
	}
	for _, w := range wantPkgs {
		if p.Pkgs[w] == nil {
			return nil, fmt.Errorf("package %s not loaded", w)
		}
	}
	if len(pkgs) != len(wantPkgs) {
		var got []string
		for _, pk := range pkgs {
			got = append(got, pk.PkgPath)
		}
		return nil, fmt.Errorf("expected %d packages, loaded %d: %v", len(wantPkgs), len(pkgs), got)
	}
	// every non-test .go file on disk must have been parsed
	parsed := map[string]bool{}
	for _, pk := range pkgs {
		for _, f := range pk.CompiledGoFiles {
			parsed[f] = true
		}
	}
	var missing []string
	err = filepath.Walk(dir, func(path string, info os.FileInfo, err error) error {
		if err != nil {
			return err
		}
		if info.IsDir() {
			if n := info.Name(); path != dir && (strings.HasPrefix(n, ".") || n == "testdata" || n == "vendor") {
				return filepath.SkipDir
			}
			return nil
		}
		if strings.HasSuffix(path, ".go") && !strings.HasSuffix(path, "_test.go") {
			rel, _ := filepath.Rel(dir, path)
			p.Files = append(p.Files, rel)
			if !parsed[path] {
				missing = append(missing, rel)
			}
		}
		return nil
	})
	if err != nil {
		return nil, err
	}
	if len(missing) > 0 {
		return nil, fmt.Errorf("files on disk not seen by the loader (build-tagged?): %v", missing)
	}
	sort.Strings(p.Files)
	prog, spkgs := ssautil.Packages(pkgs, ssa.InstantiateGenerics)
	prog.Build()
	p.SSA = prog
	for i, sp := range spkgs {
		if sp == nil {
			return nil, fmt.Errorf("no SSA for %s", pkgs[i].PkgPath)
		}
		p.SPkgs[sp.Pkg.Path()] = sp
	}
	for fn := range ssautil.AllFunctions(prog) {
		if fn.Pkg != nil && p.SPkgs[fn.Pkg.Pkg.Path()] == fn.Pkg && len(fn.Blocks) > 0 {
			p.Funcs = append(p.Funcs, fn)
		} else if fn.Pkg == nil && fn.Origin() != nil && len(fn.Blocks) > 0 {
			// instantiation of a generic: keep if origin is in module
			if o := fn.Origin(); o.Pkg != nil && p.SPkgs[o.Pkg.Pkg.Path()] == o.Pkg {
				p.Funcs = append(p.Funcs, fn)
			}
		} else if p.methodValueWrapper(fn) {
			p.Funcs = append(p.Funcs, fn)
		}
	}
	sort.Slice(p.Funcs, func(i, j int) bool { return p.Funcs[i].String() < p.Funcs[j].String() })
	return p, nil
}

func (p *Prog) InModule(fn *ssa.Function) bool {
	if fn == nil {
		return false
	}
	if o := fn.Origin(); o != nil {
		fn = o
	}
	if fn.Pkg == nil {
		if fn.Parent() != nil {
			return p.InModule(fn.Parent())
		}
		return p.methodValueWrapper(fn)
	}
	return p.SPkgs[fn.Pkg.Pkg.Path()] == fn.Pkg
}

// methodValueWrapper: the synthetic function go/ssa makes for a method
// expression (T.f, a "thunk") or a bound method value (x.f) of a method of
// the module. Their bodies only forward to the method; they are analysed
// like any other module function.
func (p *Prog) methodValueWrapper(fn *ssa.Function) bool {
	if fn == nil || len(fn.Blocks) == 0 {
		return false
	}
	if !strings.HasPrefix(fn.Synthetic, "thunk for ") && !strings.HasPrefix(fn.Synthetic, "bound method wrapper for ") {
		return false
	}
	o := fn.Object()
	if o == nil || o.Pkg() == nil {
		return false
	}
	sp := p.SPkgs[o.Pkg().Path()]
	return sp != nil && sp.Pkg == o.Pkg()
}

// Func resolves a package-level function or method by package path and name
// ("Name" or "(*T).Name" / "(T).Name").
func (p *Prog) Func(pkg, name string) *ssa.Function {
	sp := p.SPkgs[pkg]
	if sp == nil {
		return nil
	}
	if strings.HasPrefix(name, "(") {
		// method
		r := strings.NewReplacer("(", "", ")", "", "*", "")
		parts := strings.SplitN(r.Replace(name), ".", 2)
		if len(parts) != 2 {
			return nil
		}
		tn := sp.Type(parts[0])
		if tn == nil {
			return nil
		}
		var T types.Type = tn.Type()
		if strings.HasPrefix(name, "(*") {
			T = types.NewPointer(T)
		}
		sel := p.SSA.MethodSets.MethodSet(T).Lookup(sp.Pkg, parts[1])
		if sel == nil {
			// the receiver kind may have changed (value ↔ pointer)
			if pt, isPtr := T.(*types.Pointer); isPtr {
				sel = p.SSA.MethodSets.MethodSet(pt.Elem()).Lookup(sp.Pkg, parts[1])
			} else {
				sel = p.SSA.MethodSets.MethodSet(types.NewPointer(T)).Lookup(sp.Pkg, parts[1])
			}
		}
		if sel == nil {
			return nil
		}
		return p.SSA.MethodValue(sel)
	}
	return sp.Func(name)
}

func (p *Prog) Pos(pos token.Pos) string {
	if !pos.IsValid() {
		return "-"
	}
	q := p.Fset.Position(pos)
	return fmt.Sprintf("%s:%d", strings.TrimPrefix(q.Filename, p.Dir+"/"), q.Line)
}

// AnonFuncs returns the function literals directly nested in fn.
func AnonFuncs(fn *ssa.Function) []*ssa.Function { return fn.AnonFuncs }

// FileOf returns the syntax file containing pos.
func (p *Prog) FileOf(pos token.Pos) *ast.File {
	for _, pk := range p.Pkgs {
		for _, f := range pk.Syntax {
			if f.Pos() <= pos && pos <= f.End() {
				return f
			}
		}
	}
	return nil
}
