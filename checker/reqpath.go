package main

import (
	"fmt"
	"go/types"
	"strings"

	"golang.org/x/tools/go/ssa"
)

// Header names (resolved by value, wherever they are declared).
const (
	hOrigin = "Origin"
	hACRPN  = "Access-Control-Request-Private-Network"
	hACRM   = "Access-Control-Request-Method"
	hACRH   = "Access-Control-Request-Headers"
	hACAO   = "Access-Control-Allow-Origin"
	hACAC   = "Access-Control-Allow-Credentials"
	hACAPN  = "Access-Control-Allow-Private-Network"
	hACAM   = "Access-Control-Allow-Methods"
	hACAH   = "Access-Control-Allow-Headers"
	hACMA   = "Access-Control-Max-Age"
	hACEH   = "Access-Control-Expose-Headers"
	hVary   = "Vary"
)

type HdrWrite struct {
	Op     string // add | set | assign | append
	Key    string // constant header name, or "?"+term
	Val    *Term
	Tag    string
	ViaBuf bool
	At     string
	NAtoms int
	Eff    int // index in Path.Effects
}

func (w HdrWrite) String() string {
	v := ""
	if w.ViaBuf {
		v = " (via buffer)"
	}
	return fmt.Sprintf("%s %s := %s%s @%s", w.Op, w.Key, w.Tag, v, w.At)
}

type ReqPath struct {
	*Path
	ID        int
	A         map[string]int // canonical atom name -> +1/-1
	AtomNames []string       // in path order, with polarity prefix
	Writes    []HdrWrite     // operations reaching the response header map, in order
	BufLeft   []HdrWrite     // buffered writes never flushed
	Status    *Term
	StatusTag string
	StatusEff int
	NStatus   int
	Serves    []Effect
	ServeEff  []int
	Locks     []string
	Unknown   []string
	Allocs    []Effect
}

func (rp *ReqPath) Is(name string) bool  { return rp.A[name] == 1 }
func (rp *ReqPath) Not(name string) bool { return rp.A[name] == -1 }

func (rp *ReqPath) Describe() string {
	return fmt.Sprintf("path#%d{%s}", rp.ID, strings.Join(rp.AtomNames, " "))
}

// WritesTo returns the response-header writes for key k.
func (rp *ReqPath) WritesTo(k string) []HdrWrite {
	var out []HdrWrite
	for _, w := range rp.Writes {
		if w.Key == k {
			out = append(out, w)
		}
	}
	return out
}

func isNamedPtr(t types.Type, pkg, name string) bool {
	if t == nil {
		return false
	}
	p, ok := t.Underlying().(*types.Pointer)
	if !ok {
		return false
	}
	return isNamed(p.Elem(), pkg, name)
}

func isNamed(t types.Type, pkg, name string) bool {
	n, ok := t.(*types.Named)
	if !ok {
		return false
	}
	o := n.Obj()
	return o.Name() == name && o.Pkg() != nil && o.Pkg().Path() == pkg
}

// isSnap: t is a value of type *internalConfig (the configuration snapshot).
func isSnap(t *Term) bool { return t != nil && isNamedPtr(t.Type, pkgRoot, "internalConfig") }

// cfgField: t is a load of field f of the snapshot (or of an *internalConfig
// parameter); returns f.
func cfgField(t *Term) (string, bool) {
	if t == nil || t.Op != "load" || t.Idx != 0 || len(t.Args) != 1 {
		return "", false
	}
	a := t.Args[0]
	if a.Op != "faddr" || !isSnap(a.Args[0]) {
		return "", false
	}
	return a.Name, true
}

// cfgFieldAddr: t is &snapshot.f
func cfgFieldAddr(t *Term) (string, bool) {
	if t == nil || t.Op != "faddr" || !isSnap(t.Args[0]) {
		return "", false
	}
	return t.Name, true
}

func isReqHeaderMap(t *Term) bool {
	// r.Header of the closure's request parameter, or a parameter of type http.Header named by role
	if t == nil {
		return false
	}
	if t.Op == "load" && t.Args[0].Op == "faddr" && t.Args[0].Name == "Header" {
		b := t.Args[0].Args[0]
		return b.Op == "param" && isNamedPtr(b.Type, "net/http", "Request")
	}
	return false
}

func isRespHeaderMap(t *Term) bool {
	return t != nil && t.Op == "invoke" && strings.HasSuffix(t.Name, "ResponseWriter.Header") && len(t.Args) == 1 && t.Args[0].Op == "param"
}

func firstCall(t *Term) (key string, idx int, ok bool) {
	// ext(call:headers.First(reqHdrs, "K"))#i
	if t == nil || t.Op != "ext" {
		return "", 0, false
	}
	c := t.Args[0]
	if c.Op != "call" || c.Name != "headers.First" || len(c.Args) != 2 || !isReqHeaderMap(c.Args[0]) {
		return "", 0, false
	}
	k, isStr := c.Args[1].ConstString()
	if !isStr {
		return "", 0, false
	}
	return k, t.Idx, true
}

func reqLookup(t *Term) (key string, idx int, ok bool) {
	if t == nil || t.Op != "ext" {
		return "", 0, false
	}
	c := t.Args[0]
	if c.Op != "lookup" || !isReqHeaderMap(c.Args[0]) {
		return "", 0, false
	}
	k, isStr := c.Args[1].ConstString()
	if !isStr {
		return "", 0, false
	}
	return k, t.Idx, true
}

// valTag classifies the provenance of a value written to a header / status.
func valTag(t *Term) string {
	if t == nil {
		return "?nil"
	}
	if s, ok := t.ConstString(); ok {
		return fmt.Sprintf("const(%q)", s)
	}
	if t.Op == "const" {
		return "const(" + t.Name + ")"
	}
	if t.Op == "load" && t.Args[0].Op == "global" && t.Idx == 0 {
		return "global(" + t.Args[0].Name + ")"
	}
	if k, i, ok := firstCall(t); ok {
		return fmt.Sprintf("hdr%d(%s)", i, k)
	}
	if k, i, ok := reqLookup(t); ok && i == 0 {
		return fmt.Sprintf("hdrs(%s)", k)
	}
	if f, ok := cfgField(t); ok {
		return "cfg." + f
	}
	if t.Op == "append" && len(t.Args) == 2 {
		old, add := t.Args[0], t.Args[1]
		lk := old
		if old.Op == "ext" && old.Idx == 0 {
			lk = old.Args[0]
		}
		if lk.Op == "lookup" && isRespHeaderMap(lk.Args[0]) && add.Op == "lit" && len(add.Args) == 1 {
			k, _ := lk.Args[1].ConstString()
			return fmt.Sprintf("append(old(%s), %s)", k, valTag(add.Args[0]))
		}
	}
	if t.Op == "bin" && t.Name == "+" && len(t.Args) == 2 {
		// int(cfg.f) + c
		a, b := t.Args[0], t.Args[1]
		if a.Op == "conv" && b.Op == "const" {
			if f, ok := cfgField(a.Args[0]); ok {
				return fmt.Sprintf("int(cfg.%s)+%s", f, b.Name)
			}
		}
	}
	return "?" + t.Key()
}

// atomName gives a canonical short name to a request-path atom.
func atomName(t *Term) string {
	switch {
	case t.Op == "bin" && t.Name == "==" && len(t.Args) == 2:
		a, b := t.Args[0], t.Args[1]
		if isSnap(a) && b.IsConst("nil") {
			return "passthrough"
		}
		if a.Op == "load" && a.Args[0].Op == "faddr" && a.Args[0].Name == "Method" && a.Args[0].Args[0].Op == "param" && isNamedPtr(a.Args[0].Args[0].Type, "net/http", "Request") {
			if s, ok := b.ConstString(); ok {
				return "method==" + s
			}
		}
		if k, i, ok := firstCall(a); ok && i == 0 && b.Op == "const" {
			s, _ := b.ConstString()
			return fmt.Sprintf("hdr0(%s)==%q", k, s)
		}
		if f, ok := cfgField(a); ok && b.Op == "const" {
			return fmt.Sprintf("cfg.%s==%s", f, b.Name)
		}
		if a.Op == "call" && b.Op == "const" {
			return atomName(a) + "==" + b.Name
		}
		if a.Op == "len" && b.Op == "const" && len(a.Args) == 1 {
			if f, ok := cfgField(a.Args[0]); ok {
				return fmt.Sprintf("len(cfg.%s)==%s", f, b.Name)
			}
		}
	case t.Op == "ext":
		if k, i, ok := firstCall(t); ok && i == 2 {
			return "found(" + k + ")"
		}
		if k, i, ok := reqLookup(t); ok && i == 1 {
			return "present(" + k + ")"
		}
		if t.Idx == 1 && t.Args[0].Op == "lookup" && isRespHeaderMap(t.Args[0].Args[0]) {
			k, _ := t.Args[0].Args[1].ConstString()
			return "respHas(" + k + ")"
		}
		if t.Idx == 1 && t.Args[0].Op == "call" && t.Args[0].Name == "origins.Parse" && len(t.Args[0].Args) == 1 {
			if k, i, ok := firstCall(t.Args[0].Args[0]); ok && i == 0 {
				return "parseOK(" + k + ")"
			}
		}
	case t.Op == "call":
		var as []string
		for _, a := range t.Args {
			as = append(as, argName(a))
		}
		return t.Name + "(" + strings.Join(as, ",") + ")"
	case t.Op == "load":
		if f, ok := cfgField(t); ok {
			return "cfg." + f
		}
		if t.Args[0].Op == "faddr" && isNamedPtr(t.Args[0].Args[0].Type, pkgRoot, "Middleware") {
			return "mw." + t.Args[0].Name
		}
	case t.Op == "param":
		return "param." + t.Name
	}
	return "?" + t.Key()
}

func argName(a *Term) string {
	if f, ok := cfgFieldAddr(a); ok {
		return "&cfg." + f
	}
	if f, ok := cfgField(a); ok {
		return "cfg." + f
	}
	if k, i, ok := firstCall(a); ok {
		return fmt.Sprintf("hdr%d(%s)", i, k)
	}
	if k, i, ok := reqLookup(a); ok && i == 0 {
		return fmt.Sprintf("hdrs(%s)", k)
	}
	if a.Op == "ref" && len(a.Args) == 1 {
		// &local holding a known value
		v := a.Args[0]
		if v.Op == "ext" && v.Idx == 0 && v.Args[0].Op == "call" && v.Args[0].Name == "origins.Parse" && len(v.Args[0].Args) == 1 {
			return "&parse(" + argName(v.Args[0].Args[0]) + ")"
		}
		return "&(" + v.Key() + ")"
	}
	if a.Op == "param" {
		return "param." + a.Name
	}
	if a.Op == "const" {
		return a.Name
	}
	return "?" + a.Key()
}

// Canonical atom names used by the rules.
const (
	aPass      = "passthrough"
	aOPTIONS   = "method==OPTIONS"
	aFoundO    = "found(Origin)"
	aFoundACRM = "found(Access-Control-Request-Method)"
	aFoundPN   = "found(Access-Control-Request-Private-Network)"
	aPNTrue    = "hdr0(Access-Control-Request-Private-Network)==\"true\""
	aACRH      = "present(Access-Control-Request-Headers)"
	aHasVary   = "respHas(Vary)"
	aParseOK   = "parseOK(Origin)"
	aContains  = "(*origins.Tree).Contains(&cfg.tree,&parse(hdr0(Origin)))"
	aEmpty     = "(*origins.Tree).IsEmpty(&cfg.tree)"
	aSafe      = "methods.IsSafelisted(hdr0(Access-Control-Request-Method))"
	aListed    = "(util.Set).Contains(cfg.allowedMethods,hdr0(Access-Control-Request-Method))"
	aNoHdrs    = "(util.SortedSet).Size(cfg.allowedReqHdrs)==0"
	aCheck     = "headers.Check(cfg.allowedReqHdrs,hdrs(Access-Control-Request-Headers))"
	aDebug     = "mw.debug"
	aCred      = "cfg.credentialed"
	aAnyMethod = "cfg.allowAnyMethod"
	aAsterisk  = "cfg.asteriskReqHdrs"
	aAllowAuth = "cfg.allowAuthorization"
	aPNA       = "cfg.privateNetworkAccess"
	aPNANoCors = "cfg.privateNetworkAccessNoCors"
	aNoACEH    = "cfg.aceh==\"\""
	aNoACMA    = "cfg.acma==nil"
	aNoACAH    = "cfg.acah==nil"
)

// RequestTable holds the classified path table of the closure returned by Wrap.
type RequestTable struct {
	Closure  *ssa.Function
	Paths    []*ReqPath
	Problems []string
	Funcs    []string
}

func (ctx *Ctx) RequestTable() *RequestTable {
	if v, ok := ctx.cache["reqtable"]; ok {
		return v.(*RequestTable)
	}
	rt := buildRequestTable(ctx.P)
	ctx.cache["reqtable"] = rt
	return rt
}

func wrapClosure(p *Prog) (*ssa.Function, error) {
	wrap := p.Func(pkgRoot, "(*Middleware).Wrap")
	if wrap == nil {
		return nil, fmt.Errorf("anchor (*Middleware).Wrap not found")
	}
	// the request path is the function literal that flows to Wrap's result
	var lits []*ssa.Function
	for _, b := range wrap.Blocks {
		for _, ins := range b.Instrs {
			if mc, ok := ins.(*ssa.MakeClosure); ok {
				lits = append(lits, mc.Fn.(*ssa.Function))
			}
		}
	}
	if len(lits) != 1 {
		return nil, fmt.Errorf("Wrap builds %d closures, expected exactly 1", len(lits))
	}
	return lits[0], nil
}

// maskedStateRule: where the configuration lists `*` for methods (request
// headers), the request path does not consult the discrete method set
// (header set, pre-joined list). Config() renders only `*` in that case
// (R6.4) and validation may or may not keep the discrete entries (R15.2), so
// an answer that depended on them would differ after a round trip through
// Config() and with the position of `*` in the list.
func maskedStateRule(ctx *Ctx, r *Result, rule string) {
	r.rule(rule, "under `*` the request path does not consult the masked discrete state (allowedMethods under allowAnyMethod; allowedReqHdrs / acah under asteriskReqHdrs)", 50)
	rt := ctx.RequestTable()
	if rt.Closure == nil || len(rt.Problems) > 0 {
		r.undecided(rule, "request-closure", strings.Join(rt.Problems, "; "))
		return
	}
	n := 0
	for _, rp := range rt.Paths {
		if !rp.Is(aAnyMethod) && !rp.Is(aAsterisk) {
			continue
		}
		n++
		bad := ""
		if rp.Is(aAnyMethod) && rp.A[aListed] != 0 {
			bad = "the discrete method set is consulted although `*` is listed for methods"
		}
		if rp.Is(aAsterisk) {
			if rp.A[aNoHdrs] != 0 || rp.A[aCheck] != 0 || rp.A[aNoACAH] != 0 {
				bad = "the discrete request-header set (or its pre-joined list) is consulted although `*` is listed for request headers"
			}
			for _, w := range rp.Writes {
				if w.Tag == "cfg.acah" {
					bad = "the pre-joined list of discrete request-header names is sent although `*` is listed for request headers"
				}
			}
		}
		r.check(bad == "", rule, rp.Describe(), "", bad, 1)
	}
	if n == 0 {
		r.undecided(rule, "request-closure", "no request path carries a wildcard flag")
	}
}

// wrapReturnsClosure: Wrap hands out the request closure on every path and
// decides nothing itself — a handler wrapped while the middleware was
// passthrough must follow later reconfigurations like any other (C06, C07,
// C11 all speak about the handler Wrap returned, whenever it was wrapped).
func wrapReturnsClosure(ctx *Ctx, r *Result, rule string) {
	p := ctx.P
	r.rule(rule, "Wrap returns the request closure on every path and reads no Middleware state itself (the state is consulted per request, not at wrap time)", 1)
	wrap := p.Func(pkgRoot, "(*Middleware).Wrap")
	cl, err := wrapClosure(p)
	if wrap == nil || err != nil {
		r.undecided(rule, "Wrap", fmt.Sprint(err))
		return
	}
	bad := ""
	nRet := 0
	var isClosure func(v ssa.Value, depth int) bool
	isClosure = func(v ssa.Value, depth int) bool {
		if depth > 6 {
			return false
		}
		switch x := v.(type) {
		case *ssa.MakeClosure:
			return x.Fn == ssa.Value(cl)
		case *ssa.MakeInterface:
			return isClosure(x.X, depth+1)
		case *ssa.ChangeType:
			return isClosure(x.X, depth+1)
		case *ssa.Convert:
			return isClosure(x.X, depth+1)
		case *ssa.Phi:
			for _, e := range x.Edges {
				if !isClosure(e, depth+1) {
					return false
				}
			}
			return len(x.Edges) > 0
		}
		return false
	}
	for _, b := range wrap.Blocks {
		for _, ins := range b.Instrs {
			switch x := ins.(type) {
			case *ssa.Return:
				nRet++
				if len(x.Results) != 1 || !isClosure(x.Results[0], 0) {
					bad = "Wrap can return something other than the request closure (@" + p.Pos(x.Pos()) + "): that handler would not follow later Reconfigure/SetDebug calls"
				}
			case *ssa.FieldAddr:
				if isNamedPtr(x.X.Type(), pkgRoot, "Middleware") {
					bad = "Wrap itself reads the Middleware's state (@" + p.Pos(x.Pos()) + "): a decision taken at wrap time is stale for every later request"
				}
			}
		}
	}
	if nRet == 0 {
		bad = "Wrap has no return"
	}
	r.check(bad == "", rule, "(*Middleware).Wrap", p.Pos(wrap.Pos()), bad, nRet)
}

func buildRequestTable(p *Prog) *RequestTable {
	rt := &RequestTable{}
	cl, err := wrapClosure(p)
	if err != nil {
		rt.Problems = append(rt.Problems, err.Error())
		return rt
	}
	rt.Closure = cl
	x := p.NewExec(nil)
	paths := x.Summarize(cl)
	rt.Problems = append(rt.Problems, x.Problems...)
	if hasLoop(cl) {
		rt.Problems = append(rt.Problems, "request closure contains a loop")
	}
	seenFn := map[string]bool{}
	for i, pa := range paths {
		rp := classify(pa)
		rp.ID = i
		rt.Paths = append(rt.Paths, rp)
		for _, a := range pa.Atoms {
			seenFn[a.Fn] = true
		}
		for _, e := range pa.Effects {
			seenFn[e.Fn] = true
		}
	}
	rt.Funcs = sortedKeys(seenFn)
	return rt
}

func classify(pa *Path) *ReqPath {
	rp := &ReqPath{Path: pa, A: map[string]int{}, StatusEff: -1}
	for _, a := range pa.Atoms {
		n := atomName(a.T)
		v := 1
		pre := ""
		if !a.Pos {
			v = -1
			pre = "!"
		}
		rp.A[n] = v
		rp.AtomNames = append(rp.AtomNames, pre+n)
	}
	type bufw struct {
		m *Term
		w HdrWrite
	}
	var buffered []bufw
	keyOf := func(t *Term) string {
		if s, ok := t.ConstString(); ok {
			return s
		}
		return "?" + t.Key()
	}
	localAlloc := func(t *Term) bool {
		r := t.addrRoot()
		return r != nil && r.Op == "alloc"
	}
	for i, e := range pa.Effects {
		switch {
		case e.Kind == "invoke" && strings.HasSuffix(e.Name, "ResponseWriter.Header"):
			// obtaining the header map
		case e.Kind == "invoke" && strings.HasSuffix(e.Name, "ResponseWriter.WriteHeader"):
			rp.NStatus++
			rp.Status = e.Args[1]
			rp.StatusTag = valTag(e.Args[1])
			rp.StatusEff = i
		case e.Kind == "invoke" && strings.HasSuffix(e.Name, "Handler.ServeHTTP"):
			rp.Serves = append(rp.Serves, e)
			rp.ServeEff = append(rp.ServeEff, i)
		case e.Kind == "call" && (e.Name == "(http.Header).Add" || e.Name == "(http.Header).Set") && isRespHeaderMap(e.Args[0]):
			op := "add"
			if strings.HasSuffix(e.Name, "Set") {
				op = "set"
			}
			rp.Writes = append(rp.Writes, HdrWrite{Op: op, Key: keyOf(e.Args[1]), Val: e.Args[2], Tag: valTag(e.Args[2]), At: e.At, NAtoms: e.NAtoms, Eff: i})
		case e.Kind == "mapset" && isRespHeaderMap(e.Args[0]) && e.Args[2].Op == "lit" && len(e.Args[2].Args) == 1:
			// hdrs[k] = []string{v} with a fresh one-element slice is what
			// Header.Set(k, v) does (for a canonical constant key)
			rp.Writes = append(rp.Writes, HdrWrite{Op: "set", Key: keyOf(e.Args[1]), Val: e.Args[2].Args[0], Tag: valTag(e.Args[2].Args[0]), At: e.At, NAtoms: e.NAtoms, Eff: i})
		case e.Kind == "mapset" && isRespHeaderMap(e.Args[0]):
			op := "assign"
			tag := valTag(e.Args[2])
			if strings.HasPrefix(tag, "append(old(") {
				op = "append"
			}
			rp.Writes = append(rp.Writes, HdrWrite{Op: op, Key: keyOf(e.Args[1]), Val: e.Args[2], Tag: tag, At: e.At, NAtoms: e.NAtoms, Eff: i})
		case e.Kind == "mapset" && e.Args[0].Op == "mkmap":
			buffered = append(buffered, bufw{e.Args[0], HdrWrite{Op: "assign", Key: keyOf(e.Args[1]), Val: e.Args[2], Tag: valTag(e.Args[2]), ViaBuf: true, At: e.At, NAtoms: e.NAtoms, Eff: i}})
		case e.Kind == "call" && e.Name == "maps.Copy" && len(e.Args) == 2 && isRespHeaderMap(e.Args[0]) && e.Args[1].Op == "mkmap":
			var rest []bufw
			for _, b := range buffered {
				if b.m.Key() == e.Args[1].Key() {
					w := b.w
					w.Eff = i
					w.NAtoms = e.NAtoms
					rp.Writes = append(rp.Writes, w)
					// the buffer keeps its content: a second copy would write again
					rest = append(rest, b)
				} else {
					rest = append(rest, b)
				}
			}
			buffered = rest
		case e.Kind == "call" && strings.HasPrefix(e.Name, "(*sync.RWMutex)."):
			rp.Locks = append(rp.Locks, strings.TrimPrefix(e.Name, "(*sync.RWMutex).")+"("+e.Args[0].Key()+")")
		case e.Kind == "store" && localAlloc(e.Args[0]):
			// store to a local variable
		case e.Kind == "enter":
			// inlined module function
		case e.Kind == "alloc":
			rp.Allocs = append(rp.Allocs, e)
		case e.Kind == "builtin" && e.Name == "builtin.append":
			rp.Allocs = append(rp.Allocs, e)
		default:
			rp.Unknown = append(rp.Unknown, e.String())
		}
	}
	// buffered writes that never reached the response
	for _, b := range buffered {
		reached := false
		for _, w := range rp.Writes {
			if w.ViaBuf && w.Key == b.w.Key && w.At == b.w.At {
				reached = true
			}
		}
		if !reached {
			rp.BufLeft = append(rp.BufLeft, b.w)
		}
	}
	return rp
}
