package main

// PS — path-summary engine: a path-sensitive effect/provenance dataflow
// analysis over go/ssa control-flow graphs. It enumerates the paths of an
// acyclic CFG (or of a CFG cut at its loop headers), tagging each value with
// its provenance (never computing it), recording branch conditions as opaque
// atoms and side effects in order. Feasibility is syntactic only: a path is
// dropped iff it contains an atom and its negation, or branches on a literal
// constant.

import (
	"fmt"
	"go/constant"
	"go/token"
	"go/types"
	"sort"
	"strconv"
	"strings"

	"golang.org/x/tools/go/ssa"
)

type Effect struct {
	Kind   string  // call invoke dyncall mapset store builtin unknown go defer panic
	Name   string  // callee / builtin / instruction description
	Args   []*Term // call: actuals (receiver first); mapset: map,key,val; store: addr,val
	Res    *Term
	Deref  []*Term // call: for pointer arguments to locals, the content at call time (else nil)
	Fn     string
	At     string
	NAtoms int // number of atoms accumulated on the path before the effect
	Pos    token.Pos
}

func (e Effect) String() string {
	var as []string
	for _, a := range e.Args {
		as = append(as, a.Key())
	}
	return fmt.Sprintf("%s %s(%s) @%s", e.Kind, e.Name, strings.Join(as, ", "), e.At)
}

type Path struct {
	Fn      *ssa.Function
	Start   string // "entry" or "hdr<N>"
	Pre     int    // index of the pre-state the segment was started from
	PreAt   int    // number of atoms inherited from the pre-state
	PreEff  int    // number of effects inherited from the pre-state
	Atoms   []Atom
	Effects []Effect
	Rets    []*Term
	End     string // "return", "hdr<N>", "panic"
	Back    bool   // ended by following a back edge
	Mem     map[string]memEntry
	Fresh   map[string]bool // allocation sites executed on this segment
	Blocks  []int
	Next    map[string]*Term // on arrival at a header: value flowing into each of its phis
	PrePath *Path            // for a segment started at a header: the path whose arrival seeded it
	rel     *relSys
	relN    int
}

func (p *Path) AtomString() string {
	var s []string
	for _, a := range p.Atoms {
		s = append(s, a.String())
	}
	return strings.Join(s, " ∧ ")
}

// Has reports whether the path carries the atom with key k and polarity pos.
func (p *Path) Has(k string, pos bool) bool {
	for _, a := range p.Atoms {
		if a.Pos == pos && a.T.Key() == k {
			return true
		}
	}
	if v := p.entailed(k); v != 0 {
		return (v == 1) == pos
	}
	return false
}

// entailed: the comparison k follows (+1) or is refuted (-1) by the path's
// comparison atoms read as difference constraints (REL).
func (p *Path) entailed(k string) int {
	if p.rel != nil && p.relN != len(p.Atoms) {
		p.rel = nil
	}
	p.relN = len(p.Atoms)
	if v := p.oneBytePrefix(k); v != 0 {
		return v
	}
	if v := p.otherConstant(k); v != 0 {
		return v
	}
	if v := p.writtenOutPrefix(k); v != 0 {
		return v
	}
	return entails(p.Atoms, &p.rel, k)
}

// oneBytePrefix: strings.HasPrefix(s, "c") for a one-byte literal is decided by
// a comparison of s[0] with c (s[0] == c holds only for a non-empty s, and
// where s[0] was read and differs, or s is empty, the prefix test is false).
func (p *Path) oneBytePrefix(k string) int {
	const pre = "call:strings.HasPrefix("
	if !strings.HasPrefix(k, pre) || !strings.HasSuffix(k, ")") {
		return 0
	}
	i := strings.LastIndex(k, ", \"")
	if i < 0 {
		return 0
	}
	lit, err := strconv.Unquote(k[i+2 : len(k)-1])
	if err != nil || len(lit) != 1 {
		return 0
	}
	s := k[len(pre):i]
	want := "bin:==(index(" + s + ", 0), " + strconv.Itoa(int(lit[0])) + ")"
	for _, a := range p.Atoms {
		if a.T.Key() == want {
			if a.Pos {
				return 1
			}
			return -1
		}
	}
	return 0
}

// writtenOutPrefix: strings.HasPrefix(s, "lit") written out as
// len(s) >= len("lit") && s[:len("lit")] == "lit". The comparison of the
// slice decides the prefix test where it was evaluated (it is evaluated only
// where the slice expression did not panic, i.e. len(s) >= len("lit")), and a
// path on which s is shorter than the literal fixes the test to false.
func (p *Path) writtenOutPrefix(k string) int {
	const pre = "call:strings.HasPrefix("
	if !strings.HasPrefix(k, pre) || !strings.HasSuffix(k, ")") {
		return 0
	}
	i := strings.LastIndex(k, ", \"")
	if i < 0 {
		return 0
	}
	lit, err := strconv.Unquote(k[i+2 : len(k)-1])
	if err != nil || len(lit) == 0 {
		return 0
	}
	s, n := k[len(pre):i], strconv.Itoa(len(lit))
	want := "bin:==(slice(" + s + ", _, " + n + ", _), " + k[i+2:len(k)-1] + ")"
	for _, a := range p.Atoms {
		if a.T.Key() == want {
			if a.Pos {
				return 1
			}
			return -1
		}
	}
	if entails(p.Atoms, &p.rel, "bin:<(len:builtin.len("+s+"), "+n+")") == 1 {
		return -1
	}
	return 0
}

// Val returns +1/-1 if the path fixes atom k to true/false and 0 otherwise.
func (p *Path) Val(k string) int {
	for _, a := range p.Atoms {
		if a.T.Key() == k {
			if a.Pos {
				return 1
			}
			return -1
		}
	}
	return p.entailed(k)
}

type memEntry struct {
	Addr *Term
	Val  *Term
}

type state struct {
	mem     map[string]memEntry
	log     []*Term
	atoms   []Atom
	effects []Effect
	fresh   map[string]bool
	blocks  []int
}

func (s *state) clone() *state {
	n := &state{
		mem:     make(map[string]memEntry, len(s.mem)),
		log:     append([]*Term(nil), s.log...),
		atoms:   append([]Atom(nil), s.atoms...),
		effects: append([]Effect(nil), s.effects...),
		fresh:   make(map[string]bool, len(s.fresh)),
		blocks:  append([]int(nil), s.blocks...),
	}
	for k, v := range s.mem {
		n.mem[k] = v
	}
	for k, v := range s.fresh {
		n.fresh[k] = v
	}
	return n
}

type frame struct {
	fn     *ssa.Function
	env    map[ssa.Value]*Term
	act    int
	depth  int
	caller *frame
	defers []deferredCall
}

// a deferred call: executed, last first, where the function runs its defers
type deferredCall struct {
	kind string // call | invoke | dyncall
	name string
	args []*Term
	pos  token.Pos
}

func (f *frame) clone() *frame {
	n := &frame{fn: f.fn, env: make(map[ssa.Value]*Term, len(f.env)), act: f.act, depth: f.depth, defers: append([]deferredCall(nil), f.defers...)}
	for k, v := range f.env {
		n.env[k] = v
	}
	if f.caller != nil {
		n.caller = f.caller // caller frames are cloned by the continuation that owns them
	}
	return n
}

type Policy int

const (
	PolInline Policy = iota
	PolPure
	PolEffect
)

type Exec struct {
	fset     *token.FileSet
	dir      string
	Policy   func(fn *ssa.Function) Policy
	MaxDepth int
	MaxPaths int
	// TraceLoad, when set, makes loads from the selected addresses visible as
	// "load" effects (used by the lock typestate rules).
	TraceLoad func(addr *Term) bool
	// TraceBounds makes every index and slice operation visible as a
	// "bounds" effect (used by the bounds rules).
	TraceBounds bool
	// FieldsWritten, when set, refines the havoc of a pointer argument of an
	// opaque module callee to the fields the callee may write.
	FieldsWritten func(fn *ssa.Function, param int) ([]string, bool)
	act           int
	npaths        int
	Problems      []string
}

func (x *Exec) problem(format string, a ...any) {
	x.Problems = append(x.Problems, fmt.Sprintf(format, a...))
}

func (x *Exec) at(pos token.Pos) string {
	if !pos.IsValid() {
		return "-"
	}
	p := x.fset.Position(pos)
	f := strings.TrimPrefix(p.Filename, x.dir+"/")
	return fmt.Sprintf("%s:%d", f, p.Line)
}

func funcName(fn *ssa.Function) string {
	if fn == nil {
		return "<nil>"
	}
	n := short(fn.String())
	if o := fn.Origin(); o != nil {
		n = short(o.String())
	}
	if c, ok := recvCanon[n]; ok {
		return c
	}
	return n
}

// recvCanon maps the printed name of a method whose receiver kind (value or
// pointer) differs from the reference inventory to its inventory spelling;
// recvFlip tells how to present the receiver argument of such a method:
// "deref" (inventory: value receiver, now a pointer) or "addr" (the reverse).
var (
	recvCanon = map[string]string{}
	recvFlip  = map[string]string{}
)

var shortener = strings.NewReplacer(modPath+"/internal/", "", modPath+"/cfgerrors", "cfgerrors", modPath+".", "cors.", "net/http.", "http.")

// short abbreviates module and net/http package paths in printed names.
func short(s string) string { return shortener.Replace(s) }

// loopHeaders returns the blocks that are targets of back edges.
func loopHeaders(fn *ssa.Function) map[*ssa.BasicBlock]bool {
	h := map[*ssa.BasicBlock]bool{}
	for _, b := range fn.Blocks {
		for _, s := range b.Succs {
			if s.Dominates(b) {
				h[s] = true
			}
		}
	}
	return h
}

func hasLoop(fn *ssa.Function) bool { return len(loopHeaders(fn)) > 0 }

type arrival struct {
	hdr  *ssa.BasicBlock
	fr   *frame
	st   *state
	pre  *ssa.BasicBlock
	path *Path
}

// Summarize enumerates the path segments of fn. For an acyclic function there
// is one segment kind ("entry" to return). For a function with loops, paths
// are cut at loop headers: "entry" segments run to the first header, and for
// every header and every distinct state arriving from outside the loop, "hdr"
// segments run from the header (loop-carried phis symbolic, memory unknown)
// to the next header arrival or to a return.
func (x *Exec) Summarize(fn *ssa.Function) []*Path {
	if fn == nil || len(fn.Blocks) == 0 {
		x.problem("no body for %v", fn)
		return nil
	}
	hdrs := loopHeaders(fn)
	stable := x.stableLocals(fn)
	var out []*Path
	var pending []arrival
	seenPre := map[string]bool{}

	root := &frame{fn: fn, env: map[ssa.Value]*Term{}, act: 0}
	st := &state{mem: map[string]memEntry{}, fresh: map[string]bool{}}

	var run func(start string, pre, preAt, preEff int, fr *frame, st *state, b, pred *ssa.BasicBlock, first bool, prePath *Path)
	run = func(start string, pre, preAt, preEff int, fr *frame, st *state, b, pred *ssa.BasicBlock, first bool, prePath *Path) {
		finish := func(st *state, end string, rets []*Term, back bool) *Path {
			x.npaths++
			p := &Path{Fn: fn, Start: start, Pre: pre, PreAt: preAt, PreEff: preEff, Atoms: st.atoms, Effects: st.effects, Rets: rets, End: end, Back: back, Mem: st.mem, Blocks: st.blocks, PrePath: prePath, Fresh: st.fresh}
			out = append(out, p)
			return p
		}
		x.block(fr, b, pred, st, first, hdrs, func(fr *frame, st *state, h, from *ssa.BasicBlock) {
			// arrival at a loop header of the root function
			back := h.Dominates(from)
			pa := finish(st, fmt.Sprintf("hdr%d", h.Index), nil, back)
			pa.Next = map[string]*Term{}
			for _, ins := range h.Instrs {
				phi, ok := ins.(*ssa.Phi)
				if !ok {
					break
				}
				name := phi.Comment
				if name == "" {
					name = phi.Name()
				}
				for j, pb := range h.Preds {
					if pb == from {
						pa.Next[name] = x.val(fr, phi.Edges[j])
					}
				}
			}
			// variables shared with a closure live in cells, not in φs: their
			// content is loop-carried all the same
			for _, c := range capturedCells(fn, h) {
				if at, ok := fr.env[c]; ok && !writtenOnce(c, h) {
					pa.Next[cellName(c)] = x.load(st, at, c.Type().Underlying().(*types.Pointer).Elem())
				}
			}
			if !back {
				pending = append(pending, arrival{hdr: h, fr: fr, st: st, pre: from, path: pa})
			}
		}, func(st *state, rets []*Term, kind string) {
			finish(st, kind, rets, false)
		})
	}
	run("entry", 0, 0, 0, root, st, fn.Blocks[0], nil, false, nil)
	for len(pending) > 0 {
		a := pending[0]
		pending = pending[1:]
		var ks []string
		for _, at := range a.st.atoms {
			ks = append(ks, at.String())
		}
		key := fmt.Sprintf("%d|%s", a.hdr.Index, strings.Join(ks, "&"))
		if seenPre[key] {
			continue
		}
		seenPre[key] = true
		preIdx := len(seenPre)
		fr := a.fr.clone()
		st := &state{mem: map[string]memEntry{}, fresh: map[string]bool{},
			atoms: append([]Atom(nil), a.st.atoms...), effects: append([]Effect(nil), a.st.effects...)}
		// memory is forgotten at a loop header, except for locals that are
		// written once, before any loop, and never handed to code that could
		// write them (a spilled parameter whose address a method call takes)
		for k, e := range a.st.mem {
			if r := e.Addr.addrRoot(); r != nil && r.Op == "alloc" && e.Addr.Key() == r.Key() && stable[r.Key()] {
				st.mem[k] = e
			}
		}
		// loop-carried phis become symbols
		for _, ins := range a.hdr.Instrs {
			phi, ok := ins.(*ssa.Phi)
			if !ok {
				break
			}
			name := phi.Comment
			if name == "" {
				name = phi.Name()
			}
			fr.env[phi] = &Term{Op: "loopphi", Name: fmt.Sprintf("%s@hdr%d", name, a.hdr.Index), Type: phi.Type()}
		}
		for _, c := range capturedCells(fn, a.hdr) {
			if at, ok := fr.env[c]; ok {
				if e, known := a.st.mem[at.Key()]; known && writtenOnce(c, a.hdr) {
					st.mem[at.Key()] = e // assigned once before the loop: still holds that value
					continue
				}
				et := c.Type().Underlying().(*types.Pointer).Elem()
				st.mem[at.Key()] = memEntry{Addr: at, Val: &Term{Op: "loopphi", Name: fmt.Sprintf("%s@hdr%d", cellName(c), a.hdr.Index), Type: et}}
			}
		}
		run(fmt.Sprintf("hdr%d", a.hdr.Index), preIdx, len(st.atoms), len(st.effects), fr, st, a.hdr, a.pre, true, a.path)
		if x.MaxPaths > 0 && x.npaths > x.MaxPaths {
			x.problem("path budget exceeded in %s", funcName(fn))
			break
		}
	}
	for _, p := range out {
		p.foldKnown()
	}
	return out
}

// ExpandBoolRet splits every path whose idx-th result is a boolean expression
// (not a constant) into the path on which it is true and the path on which
// it is false, with the expression added to the atoms: `return a != b` and
// `if a == b { return false }; return true` then read alike.
func ExpandBoolRet(paths []*Path, idx int) []*Path {
	var out []*Path
	for _, p := range paths {
		if idx >= len(p.Rets) || p.Rets[idx].Op == "const" {
			out = append(out, p)
			continue
		}
		t := p.Rets[idx]
		if !((t.Op == "bin" && isComparison(t.Name)) || (t.Op == "un" && t.Name == "!") || t.Op == "call" || t.Op == "ext" || t.Op == "invoke") {
			out = append(out, p)
			continue
		}
		at, pol := normAtom(t)
		if v := p.Val(at.Key()); v != 0 {
			c := *p
			c.Rets = append([]*Term(nil), p.Rets...)
			c.Rets[idx] = constTerm(strconv.FormatBool((v == 1) == pol))
			c.rel = nil
			out = append(out, &c)
			continue
		}
		for _, val := range []bool{true, false} {
			c := *p
			c.Atoms = append(append([]Atom(nil), p.Atoms...), Atom{T: at, Pos: val == pol, Fn: funcName(p.Fn), At: "result"})
			c.Rets = append([]*Term(nil), p.Rets...)
			c.Rets[idx] = constTerm(strconv.FormatBool(val))
			c.rel = nil
			out = append(out, &c)
		}
	}
	return out
}

// stableLocals: keys of the root function's local cells that are stored to
// exactly once, as a whole, in the entry block, have no field or element
// addresses taken, and are otherwise only loaded or passed to pure callees.
func (x *Exec) stableLocals(fn *ssa.Function) map[string]bool {
	out := map[string]bool{}
	if len(fn.Blocks) == 0 {
		return out
	}
	for _, b := range fn.Blocks {
		for _, ins := range b.Instrs {
			a, ok := ins.(*ssa.Alloc)
			if !ok || a.Referrers() == nil {
				continue
			}
			stores, good := 0, true
			for _, ref := range *a.Referrers() {
				switch r := ref.(type) {
				case *ssa.Store:
					if r.Addr != ssa.Value(a) || r.Block() != fn.Blocks[0] {
						good = false
					}
					stores++
				case *ssa.UnOp:
					if r.Op != token.MUL {
						good = false
					}
				case *ssa.Call:
					callee := r.Common().StaticCallee()
					if callee == nil || x.Policy(callee) != PolPure {
						good = false
					}
				case *ssa.DebugRef:
				default:
					good = false
				}
			}
			if good && stores == 1 {
				name := a.Comment
				if name == "" {
					name = a.Name()
				}
				out[fmt.Sprintf("alloc:%s.%s/%s#%d", fn.Name(), a.Name(), name, 0)] = true
			}
		}
	}
	return out
}

func isComparison(op string) bool {
	switch op {
	case "==", "!=", "<", "<=", ">", ">=":
		return true
	}
	return false
}

// foldKnown replaces, in the values a path hands out (effect operands,
// results, loop-carried values), every comparison whose outcome the path has
// already branched on by that outcome: `w := s[0] == '*'; if w { f(w) }`
// passes true. Terms name values, not program points, so a comparison term
// equal to a branched-on atom has the atom's truth value wherever it is used
// on the path.
func (p *Path) foldKnown() {
	known := map[string]bool{}
	// boolean-valued calls the path has branched on (isDigit(b), set.Contains(x)
	// …) are known outcomes too, wherever else their value is handed on
	knownCall := map[string]bool{}
	for _, a := range p.Atoms {
		if a.T.Op == "bin" && isComparison(a.T.Name) {
			known[a.T.Key()] = a.Pos
		}
		if a.T.Op == "call" && a.T.Type != nil {
			if b, ok := a.T.Type.Underlying().(*types.Basic); ok && b.Kind() == types.Bool {
				knownCall[a.T.Key()] = a.Pos
			}
		}
	}
	if len(known) == 0 && len(knownCall) == 0 {
		return
	}
	memo := map[*Term]*Term{}
	var sub func(t *Term) *Term
	sub = func(t *Term) *Term {
		if t == nil {
			return nil
		}
		if r, ok := memo[t]; ok {
			return r
		}
		res := t
		if t.Op == "call" {
			if v, ok := knownCall[t.Key()]; ok {
				res = constTerm(strconv.FormatBool(v))
				memo[t] = res
				return res
			}
		}
		if (t.Op == "bin" && isComparison(t.Name)) || (t.Op == "un" && t.Name == "!") {
			at, pol := normAtom(t)
			if v, ok := known[at.Key()]; ok {
				res = constTerm(strconv.FormatBool(v == pol))
				memo[t] = res
				return res
			}
		}
		var args []*Term
		for i, a := range t.Args {
			na := sub(a)
			if na != a && args == nil {
				args = append([]*Term(nil), t.Args...)
			}
			if args != nil {
				args[i] = na
			}
		}
		if args != nil {
			c := *t
			c.Args, c.key = args, ""
			res = &c
			if c.Op == "un" && c.Name == "!" && args[0].Op == "const" {
				res = constTerm(strconv.FormatBool(args[0].Name != "true"))
			}
		}
		memo[t] = res
		return res
	}
	subAll := func(ts []*Term) []*Term {
		var out []*Term
		for i, t := range ts {
			nt := sub(t)
			if nt != t && out == nil {
				out = append([]*Term(nil), ts...)
			}
			if out != nil {
				out[i] = nt
			}
		}
		if out != nil {
			return out
		}
		return ts
	}
	effs := make([]Effect, len(p.Effects))
	copy(effs, p.Effects)
	for i := range effs {
		effs[i].Args = subAll(effs[i].Args)
		effs[i].Deref = subAll(effs[i].Deref)
		effs[i].Res = sub(effs[i].Res)
	}
	p.Effects = effs
	p.Rets = subAll(p.Rets)
	for k, v := range p.Next {
		p.Next[k] = sub(v)
	}
}

type hdrCont func(fr *frame, st *state, h, from *ssa.BasicBlock)
type retCont func(st *state, rets []*Term, kind string)

func (x *Exec) block(fr *frame, b, pred *ssa.BasicBlock, st *state, first bool, hdrs map[*ssa.BasicBlock]bool, onHdr hdrCont, onRet retCont) {
	if x.MaxPaths > 0 && x.npaths > x.MaxPaths {
		return
	}
	if fr.depth == 0 {
		st.blocks = append(st.blocks, b.Index)
	}
	x.instrs(fr, b, 0, pred, st, first, hdrs, onHdr, onRet)
}

func (x *Exec) jump(fr *frame, from, to *ssa.BasicBlock, st *state, hdrs map[*ssa.BasicBlock]bool, onHdr hdrCont, onRet retCont) {
	if fr.depth == 0 && hdrs[to] {
		onHdr(fr, st, to, from)
		return
	}
	x.block(fr, to, from, st, false, hdrs, onHdr, onRet)
}

func (x *Exec) instrs(fr *frame, b *ssa.BasicBlock, idx int, pred *ssa.BasicBlock, st *state, first bool, hdrs map[*ssa.BasicBlock]bool, onHdr hdrCont, onRet retCont) {
	for i := idx; i < len(b.Instrs); i++ {
		switch ins := b.Instrs[i].(type) {
		case *ssa.Phi:
			if first {
				continue // symbolic, already bound
			}
			var v *Term
			for j, p := range b.Preds {
				if p == pred {
					v = x.val(fr, ins.Edges[j])
				}
			}
			if v == nil {
				v = &Term{Op: "opaque", Name: fr.fn.Name() + "." + ins.Name()}
				x.problem("phi without matching predecessor in %s", funcName(fr.fn))
			} else if len(ins.Edges) == 2 {
				v = x.clamp(fr, st, ins, pred, v)
			}
			fr.env[ins] = v
		case *ssa.If:
			c := x.val(fr, ins.Cond)
			t, f := b.Succs[0], b.Succs[1]
			if c.Op == "const" {
				if c.Name == "true" {
					x.jump(fr, b, t, st, hdrs, onHdr, onRet)
				} else {
					x.jump(fr, b, f, st, hdrs, onHdr, onRet)
				}
				return
			}
			at, pol := normAtom(c)
			joinV, joinKnown := joinIsNil(at, st.atoms)
			for _, br := range []struct {
				to  *ssa.BasicBlock
				pos bool
			}{{t, pol}, {f, !pol}} {
				// syntactic feasibility
				feasible := true
				known := false
				if joinKnown && br.pos != joinV {
					// errors.Join(list...) == nil, with the list's elements known
					// on this path to be nil / non-nil: only one side is feasible
					continue
				}
				for _, a := range st.atoms {
					if a.T.Key() == at.Key() {
						known = true
						if a.Pos != br.pos {
							feasible = false
						}
					}
				}
				if !feasible {
					continue
				}
				st2 := st.clone()
				fr2 := cloneChain(fr)
				if !known {
					st2.atoms = append(st2.atoms, Atom{T: at, Pos: br.pos, Fn: funcName(fr.fn), At: x.at(condPos(ins))})
				}
				x.jump(fr2, b, br.to, st2, hdrs, onHdr, onRet)
			}
			return
		case *ssa.Jump:
			x.jump(fr, b, b.Succs[0], st, hdrs, onHdr, onRet)
			return
		case *ssa.Return:
			var rets []*Term
			for _, r := range ins.Results {
				rets = append(rets, x.val(fr, r))
			}
			onRet(st, rets, "return")
			return
		case *ssa.Panic:
			st.effects = append(st.effects, Effect{Kind: "panic", Name: "panic", Args: []*Term{x.val(fr, ins.X)}, Fn: funcName(fr.fn), At: x.at(ins.Pos()), NAtoms: len(st.atoms), Pos: ins.Pos()})
			onRet(st, nil, "panic")
			return
		case *ssa.Call:
			if x.call(fr, b, i, pred, ins, st, hdrs, onHdr, onRet) {
				return // continuation took over
			}
		default:
			x.simple(fr, b.Instrs[i], st)
		}
	}
}

// cloneChain clones the frame and its callers so that sibling branches do not
// share environments.
func cloneChain(fr *frame) *frame {
	if fr == nil {
		return nil
	}
	n := fr.clone()
	n.caller = cloneChain(fr.caller)
	return n
}

func (x *Exec) val(fr *frame, v ssa.Value) *Term {
	switch v := v.(type) {
	case *ssa.Const:
		return constOf(v)
	case *ssa.Global:
		return &Term{Op: "global", Name: short(v.Pkg.Pkg.Path() + "." + v.Name()), Type: v.Type()}
	case *ssa.Function:
		return &Term{Op: "func", Name: funcName(v)}
	case *ssa.FreeVar:
		if t, ok := fr.env[v]; ok {
			return t
		}
		return &Term{Op: "cap", Name: v.Name(), Type: v.Type()}
	case *ssa.Parameter:
		if t, ok := fr.env[v]; ok {
			return t
		}
		return &Term{Op: "param", Name: v.Name(), Type: v.Type()}
	case *ssa.Builtin:
		return &Term{Op: "func", Name: "builtin." + v.Name()}
	}
	if t, ok := fr.env[v]; ok {
		return t
	}
	x.problem("unbound value %s in %s", v.Name(), funcName(fr.fn))
	return &Term{Op: "opaque", Name: fr.fn.Name() + "." + v.Name()}
}

func constOf(c *ssa.Const) *Term {
	t := &Term{Op: "const", Type: c.Type()}
	switch {
	case c.Value == nil:
		// nil or zero value of aggregate
		if _, ok := c.Type().Underlying().(*types.Struct); ok {
			t.Name = "zero"
		} else if b, ok := c.Type().Underlying().(*types.Basic); ok && b.Kind() != types.UntypedNil {
			t.Name = "zero"
		} else {
			t.Name = "nil"
		}
	case c.Value.Kind() == constant.Bool:
		t.Name = strconv.FormatBool(constant.BoolVal(c.Value))
	case c.Value.Kind() == constant.String:
		t.Name = strconv.Quote(constant.StringVal(c.Value))
	default:
		t.Name = c.Value.ExactString()
	}
	return t
}

// normAtom normalises a condition term to an atom and a polarity.
func normAtom(c *Term) (*Term, bool) {
	pol := true
	for {
		switch {
		case c.Op == "un" && c.Name == "!":
			c = c.Args[0]
			pol = !pol
			continue
		case c.Op == "bin" && c.Name == "!=":
			c = mk("bin", "==", c.Args...)
			pol = !pol
			continue
		case c.Op == "bin" && c.Name == ">":
			c = mk("bin", "<", c.Args[1], c.Args[0])
			continue
		case c.Op == "bin" && c.Name == ">=":
			c = mk("bin", "<", c.Args[0], c.Args[1])
			pol = !pol
			continue
		case c.Op == "bin" && c.Name == "<=":
			c = mk("bin", "<", c.Args[1], c.Args[0])
			pol = !pol
			continue
		case c.Op == "bin" && c.Name == "==":
			a, b := c.Args[0], c.Args[1]
			if a.Op == "const" && b.Op != "const" {
				a, b = b, a
				c = mk("bin", "==", a, b)
			}
			if b.IsConst("true") {
				c = a
				continue
			}
			if b.IsConst("false") {
				c = a
				pol = !pol
				continue
			}
		}
		return c, pol
	}
}

func (x *Exec) load(st *state, addr *Term, typ types.Type) *Term {
	if e, ok := st.mem[addr.Key()]; ok {
		return e.Val
	}
	// a component of a value stored as a whole: project it
	if addr.Op == "faddr" {
		var names []string
		for a := addr; a != nil && a.Op == "faddr"; a = a.Args[0] {
			names = append(names, a.Name)
			if e, ok := st.mem[a.Args[0].Key()]; ok {
				v := e.Val
				for i := len(names) - 1; i >= 0; i-- {
					v = fieldOf(v, names[i])
				}
				v.Type = typ
				return v
			}
		}
	}
	// a whole struct whose fields were stored one by one: assemble it
	if stt, ok := typ.Underlying().(*types.Struct); ok && stt.NumFields() <= 8 {
		pre := "&" + pathKey(addr) + "."
		some := false
		for k := range st.mem {
			if strings.HasPrefix(k, pre) {
				some = true
			}
		}
		if some {
			c := &Term{Op: "composite", Type: typ}
			var names []string
			for i := 0; i < stt.NumFields(); i++ {
				f := stt.Field(i)
				sub := &Term{Op: "faddr", Name: f.Name(), Args: []*Term{addr}, Type: types.NewPointer(f.Type())}
				c.Args = append(c.Args, x.load(st, sub, f.Type()))
				names = append(names, f.Name())
			}
			c.Name = strings.Join(names, ",")
			return c
		}
	}
	ep := 0
	for _, l := range st.log {
		if overlap(l, addr) {
			ep++
		}
	}
	t := &Term{Op: "load", Args: []*Term{addr}, Idx: ep, Type: typ}
	if r := addr.addrRoot(); r != nil && (r.Op == "alloc") && st.fresh[r.Key()] && ep == 0 {
		t.Op = "zero"
		t.Idx = 0
		// the zero value of a slice, map, pointer, function or interface is nil
		if typ != nil {
			switch typ.Underlying().(type) {
			case *types.Slice, *types.Map, *types.Pointer, *types.Signature, *types.Interface, *types.Chan:
				return &Term{Op: "const", Name: "nil", Type: typ}
			}
		}
	}
	return t
}

func (x *Exec) store(st *state, addr, val *Term) {
	for k, e := range st.mem {
		if k != addr.Key() && overlap(e.Addr, addr) {
			delete(st.mem, k)
		}
	}
	st.log = append(st.log, addr)
	st.mem[addr.Key()] = memEntry{Addr: addr, Val: val}
}

func (x *Exec) havoc(st *state, addr *Term) {
	for k, e := range st.mem {
		if overlap(e.Addr, addr) {
			delete(st.mem, k)
		}
	}
	st.log = append(st.log, addr)
}

func (x *Exec) simple(fr *frame, ins ssa.Instruction, st *state) {
	eff := func(kind, name string, args ...*Term) {
		st.effects = append(st.effects, Effect{Kind: kind, Name: name, Args: args, Fn: funcName(fr.fn), At: x.at(ins.Pos()), NAtoms: len(st.atoms), Pos: ins.Pos()})
	}
	switch v := ins.(type) {
	case *ssa.DebugRef:
	case *ssa.Alloc:
		name := v.Comment
		if name == "" {
			name = v.Name()
		}
		t := &Term{Op: "alloc", Name: fmt.Sprintf("%s.%s/%s#%d", fr.fn.Name(), v.Name(), name, fr.act), Type: v.Type()}
		if v.Heap {
			t.Idx = 1
		}
		st.fresh[t.Key()] = true
		fr.env[v] = t
	case *ssa.FieldAddr:
		base := x.val(fr, v.X)
		fld := v.X.Type().Underlying().(*types.Pointer).Elem().Underlying().(*types.Struct).Field(v.Field)
		fr.env[v] = &Term{Op: "faddr", Name: fld.Name(), Args: []*Term{base}, Type: v.Type()}
	case *ssa.Field:
		base := x.val(fr, v.X)
		fld := v.X.Type().Underlying().(*types.Struct).Field(v.Field)
		ft := fieldOf(base, fld.Name())
		if ft.Type == nil {
			ft.Type = v.Type()
		}
		fr.env[v] = ft
	case *ssa.IndexAddr:
		fr.env[v] = &Term{Op: "iaddr", Args: []*Term{x.val(fr, v.X), x.val(fr, v.Index)}, Type: v.Type()}
		if x.TraceBounds {
			b := x.val(fr, v.X)
			b.Type = v.X.Type()
			eff("bounds", "index", b, x.val(fr, v.Index))
		}
	case *ssa.Index:
		fr.env[v] = &Term{Op: "index", Args: []*Term{x.val(fr, v.X), x.val(fr, v.Index)}, Type: v.Type()}
		if x.TraceBounds {
			b := x.val(fr, v.X)
			b.Type = v.X.Type()
			eff("bounds", "index", b, x.val(fr, v.Index))
		}
	case *ssa.UnOp:
		a := x.val(fr, v.X)
		switch v.Op {
		case token.MUL:
			fr.env[v] = x.load(st, a, v.Type())
			if x.TraceLoad != nil && x.TraceLoad(a) {
				eff("load", "load", a)
				st.effects[len(st.effects)-1].Res = fr.env[v]
			}
		case token.NOT:
			if a.IsConst("true") {
				fr.env[v] = constTerm("false")
			} else if a.IsConst("false") {
				fr.env[v] = constTerm("true")
			} else {
				fr.env[v] = &Term{Op: "un", Name: "!", Args: []*Term{a}, Type: v.Type()}
			}
		case token.ARROW:
			eff("unknown", "chan receive")
			fr.env[v] = &Term{Op: "opaque", Name: "recv"}
		default:
			fr.env[v] = &Term{Op: "un", Name: v.Op.String(), Args: []*Term{a}, Type: v.Type()}
		}
	case *ssa.BinOp:
		a, b := x.val(fr, v.X), x.val(fr, v.Y)
		fr.env[v] = foldBin(v.Op.String(), a, b, v.Type())
	case *ssa.ChangeType:
		fr.env[v] = x.val(fr, v.X)
	case *ssa.ChangeInterface:
		fr.env[v] = x.val(fr, v.X)
	case *ssa.Convert:
		a := x.val(fr, v.X)
		fr.env[v] = &Term{Op: "conv", Name: types.TypeString(v.Type(), nil), Args: []*Term{a}, Type: v.Type()}
	case *ssa.MultiConvert:
		a := x.val(fr, v.X)
		fr.env[v] = &Term{Op: "conv", Name: types.TypeString(v.Type(), nil), Args: []*Term{a}, Type: v.Type()}
	case *ssa.MakeInterface:
		a := x.val(fr, v.X)
		fr.env[v] = &Term{Op: "iface", Name: short(types.TypeString(v.X.Type(), nil)), Args: []*Term{a}, Type: v.Type(), CType: v.X.Type()}
	case *ssa.Extract:
		tup := x.val(fr, v.Tuple)
		if tup.Op == "tuple" && v.Index < len(tup.Args) {
			fr.env[v] = tup.Args[v.Index]
		} else {
			fr.env[v] = &Term{Op: "ext", Args: []*Term{tup}, Idx: v.Index, Type: v.Type()}
		}
	case *ssa.Lookup:
		fr.env[v] = &Term{Op: "lookup", Args: []*Term{x.val(fr, v.X), x.val(fr, v.Index)}, Type: v.Type()}
	case *ssa.MakeMap:
		t := &Term{Op: "mkmap", Name: fmt.Sprintf("%s.%s#%d", fr.fn.Name(), v.Name(), fr.act), Type: v.Type()}
		fr.env[v] = t
		eff("alloc", "makemap", t)
	case *ssa.MakeSlice:
		t := &Term{Op: "mkslice", Name: fmt.Sprintf("%s.%s#%d", fr.fn.Name(), v.Name(), fr.act), Args: []*Term{x.val(fr, v.Len), x.val(fr, v.Cap)}, Type: v.Type()}
		fr.env[v] = t
		eff("alloc", "makeslice", t)
	case *ssa.MakeChan:
		fr.env[v] = &Term{Op: "opaque", Name: "chan"}
		eff("unknown", "make chan")
	case *ssa.MakeClosure:
		var bs []*Term
		for _, b := range v.Bindings {
			bs = append(bs, x.val(fr, b))
		}
		fr.env[v] = &Term{Op: "closure", Name: funcName(v.Fn.(*ssa.Function)), Args: bs, Type: v.Type()}
	case *ssa.MapUpdate:
		eff("mapset", "mapset", x.val(fr, v.Map), x.val(fr, v.Key), x.val(fr, v.Value))
	case *ssa.Store:
		a, val := x.val(fr, v.Addr), x.val(fr, v.Val)
		x.store(st, a, val)
		eff("store", "store", a, val)
	case *ssa.Slice:
		base := x.val(fr, v.X)
		if x.TraceBounds && !(base.Op == "alloc" && v.Low == nil && v.High == nil) {
			o := func(s ssa.Value) *Term {
				if s == nil {
					return constTerm("_")
				}
				return x.val(fr, s)
			}
			b := *base
			b.Type = v.X.Type()
			eff("bounds", "slice", &b, o(v.Low), o(v.High), o(v.Max))
		}
		// composite literal / variadic packing: new [N]T; stores; slice [:]
		if base.Op == "alloc" && v.Low == nil && v.High == nil && v.Max == nil {
			if pt, ok := v.X.Type().Underlying().(*types.Pointer); ok {
				if at, ok := pt.Elem().Underlying().(*types.Array); ok {
					var elems []*Term
					complete := true
					for i := int64(0); i < at.Len(); i++ {
						k := (&Term{Op: "iaddr", Args: []*Term{base, constTerm(strconv.FormatInt(i, 10))}}).Key()
						e, ok := st.mem[k]
						if !ok {
							complete = false
							break
						}
						elems = append(elems, e.Val)
					}
					if complete {
						fr.env[v] = &Term{Op: "lit", Name: base.Name, Args: elems, Type: v.Type()}
						return
					}
				}
			}
		}
		opt := func(s ssa.Value) *Term {
			if s == nil {
				return constTerm("_")
			}
			return x.val(fr, s)
		}
		lo, hi := opt(v.Low), opt(v.High)
		// s[:b][a:c] is s[a:c] (and s[:b][a:] is s[a:b]) for strings: a prefix
		// re-sliced reads alike however many steps it was taken in
		if bt, ok := v.X.Type().Underlying().(*types.Basic); ok && bt.Info()&types.IsString != 0 &&
			base.Op == "slice" && len(base.Args) == 4 && base.Args[1].IsConst("_") && !base.Args[2].IsConst("_") && v.Max == nil {
			if hi.IsConst("_") {
				hi = base.Args[2]
			}
			base = base.Args[0]
		}
		fr.env[v] = &Term{Op: "slice", Args: []*Term{base, lo, hi, opt(v.Max)}, Type: v.Type()}
	case *ssa.TypeAssert:
		a := x.val(fr, v.X)
		fr.env[v] = &Term{Op: "typeassert", Name: types.TypeString(v.AssertedType, nil), Args: []*Term{a}, Type: v.Type()}
		if !v.CommaOk {
			eff("maypanic", "typeassert", a)
		}
	case *ssa.Range:
		fr.env[v] = &Term{Op: "rangeiter", Args: []*Term{x.val(fr, v.X)}}
	case *ssa.Next:
		fr.env[v] = &Term{Op: "next", Name: fmt.Sprintf("%s.%s", fr.fn.Name(), v.Name()), Args: []*Term{x.val(fr, v.Iter)}}
	case *ssa.Select:
		eff("unknown", "select")
		fr.env[v] = &Term{Op: "opaque", Name: "select"}
	case *ssa.Send:
		eff("unknown", "send")
	case *ssa.Go:
		eff("go", callName(v.Common()), x.callArgs(fr, v.Common())...)
	case *ssa.Defer:
		c := v.Common()
		kind := "call"
		switch {
		case c.IsInvoke():
			kind = "invoke"
		case c.StaticCallee() == nil:
			if _, isB := c.Value.(*ssa.Builtin); !isB {
				kind = "dyncall"
			} else {
				kind = "builtin"
			}
		}
		fr.defers = append(fr.defers, deferredCall{kind: kind, name: callName(c), args: x.callArgs(fr, c), pos: v.Pos()})
	case *ssa.RunDefers:
		// deferred calls run here, last first; they are recorded as opaque calls
		// (a deferred module function is not inlined)
		for i := len(fr.defers) - 1; i >= 0; i-- {
			d := fr.defers[i]
			st.effects = append(st.effects, Effect{Kind: d.kind, Name: d.name, Args: d.args, Fn: funcName(fr.fn), At: x.at(d.pos), NAtoms: len(st.atoms), Pos: d.pos,
				Res: &Term{Op: "call", Name: d.name, Args: d.args}})
			for _, a := range d.args {
				if a.Op == "alloc" || a.Op == "faddr" || a.Op == "param" || a.Op == "load" {
					if _, isPtr := a.Type.(*types.Pointer); isPtr || a.Op == "alloc" || a.Op == "faddr" {
						x.havoc(st, a)
					}
				}
			}
		}
		fr.defers = nil
	case *ssa.SliceToArrayPointer:
		fr.env[v] = &Term{Op: "conv", Name: "s2a", Args: []*Term{x.val(fr, v.X)}}
	default:
		eff("unknown", fmt.Sprintf("%T", ins))
		if val, ok := ins.(ssa.Value); ok {
			fr.env[val] = &Term{Op: "opaque", Name: fr.fn.Name() + "." + val.Name()}
		}
	}
}

// lenBounds returns a lower bound on len(t) and whether it is exact, for
// nil constants, literals and append chains of literals.
func lenBounds(t *Term) (int, bool) {
	switch {
	case t.Op == "const" && t.Name == "nil":
		return 0, true
	case t.Op == "lit":
		return len(t.Args), true
	case isEmptySliceTerm(t):
		return 0, true
	case t.Op == "append" && len(t.Args) == 2:
		a, ea := lenBounds(t.Args[0])
		b, eb := lenBounds(t.Args[1])
		return a + b, ea && eb
	}
	return 0, false
}

func foldBin(op string, a, b *Term, typ types.Type) *Term {
	if a.Op == "len" && len(a.Args) == 1 && b.Op == "const" && b.Name == "0" {
		min, exact := lenBounds(a.Args[0])
		switch {
		case min > 0 && (op == "==" || op == "!=" || op == ">"):
			return constTerm(strconv.FormatBool(op != "=="))
		case exact && min == 0 && (op == "==" || op == "!=" || op == ">"):
			return constTerm(strconv.FormatBool(op == "=="))
		}
	}
	if b.Op == "const" && b.Name == "nil" && (op == "==" || op == "!=") && knownNonNil(a) {
		return constTerm(strconv.FormatBool(op == "!="))
	}
	if a.Op == "const" && b.Op == "const" && (op == "+" || op == "-" || op == "*") {
		// integer constants (small: ports, offsets, lengths) are folded so that
		// `k := c1; k -= c2` and a literal c1-c2 read alike
		if x, err := strconv.ParseInt(a.Name, 10, 64); err == nil {
			if y, err := strconv.ParseInt(b.Name, 10, 64); err == nil && x > -(1<<31) && x < 1<<31 && y > -(1<<31) && y < 1<<31 {
				var v int64
				switch op {
				case "+":
					v = x + y
				case "-":
					v = x - y
				case "*":
					v = x * y
				}
				if v > -(1<<31) && v < 1<<31 {
					return &Term{Op: "const", Name: strconv.FormatInt(v, 10), Type: typ}
				}
			}
		}
	}
	if a.Op == "const" && b.Op == "const" {
		switch op {
		case "==":
			return constTerm(strconv.FormatBool(a.Name == b.Name))
		case "!=":
			return constTerm(strconv.FormatBool(a.Name != b.Name))
		}
	}
	return &Term{Op: "bin", Name: op, Args: []*Term{a, b}, Type: typ}
}

func callName(c *ssa.CallCommon) string {
	if c.IsInvoke() {
		return short(types.TypeString(c.Value.Type(), nil)) + "." + c.Method.Name()
	}
	if f := c.StaticCallee(); f != nil {
		return funcName(f)
	}
	if b, ok := c.Value.(*ssa.Builtin); ok {
		return "builtin." + b.Name()
	}
	return "dynamic"
}

func (x *Exec) callArgs(fr *frame, c *ssa.CallCommon) []*Term {
	var as []*Term
	if c.IsInvoke() {
		as = append(as, x.val(fr, c.Value))
	} else if c.StaticCallee() == nil {
		if _, ok := c.Value.(*ssa.Builtin); !ok {
			as = append(as, x.val(fr, c.Value))
		}
	}
	for _, a := range c.Args {
		as = append(as, x.val(fr, a))
	}
	return as
}

// call handles a call instruction; it returns true when the rest of the block
// is executed by a continuation (inlined callee).
func (x *Exec) call(fr *frame, b *ssa.BasicBlock, i int, pred *ssa.BasicBlock, ins *ssa.Call, st *state, hdrs map[*ssa.BasicBlock]bool, onHdr hdrCont, onRet retCont) bool {
	c := ins.Common()
	name := callName(c)
	args := x.callArgs(fr, c)
	// a module helper that is maps.Copy written out (`for k, v := range src { dst[k] = v }`)
	if callee := c.StaticCallee(); callee != nil && len(callee.Blocks) > 0 && len(args) == 2 && callee.Pkg != nil && strings.HasPrefix(callee.Pkg.Pkg.Path(), modPath) {
		if d, s, ok := mapCopyShape(callee); ok {
			name, args = "maps.Copy", []*Term{args[d], args[s]}
		}
	}
	eff := func(kind string, res *Term) {
		st.effects = append(st.effects, Effect{Kind: kind, Name: name, Args: args, Res: res, Fn: funcName(fr.fn), At: x.at(ins.Pos()), NAtoms: len(st.atoms), Pos: ins.Pos()})
	}
	// library functions that index their argument: slices.Insert(s, i, …) needs
	// 0 ≤ i ≤ len(s) like s[i:], slices.Delete/Replace(s, i, j, …) like s[i:j]
	if x.TraceBounds && len(args) >= 2 {
		hi := constTerm("_")
		switch name {
		case "slices.Delete", "slices.Replace":
			if len(args) >= 3 {
				hi = args[2]
			}
			fallthrough
		case "slices.Insert":
			b := *args[0]
			st.effects = append(st.effects, Effect{Kind: "bounds", Name: "libslice", Args: []*Term{&b, args[1], hi, constTerm("_")}, Fn: funcName(fr.fn), At: x.at(ins.Pos()), NAtoms: len(st.atoms), Pos: ins.Pos()})
		}
	}
	result := func(op string) *Term {
		return &Term{Op: op, Name: name, Args: args, Type: ins.Type()}
	}
	// an interface call whose receiver was boxed on this very path has one
	// possible target: the concrete type's method (devirtualised)
	var devirt *ssa.Function
	var devirtType types.Type
	if c.IsInvoke() && len(args) > 0 && args[0].Op == "iface" && args[0].CType != nil && len(args[0].Args) == 1 {
		if m := fr.fn.Prog.LookupMethod(args[0].CType, c.Method.Pkg(), c.Method.Name()); m != nil {
			devirt, devirtType = m, args[0].CType
			args = append([]*Term{args[0].Args[0]}, args[1:]...)
			name = funcName(m)
		}
	}
	switch {
	case devirt != nil:
	case c.IsInvoke():
		r := result("invoke")
		fr.env[ins] = r
		eff("invoke", r)
		return false
	case c.StaticCallee() == nil:
		if bi, ok := c.Value.(*ssa.Builtin); ok {
			switch bi.Name() {
			case "min", "max":
				// (two operands in canonical order: min(a, b) and min(b, a) read alike)
				if len(args) == 2 && args[0].Key() > args[1].Key() {
					args[0], args[1] = args[1], args[0]
				}
				fr.env[ins] = result(bi.Name())
			case "len", "cap", "real", "imag", "complex":
				fr.env[ins] = result(bi.Name())
			case "append":
				fr.env[ins] = &Term{Op: "append", Args: args, Type: ins.Type()}
				eff("builtin", fr.env[ins])
			case "copy", "delete", "clear", "close", "print", "println", "panic", "recover":
				r := result("call")
				fr.env[ins] = r
				eff("builtin", r)
				if bi.Name() == "copy" || bi.Name() == "clear" {
					x.havoc(st, args[0])
				}
			default:
				r := result("call")
				fr.env[ins] = r
				eff("builtin", r)
			}
			return false
		}
		r := result("dyncall")
		fr.env[ins] = r
		eff("dyncall", r)
		return false
	}
	callee := c.StaticCallee()
	var argTypes []types.Type
	if devirt != nil {
		callee = devirt
		argTypes = append(argTypes, devirtType)
	}
	for _, a := range c.Args {
		argTypes = append(argTypes, a.Type())
	}
	pol := x.Policy(callee)
	if pol == PolInline && (len(callee.Blocks) == 0 || hasLoop(callee) || fr.depth+1 > x.MaxDepth || inChain(fr, callee)) {
		pol = PolEffect
	}
	// a method whose receiver changed between value and pointer is presented
	// as in the inventory: the receiver argument is the value (or the address)
	if how, ok := recvFlip[name]; ok && len(args) > 0 {
		switch how {
		case "deref":
			if pt, isPtr := argTypes[0].Underlying().(*types.Pointer); isPtr {
				args[0] = x.load(st, args[0], pt.Elem())
			}
		case "addr":
			if args[0].Op == "load" && len(args[0].Args) == 1 {
				args[0] = args[0].Args[0]
			}
		}
	}
	// library models: a few standard-library string searches are spelled in
	// terms of one primitive, strings.IndexByte, so that equivalent calls read
	// alike (strings.ContainsRune(s, ':') ≡ strings.IndexByte(s, ':') >= 0 …)
	if m, ok := x.libModel(name, args, ins.Type()); ok {
		fr.env[ins] = m
		return false
	}
	// a local strings.Builder read back: the concatenation of what was written
	// to it, in order (WriteString / WriteByte / WriteRune only)
	if name == "(*strings.Builder).String" && len(args) == 1 && args[0].Op == "alloc" && st.fresh[args[0].Key()] {
		var cat *Term
		ok := true
		for _, e := range st.effects {
			uses := false
			for k, a := range e.Args {
				if a != nil && a.MentionsKey(args[0].Key()) {
					uses = true
					if k != 0 {
						ok = false // the builder is handed to something else
					}
				}
			}
			if !uses {
				continue
			}
			var piece *Term
			switch {
			case e.Kind == "call" && e.Name == "(*strings.Builder).WriteString" && len(e.Args) == 2:
				piece = e.Args[1]
			case e.Kind == "call" && (e.Name == "(*strings.Builder).WriteByte" || e.Name == "(*strings.Builder).WriteRune") && len(e.Args) == 2:
				if c, err := strconv.ParseInt(e.Args[1].Name, 10, 32); err == nil && e.Args[1].Op == "const" && c > 0 && c < 128 {
					piece = &Term{Op: "const", Name: strconv.Quote(string(rune(c))), Type: types.Typ[types.String]}
				} else {
					piece = &Term{Op: "conv", Name: "string", Args: []*Term{e.Args[1]}, Type: types.Typ[types.String]}
				}
			case e.Kind == "call" && (e.Name == "(*strings.Builder).Grow" || e.Name == "(*strings.Builder).Len"):
				continue
			case e.Kind == "enter" || e.Kind == "alloc":
				continue
			default:
				ok = false
			}
			if piece != nil {
				if cat == nil {
					cat = piece
				} else {
					cat = &Term{Op: "bin", Name: "+", Args: []*Term{cat, piece}, Type: types.Typ[types.String]}
				}
			}
		}
		if ok && cat != nil {
			fr.env[ins] = cat
			return false
		}
	}
	// strings.CutPrefix(s, "lit") is `if HasPrefix(s, "lit") { s[len("lit"):], true } else { s, false }`;
	// strings.CutSuffix(s, p) is (TrimSuffix(s, p), HasSuffix(s, p))
	if name == "strings.CutSuffix" && len(args) == 2 {
		fr.env[ins] = &Term{Op: "tuple", Name: name, Args: []*Term{
			{Op: "call", Name: "strings.TrimSuffix", Args: args, Type: types.Typ[types.String]},
			{Op: "call", Name: "strings.HasSuffix", Args: args, Type: types.Typ[types.Bool]},
		}}
		return false
	}
	if name == "strings.TrimPrefix" && len(args) == 2 {
		if lit, ok := args[1].ConstString(); ok {
			has := &Term{Op: "call", Name: "strings.HasPrefix", Args: args, Type: types.Typ[types.Bool]}
			for _, a := range st.atoms {
				if a.T.Key() == has.Key() {
					if a.Pos {
						none := constTerm("_")
						fr.env[ins] = &Term{Op: "slice", Args: []*Term{args[0], constTerm(strconv.Itoa(len(lit))), none, none}, Type: types.Typ[types.String]}
					} else {
						fr.env[ins] = args[0]
					}
					return false
				}
			}
		}
	}
	if name == "strings.CutPrefix" && len(args) == 2 {
		if lit, ok := args[1].ConstString(); ok {
			at := &Term{Op: "call", Name: "strings.HasPrefix", Args: args, Type: types.Typ[types.Bool]}
			none := constTerm("_")
			for _, found := range []bool{true, false} {
				feasible, known := true, false
				for _, a := range st.atoms {
					if a.T.Key() == at.Key() {
						known = true
						if a.Pos != found {
							feasible = false
						}
					}
				}
				if !feasible {
					continue
				}
				st2 := st.clone()
				fr2 := cloneChain(fr)
				if !known {
					st2.atoms = append(st2.atoms, Atom{T: at, Pos: found, Fn: funcName(fr.fn), At: x.at(ins.Pos())})
				}
				var rets []*Term
				if found {
					rets = []*Term{{Op: "slice", Args: []*Term{args[0], constTerm(strconv.Itoa(len(lit))), none, none}, Type: types.Typ[types.String]}, constTerm("true")}
				} else {
					rets = []*Term{args[0], constTerm("false")}
				}
				fr2.env[ins] = &Term{Op: "tuple", Name: name, Args: rets}
				x.instrs(fr2, b, i+1, pred, st2, false, hdrs, onHdr, onRet)
			}
			return true
		}
	}
	if name == "strings.Cut" && len(args) == 2 {
		if c1, ok := oneByte(args[1]); ok {
			// strings.Cut(s, sep) is, by definition,
			//   if i := Index(s, sep); i >= 0 { return s[:i], s[i+len(sep):], true }; return s, "", false
			idx := &Term{Op: "call", Name: "strings.IndexByte", Args: []*Term{args[0], constTerm(c1)}, Type: types.Typ[types.Int]}
			at := mk("bin", "<", idx, constTerm("0"))
			none := constTerm("_")
			for _, notFound := range []bool{true, false} {
				feasible, known := true, false
				for _, a := range st.atoms {
					if a.T.Key() == at.Key() {
						known = true
						if a.Pos != notFound {
							feasible = false
						}
					}
				}
				if !feasible {
					continue
				}
				st2 := st.clone()
				fr2 := cloneChain(fr)
				if !known {
					st2.atoms = append(st2.atoms, Atom{T: at, Pos: notFound, Fn: funcName(fr.fn), At: x.at(ins.Pos())})
				}
				var rets []*Term
				if notFound {
					rets = []*Term{args[0], {Op: "const", Name: `""`, Type: types.Typ[types.String]}, constTerm("false")}
				} else {
					rets = []*Term{
						{Op: "slice", Args: []*Term{args[0], none, idx, none}, Type: types.Typ[types.String]},
						{Op: "slice", Args: []*Term{args[0], foldBin("+", idx, constTerm("1"), types.Typ[types.Int]), none, none}, Type: types.Typ[types.String]},
						constTerm("true"),
					}
				}
				fr2.env[ins] = &Term{Op: "tuple", Name: name, Args: rets}
				x.instrs(fr2, b, i+1, pred, st2, false, hdrs, onHdr, onRet)
			}
			return true
		}
	}
	switch pol {
	case PolPure:
		// a pointer to a local whose content is known is passed "by content"
		for k, a := range args {
			if a.Op == "alloc" {
				if e, ok := st.mem[a.Key()]; ok {
					args[k] = &Term{Op: "ref", Args: []*Term{e.Val}, Type: a.Type}
				}
			}
		}
		fr.env[ins] = result("call")
		return false
	case PolEffect:
		r := result("call")
		fr.env[ins] = r
		eff("call", r)
		deref := make([]*Term, len(args))
		for k, a := range args {
			if a.Op == "alloc" {
				if e, ok := st.mem[a.Key()]; ok {
					deref[k] = e.Val
				} else if k < len(argTypes) {
					// a local struct filled field by field: its content as a composite
					if pt, ok := argTypes[k].Underlying().(*types.Pointer); ok {
						if _, isStruct := pt.Elem().Underlying().(*types.Struct); isStruct {
							if v := x.load(st, a, pt.Elem()); v.Op == "composite" {
								deref[k] = v
							}
						}
					}
				}
			}
		}
		st.effects[len(st.effects)-1].Deref = deref
		// acquiring a lock embedded in a struct synchronises with every
		// earlier release: the sibling fields may have been written by another
		// goroutine since they were last read, so what is known of them is
		// forgotten (a value read in an earlier critical section is stale)
		if isLockAcquire(name) && len(args) > 0 && args[0].Op == "faddr" {
			x.havoc(st, args[0].Args[0])
		}
		for k, a := range args {
			if k < len(argTypes) {
				if _, ok := argTypes[k].Underlying().(*types.Pointer); ok {
					if x.FieldsWritten != nil && len(callee.Blocks) > 0 {
						if fs, precise := x.FieldsWritten(callee, k); precise {
							for _, f := range fs {
								x.havoc(st, &Term{Op: "faddr", Name: f, Args: []*Term{a}})
							}
							continue
						}
					}
					x.havoc(st, a)
				}
			}
			// a closure handed to code that is not inlined may be run there:
			// what is known of the variables it captured is forgotten
			if a.Op == "closure" {
				for _, b := range a.Args {
					x.havoc(st, b)
				}
			}
		}
		return false
	}
	// inline
	eff("enter", nil)
	x.act++
	cf := &frame{fn: callee, env: map[ssa.Value]*Term{}, act: x.act, depth: fr.depth + 1, caller: fr}
	for k, p := range callee.Params {
		cf.env[p] = args[k]
	}
	if len(callee.FreeVars) > 0 {
		// a closure called where it was made: its free variables are the
		// addresses of the enclosing function's variables it captured
		if mc, ok := c.Value.(*ssa.MakeClosure); ok && len(mc.Bindings) == len(callee.FreeVars) {
			for k, fv := range callee.FreeVars {
				cf.env[fv] = x.val(fr, mc.Bindings[k])
			}
		} else {
			x.problem("inlining closure %s with free variables", name)
		}
	}
	x.block(cf, callee.Blocks[0], nil, st, false, nil, nil, func(st2 *state, rets []*Term, kind string) {
		if kind == "panic" {
			onRet(st2, nil, "panic")
			return
		}
		// the caller frame to resume is the (possibly cloned) one — find it
		// through the callee frame chain that reached this return.
		resume := cloneChain(fr)
		switch len(rets) {
		case 0:
		case 1:
			resume.env[ins] = rets[0]
		default:
			resume.env[ins] = &Term{Op: "tuple", Name: name, Args: rets}
		}
		x.instrs(resume, b, i+1, pred, st2, false, hdrs, onHdr, onRet)
	})
	return true
}

// oneByte: t is a one-byte string constant or an ASCII rune/byte constant;
// returns the byte's decimal spelling.
func oneByte(t *Term) (string, bool) {
	if t == nil || t.Op != "const" {
		return "", false
	}
	if s, ok := t.ConstString(); ok {
		if len(s) == 1 && s[0] < 0x80 {
			return strconv.Itoa(int(s[0])), true
		}
		return "", false
	}
	if n, err := strconv.Atoi(t.Name); err == nil && n >= 0 && n < 0x80 {
		return t.Name, true
	}
	return "", false
}

// libModel rewrites calls of a few pure string searches into IndexByte form.
func (x *Exec) libModel(name string, args []*Term, typ types.Type) (*Term, bool) {
	if len(args) != 2 {
		return nil, false
	}
	idx := func(c string) *Term {
		return &Term{Op: "call", Name: "strings.IndexByte", Args: []*Term{args[0], constTerm(c)}, Type: types.Typ[types.Int]}
	}
	switch name {
	case "strings.ContainsRune", "strings.Contains":
		if c, ok := oneByte(args[1]); ok {
			return &Term{Op: "un", Name: "!", Args: []*Term{mk("bin", "<", idx(c), constTerm("0"))}, Type: typ}, true
		}
	case "strings.IndexRune", "strings.Index":
		if c, ok := oneByte(args[1]); ok {
			return idx(c), true
		}
	}
	return nil, false
}

func isLockAcquire(name string) bool {
	switch name {
	case "(*sync.RWMutex).Lock", "(*sync.RWMutex).RLock", "(*sync.Mutex).Lock", "(*sync.RWMutex).TryLock", "(*sync.RWMutex).TryRLock", "(*sync.Mutex).TryLock":
		return true
	}
	return false
}

func inChain(fr *frame, fn *ssa.Function) bool {
	for f := fr; f != nil; f = f.caller {
		if f.fn == fn {
			return true
		}
	}
	return false
}

// sortedKeys returns the sorted keys of a string-keyed map.
func sortedKeys[V any](m map[string]V) []string {
	ks := make([]string, 0, len(m))
	for k := range m {
		ks = append(ks, k)
	}
	sort.Strings(ks)
	return ks
}

// condPos finds a source position for a branch (If instructions carry none).
func condPos(ins *ssa.If) token.Pos {
	if p := ins.Cond.Pos(); p.IsValid() {
		return p
	}
	if v, ok := ins.Cond.(ssa.Instruction); ok {
		for _, op := range v.Operands(nil) {
			if *op != nil && (*op).Pos().IsValid() {
				return (*op).Pos()
			}
		}
	}
	b := ins.Block()
	for i := len(b.Instrs) - 1; i >= 0; i-- {
		if p := b.Instrs[i].Pos(); p.IsValid() {
			return p
		}
	}
	return token.NoPos
}

// knownNonNil: the value is a fresh allocation, or an interface holding one.
func knownNonNil(t *Term) bool {
	switch t.Op {
	case "alloc", "mkmap", "mkslice", "closure", "func", "faddr", "iaddr":
		return true
	case "lit":
		return true
	case "iface":
		return knownNonNil(t.Args[0])
	}
	return false
}

// fieldOf projects field name out of a struct-valued term.
func fieldOf(v *Term, name string) *Term {
	if v.Op == "composite" {
		for i, n := range strings.Split(v.Name, ",") {
			if n == name && i < len(v.Args) {
				return v.Args[i]
			}
		}
	}
	return &Term{Op: "field", Name: name, Args: []*Term{v}}
}

// joinIsNil decides the atom errors.Join(list...) == nil where list is a
// literal chain of appends starting from nil whose elements the path has
// already classified: Join is nil iff every operand is nil.
func joinIsNil(at *Term, atoms []Atom) (value, known bool) {
	if at.Op != "bin" || at.Name != "==" || len(at.Args) != 2 {
		return false, false
	}
	j, n := at.Args[0], at.Args[1]
	if j.IsConst("nil") {
		j, n = n, j
	}
	if !n.IsConst("nil") || j.Op != "call" || j.Name != "errors.Join" || len(j.Args) != 1 {
		return false, false
	}
	items, ok := errsChain(j.Args[0], "nil")
	if !ok {
		return false, false
	}
	allNil := true
	for _, it := range items {
		if knownNonNil(it) {
			return false, true
		}
		decided := false
		for _, a := range atoms {
			if a.T.Op == "bin" && a.T.Name == "==" && len(a.T.Args) == 2 && a.T.Args[1].IsConst("nil") && a.T.Args[0].Key() == it.Key() {
				decided = true
				if !a.Pos {
					return false, true
				}
			}
		}
		if !decided {
			allNil = false
		}
	}
	if allNil {
		return true, true
	}
	return false, false
}

// clamp: a value selected between two candidates by a comparison of those very
// candidates is their minimum (or maximum) — `e := len(s); if lim < e { e = lim }`
// reads as min(lim, len(s)), like the builtin. v is the candidate selected on
// this path; the comparison is among the path's conditions.
func (x *Exec) clamp(fr *frame, st *state, phi *ssa.Phi, pred *ssa.BasicBlock, v *Term) *Term {
	if !isIntegerish(v) {
		return v
	}
	var otherV ssa.Value
	for j, p := range phi.Block().Preds {
		if p != pred {
			otherV = phi.Edges[j]
		}
	}
	if otherV == nil {
		return v
	}
	var other *Term
	if _, isConst := otherV.(*ssa.Const); isConst {
		other = x.val(fr, otherV)
	} else if t, ok := fr.env[otherV]; ok {
		other = t
	} else {
		return v
	}
	vk, ok := stripConv(v).Key(), stripConv(other).Key()
	if vk == ok {
		return v
	}
	for i := len(st.atoms) - 1; i >= 0; i-- {
		a := st.atoms[i]
		if a.T.Op != "bin" || a.T.Name != "<" || len(a.T.Args) != 2 {
			continue
		}
		l, r := stripConv(a.T.Args[0]).Key(), stripConv(a.T.Args[1]).Key()
		var vSmaller bool
		switch {
		case l == vk && r == ok:
			vSmaller = a.Pos // v < other; or v ≥ other
		case l == ok && r == vk:
			vSmaller = !a.Pos // other < v; or other ≥ v, i.e. v ≤ other
		default:
			continue
		}
		op := "max"
		if vSmaller {
			op = "min"
		}
		args := []*Term{v, other}
		if args[0].Key() > args[1].Key() {
			args[0], args[1] = args[1], args[0]
		}
		return &Term{Op: op, Name: "builtin." + op, Args: args, Type: phi.Type()}
	}
	return v
}

// mapCopyShape recognises `func(dst, src M) { for k, v := range src { dst[k] = v } }`.
func mapCopyShape(fn *ssa.Function) (dst, src int, ok bool) {
	if len(fn.Params) != 2 || fn.Signature.Results().Len() != 0 || fn.Signature.Recv() != nil {
		return 0, 0, false
	}
	for _, p := range fn.Params {
		if _, isMap := p.Type().Underlying().(*types.Map); !isMap {
			return 0, 0, false
		}
	}
	dst, src = -1, -1
	updates := 0
	for _, b := range fn.Blocks {
		for _, ins := range b.Instrs {
			switch v := ins.(type) {
			case *ssa.Range:
				for i, p := range fn.Params {
					if v.X == p {
						src = i
					}
				}
			case *ssa.MapUpdate:
				updates++
				k, kok := v.Key.(*ssa.Extract)
				e, eok := v.Value.(*ssa.Extract)
				if !kok || !eok || k.Index != 1 || e.Index != 2 || k.Tuple != e.Tuple {
					return 0, 0, false
				}
				if _, isNext := k.Tuple.(*ssa.Next); !isNext {
					return 0, 0, false
				}
				for i, p := range fn.Params {
					if v.Map == p {
						dst = i
					}
				}
			case *ssa.Next, *ssa.Extract, *ssa.If, *ssa.Jump, *ssa.Return, *ssa.DebugRef:
			default:
				return 0, 0, false
			}
		}
	}
	if updates != 1 || dst < 0 || src < 0 || dst == src {
		return 0, 0, false
	}
	return dst, src, true
}

// capturedCells lists the local variables of fn that are shared with a closure
// (so that they live in a heap cell instead of SSA registers), are declared
// before the loop headed by h, and whose address is used only to load, store
// and bind closures.
func capturedCells(fn *ssa.Function, h *ssa.BasicBlock) []*ssa.Alloc {
	var out []*ssa.Alloc
	for _, b := range fn.Blocks {
		if b == h || !b.Dominates(h) {
			continue
		}
		for _, ins := range b.Instrs {
			a, ok := ins.(*ssa.Alloc)
			if !ok || a.Referrers() == nil {
				continue
			}
			captured, clean := false, true
			for _, ref := range *a.Referrers() {
				switch r := ref.(type) {
				case *ssa.Store:
					if r.Addr != a {
						clean = false
					}
				case *ssa.UnOp, *ssa.DebugRef:
				case *ssa.MakeClosure:
					captured = true
					// the closure itself is only ever called, directly
					if r.Referrers() != nil {
						for _, u := range *r.Referrers() {
							switch c := u.(type) {
							case *ssa.DebugRef:
							case ssa.CallInstruction:
								if c.Common().Value != r {
									clean = false
								}
							default:
								clean = false
							}
						}
					}
				default:
					clean = false
				}
			}
			if captured && clean {
				out = append(out, a)
			}
		}
	}
	return out
}

func cellName(a *ssa.Alloc) string {
	if a.Comment != "" {
		return a.Comment
	}
	return a.Name()
}

// writtenOnce: the cell is stored to exactly once, by the function itself, in
// a block that dominates the loop header h (a spilled parameter, a variable
// initialised before the loop and only read afterwards).
func writtenOnce(c *ssa.Alloc, h *ssa.BasicBlock) bool {
	n := 0
	okPlace := true
	var visit func(addr ssa.Value, refs *[]ssa.Instruction, inClosure bool)
	visit = func(addr ssa.Value, refs *[]ssa.Instruction, inClosure bool) {
		if refs == nil {
			return
		}
		for _, ref := range *refs {
			switch r := ref.(type) {
			case *ssa.Store:
				if r.Addr == addr {
					n++
					if inClosure || r.Block() == h || !r.Block().Dominates(h) {
						okPlace = false
					}
				}
			case *ssa.MakeClosure:
				if cf, _ := r.Fn.(*ssa.Function); cf != nil {
					for i, bnd := range r.Bindings {
						if bnd == addr && i < len(cf.FreeVars) {
							visit(cf.FreeVars[i], cf.FreeVars[i].Referrers(), true)
						}
					}
				}
			}
		}
	}
	visit(c, c.Referrers(), false)
	return n == 1 && okPlace
}

// otherConstant: x == c is false on a path that carries x == c' for a
// different constant c'.
func (p *Path) otherConstant(k string) int {
	if !strings.HasPrefix(k, "bin:==(") {
		return 0
	}
	for _, a := range p.Atoms {
		if !a.Pos || a.T.Op != "bin" || a.T.Name != "==" || len(a.T.Args) != 2 || a.T.Args[1].Op != "const" || a.T.Args[0].Op == "const" {
			continue
		}
		pre := "bin:==(" + a.T.Args[0].Key() + ", "
		if !strings.HasPrefix(k, pre) || !strings.HasSuffix(k, ")") {
			continue
		}
		other := k[len(pre) : len(k)-1]
		if other == a.T.Args[1].Key() {
			return 1
		}
		// the remainder must itself be a constant: a quoted string or a number
		if _, err := strconv.Unquote(other); err == nil {
			return -1
		}
		if _, err := strconv.ParseInt(other, 10, 64); err == nil {
			return -1
		}
	}
	return 0
}
