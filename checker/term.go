package main

import (
	"fmt"
	"go/types"
	"strings"
)

// A Term is a provenance tag: it says where a value comes from, never what
// the value is. Terms are compared by their canonical key.
type Term struct {
	Op    string  // const param cap global alloc faddr iaddr load call ext bin un conv lookup slice lit loopphi len append iface field index mkmap mkslice closure invoke opaque
	Name  string  // const: printed value; param/global/alloc: name; faddr/field: field name; call/invoke: callee; bin/un: operator
	Args  []*Term // operands
	Idx   int     // ext: result index; load: epoch
	Type  types.Type
	CType types.Type // iface: the concrete type that was boxed
	key   string
}

func (t *Term) Key() string {
	if t == nil {
		return "<nil>"
	}
	if t.key != "" {
		return t.key
	}
	var b strings.Builder
	switch t.Op {
	case "const":
		b.WriteString(t.Name)
	case "param", "cap", "global", "alloc", "loopphi", "opaque":
		b.WriteString(t.Op + ":" + t.Name)
	case "faddr":
		b.WriteString("&" + pathKey(t))
	case "field":
		b.WriteString(t.Args[0].Key() + "." + t.Name)
	case "load":
		a := t.Args[0]
		if a.Op == "faddr" {
			b.WriteString(pathKey(a))
		} else {
			b.WriteString("*" + a.Key())
		}
		if t.Idx != 0 {
			fmt.Fprintf(&b, "@%d", t.Idx)
		}
	case "ext":
		fmt.Fprintf(&b, "%s#%d", t.Args[0].Key(), t.Idx)
	default:
		b.WriteString(t.Op)
		if t.Name != "" {
			b.WriteString(":" + t.Name)
		}
		b.WriteString("(")
		for i, a := range t.Args {
			if i > 0 {
				b.WriteString(", ")
			}
			b.WriteString(a.Key())
		}
		b.WriteString(")")
		if t.Idx != 0 {
			fmt.Fprintf(&b, "#%d", t.Idx)
		}
	}
	t.key = b.String()
	return t.key
}

func (t *Term) String() string { return t.Key() }

// pathKey prints a field-address chain as base.f.g (without the address-of).
func pathKey(a *Term) string {
	if a.Op == "faddr" {
		return pathKey(a.Args[0]) + "." + a.Name
	}
	return a.Key()
}

func mk(op, name string, args ...*Term) *Term { return &Term{Op: op, Name: name, Args: args} }

func constTerm(s string) *Term { return &Term{Op: "const", Name: s} }

// IsConst reports whether t is the constant with printed form s.
func (t *Term) IsConst(s string) bool { return t != nil && t.Op == "const" && t.Name == s }

// ConstString returns the string value of a string constant term.
func (t *Term) ConstString() (string, bool) {
	if t == nil || t.Op != "const" || !strings.HasPrefix(t.Name, "\"") {
		return "", false
	}
	var s string
	if _, err := fmt.Sscanf(t.Name, "%q", &s); err != nil {
		return "", false
	}
	return s, true
}

// Root returns the base object of an address/value term (following
// faddr/iaddr/field/index/slice/load chains).
func (t *Term) Root() *Term {
	for t != nil {
		switch t.Op {
		case "faddr", "iaddr", "field", "index", "slice", "ext", "conv":
			t = t.Args[0]
		case "load":
			t = t.Args[0]
		default:
			return t
		}
	}
	return nil
}

// addrRoot is like Root but does not look through loads: it yields the
// object whose memory the address designates.
func (t *Term) addrRoot() *Term {
	for t != nil {
		switch t.Op {
		case "faddr", "iaddr":
			t = t.Args[0]
		default:
			return t
		}
	}
	return nil
}

// Mentions reports whether pred holds for t or any sub-term of t.
func (t *Term) Mentions(pred func(*Term) bool) bool {
	if t == nil {
		return false
	}
	if pred(t) {
		return true
	}
	for _, a := range t.Args {
		if a.Mentions(pred) {
			return true
		}
	}
	return false
}

// MentionsKey reports whether a sub-term of t has the given key.
func (t *Term) MentionsKey(k string) bool {
	return t.Mentions(func(s *Term) bool { return s.Key() == k })
}

// overlap reports whether two address terms may designate overlapping memory
// given that distinct roots do not alias: one is a path-prefix of the other.
func overlap(a, b *Term) bool {
	ak, bk := a.Key(), b.Key()
	if ak == bk {
		return true
	}
	return isPrefixAddr(a, b) || isPrefixAddr(b, a)
}

// isPrefixAddr: is p an ancestor address of a (a = &p.f.g[i]...)?
func isPrefixAddr(p, a *Term) bool {
	pk := p.Key()
	for a != nil {
		if a.Key() == pk {
			return true
		}
		if a.Op == "faddr" || a.Op == "iaddr" {
			// an index address with unknown index overlaps any index of the same base
			a = a.Args[0]
			continue
		}
		return false
	}
	return false
}

// An Atom is a branch condition with the polarity taken on the path.
type Atom struct {
	T   *Term
	Pos bool
	Fn  string // function in which the branch sits
	At  string // file:line of the branch
}

func (a Atom) String() string {
	if a.Pos {
		return a.T.Key()
	}
	return "!" + a.T.Key()
}
