package main

import (
	"fmt"
	"go/token"
	"strings"

	"golang.org/x/tools/go/ssa"
)

func init() {
	registry["C11"] = checkC11
	registry["C16"] = checkC16
}

const successStatusTag = "int(cfg.preflightStatusMinus200)+200"

// isPreflightPath: the middleware answers the request itself (no handler
// call, one status write). Which requests take such a path is C11's question
// (R11.2); the other request-path properties speak about those paths.
func isPreflightPath(rp *ReqPath) bool {
	return rp.Not(aPass) && len(rp.Serves) == 0 && rp.NStatus >= 1
}

func isPreflightAtoms(rp *ReqPath) bool {
	return rp.Not(aPass) && rp.Is(aOPTIONS) && rp.Is(aFoundO) && rp.Is(aFoundACRM)
}

func checkC11(ctx *Ctx) *Result {
	r := newResult("C11")
	r.Explanation = "Decided for every request, configuration and wrapped handler: on each path of the request closure the rule counts the calls to the wrapped handler and to WriteHeader, checks their position in the effect sequence and the identity of their arguments (the closure's own h, w, r), and the set of operations applied to the response header map. Decided: the handler-free paths are exactly those carrying method==OPTIONS ∧ found(Origin) ∧ found(ACRM) on a configured middleware; every other path ends with exactly one ServeHTTP(w, r) on the captured handler, after header-map operations limited to Vary:add and ACAO/ACAC/ACEH set/assign, without WriteHeader/Write/delete; the passthrough path does nothing but that call; `found` means present with at least one value (structure of headers.First); (R11.5) which middlewares take the passthrough path: the zero value (nil pointer by the language) and any middleware after a Reconfigure that returned nil for a nil Config — every successful path of Reconfigure stores the builder's result for its own argument, and the builder returns a nil configuration for a nil Config."
	r.NotDecided = "what the wrapped handler and a user-supplied ResponseWriter do; that net/http delivers the handler's output unchanged"
	r.Trusted = trustedRequestPath
	rt, ok := requestTableGuards(ctx, r)
	if !ok {
		return r
	}
	r.rule("R11.1", "passthrough path: nothing but one ServeHTTP(w, r) on the captured handler", 1)
	r.rule("R11.2", "handler-free paths ⇔ OPTIONS ∧ found(Origin) ∧ found(ACRM) on a configured middleware; all others call the handler exactly once, last, with the closure's own arguments", 100)
	r.rule("R11.3", "on handler paths the response is touched only by Vary:add and ACAO/ACAC/ACEH set/assign, before the handler runs; no status is written", 10)
	r.rule("R11.4", "on preflight paths exactly one WriteHeader, as the last effect", 100)
	nPass := 0
	for _, rp := range rt.Paths {
		desc := rp.Describe()
		serveOK := func() (bool, string) {
			if len(rp.Serves) != 1 {
				return false, fmt.Sprintf("%d handler calls", len(rp.Serves))
			}
			s := rp.Serves[0]
			if len(s.Args) != 3 || s.Args[0].Key() != "*cap:h" || s.Args[1].Op != "param" || s.Args[2].Op != "param" ||
				s.Args[1].Key() != "param:"+rt.Closure.Params[0].Name() || s.Args[2].Key() != "param:"+rt.Closure.Params[1].Name() {
				return false, "handler not called as h.ServeHTTP(w, r) with the closure's own values: " + s.String()
			}
			// last effect (ignoring inlined-function markers)
			last := len(rp.Effects) - 1
			for last >= 0 && rp.Effects[last].Kind == "enter" {
				last--
			}
			if rp.ServeEff[0] != last {
				return false, "the handler call is not the last effect: followed by " + rp.Effects[last].String()
			}
			return true, ""
		}
		if rp.Is(aPass) {
			nPass++
			good, detail := serveOK()
			if len(rp.Writes) > 0 || rp.NStatus > 0 {
				good, detail = false, "passthrough path touches the response"
			}
			r.check(good, "R11.1", desc, "", detail, 1)
			continue
		}
		if isPreflightAtoms(rp) {
			good := len(rp.Serves) == 0
			r.check(good, "R11.2", desc, "", "wrapped handler invoked for a CORS-preflight request", 1)
			last := len(rp.Effects) - 1
			for last >= 0 && rp.Effects[last].Kind == "enter" {
				last--
			}
			good = rp.NStatus == 1 && rp.StatusEff == last
			detail := fmt.Sprintf("%d WriteHeader calls", rp.NStatus)
			if rp.NStatus == 1 && rp.StatusEff != last {
				detail = "WriteHeader is followed by " + rp.Effects[last].String()
			}
			r.check(good, "R11.4", desc, "", detail, 1)
			continue
		}
		good, detail := serveOK()
		if good && !(rp.Not(aOPTIONS) || rp.Not(aFoundO) || rp.Not(aFoundACRM)) {
			// the converse: a path that hands the request on has established
			// that it is not a preflight
			good, detail = false, "the wrapped handler is invoked on a path that has not established that the request is not a CORS-preflight request (method other than OPTIONS, no Origin, or no Access-Control-Request-Method)"
		}
		r.check(good, "R11.2", desc, "", detail, 1)
		good, detail = rp.NStatus == 0, "status written on a path that reaches the wrapped handler"
		for _, w := range rp.Writes {
			switch {
			case w.Key == hVary && (w.Op == "add" || w.Op == "append"):
			case (w.Key == hACAO || w.Key == hACAC || w.Key == hACEH) && (w.Op == "set" || w.Op == "assign"):
			default:
				good, detail = false, "response header operation outside the documented set: "+w.String()
			}
			if len(rp.ServeEff) == 1 && w.Eff > rp.ServeEff[0] {
				good, detail = false, "response header written after the handler ran: "+w.String()
			}
		}
		r.check(good, "R11.3", desc, "", detail, 1)
	}
	if nPass != 1 {
		r.undecided("R11.1", "passthrough-path", fmt.Sprintf("%d passthrough paths, expected 1", nPass))
	}
	// R11.5: which middlewares are passthrough. The zero value's pointer is
	// nil by the language; Reconfigure must publish exactly what the builder
	// returns for its argument (and the builder returns a nil configuration
	// for a nil Config: R8.3), so that Reconfigure(nil) always leads to the
	// passthrough path of R11.1.
	r.rule("R11.5", "a Reconfigure that returns nil has stored, as the configuration pointer, the builder's result for its own argument (with R8.3: Reconfigure(nil) ⇒ pointer nil ⇒ passthrough path)", 1)
	r.rule("R8.3", "builder: (nil, nil) for a nil Config; non-nil configuration with a nil error; nil configuration with an error", 1)
	builderRule(ctx, r, "R8.3")
	if t, ok := mwGuards(ctx, r); ok {
		val := ctx.Validation()
		rc := ctx.P.Func(pkgRoot, "(*Middleware).Reconfigure")
		var mf *MwFunc
		if rc != nil {
			mf = t.Funcs[funcName(rc)]
		}
		if rc == nil || mf == nil || val.Builder == nil || len(rc.Params) != 2 {
			r.undecided("R11.5", "Reconfigure", "anchor not found")
		} else {
			bname := funcName(val.Builder)
			nSucc := 0
			for _, mp := range mf.Paths {
				if mp.Path.End != "return" || len(mp.Rets) != 1 {
					continue
				}
				var bc *Term
				ptrStore := -1
				for i, e := range mp.Events {
					if e.Kind == "call" && e.Eff.Name == bname {
						bc = e.Eff.Res
					}
					if e.Kind == "store" && e.Field == t.PtrFld {
						ptrStore = i
					}
				}
				// a path that reports success: the result is nil
				succ := mp.Rets[0].IsConst("nil") || (bc != nil && mp.Rets[0].Key() == bc.Key()+"#1" && mp.Val("bin:==("+bc.Key()+"#1, nil)") == 1)
				if !succ {
					if ptrStore >= 0 {
						r.fail("R11.5", mp.describe(), "", "Reconfigure replaces the configuration on a path that reports an error")
					}
					continue
				}
				nSucc++
				good, detail := true, ""
				switch {
				case bc == nil && ptrStore >= 0 && mp.Val("bin:==(param:"+rc.Params[1].Name()+", nil)") == 1 && mp.Events[ptrStore].Val.IsConst("nil") &&
					mp.Events[ptrStore].Base == "param:"+rc.Params[0].Name():
					// Reconfigure(nil) decided by the method itself
				case bc == nil || len(bc.Args) != 1 || bc.Args[0].Key() != "param:"+rc.Params[1].Name() && !isCopyOfParam(rc, bc.Args[0], rc.Params[1]):
					good, detail = false, "a successful Reconfigure does not build the configuration from its own argument"
				case ptrStore < 0:
					good, detail = false, "Reconfigure returns nil without storing the configuration pointer: Reconfigure(nil) can leave the middleware configured"
				case mp.Events[ptrStore].Val.Key() != bc.Key()+"#0":
					good, detail = false, "the pointer stored is not the builder's result: "+mp.Events[ptrStore].Val.Key()
				case mp.Events[ptrStore].Base != "param:"+rc.Params[0].Name():
					good, detail = false, "the pointer is stored in another Middleware"
				}
				r.check(good, "R11.5", mp.describe(), "", detail, 1)
			}
			if nSucc == 0 {
				r.undecided("R11.5", "Reconfigure", "no path of Reconfigure reports success")
			}
		}
	}
	wrapReturnsClosure(ctx, r, "R11.6")
	checkFirst(ctx, r)
	r.RuleDocs["R3.1"] = "headers.First: found ⇔ key present with at least one value; returns v[0], v[:1] of that lookup"
	r.sample(map[string]any{"closure": funcName(rt.Closure), "paths": len(rt.Paths), "preflight_predicate": []string{aOPTIONS, aFoundO, aFoundACRM}})
	// "reaches the wrapped handler exactly once": the request is not stuck on
	// the middleware's lock on the way
	r.share(checkC07(ctx), map[string]string{
		"R7.2": "every lock acquired by Reconfigure, SetDebug, Config and the request closure is released on every path (a later request is not blocked for ever)",
		"R7.4": "no interface/dynamic call and no call into module code while the lock is held",
	}, nil)
	return r
}

// isCopyOfParam: t is a local allocated in fn whose only store is `*t = *p`
// (a private shallow copy of what the pointer parameter p points to) and
// which is otherwise only read or passed on.
func isCopyOfParam(fn *ssa.Function, t *Term, p *ssa.Parameter) bool {
	if t == nil || t.Op != "alloc" {
		return false
	}
	var al *ssa.Alloc
	for _, b := range fn.Blocks {
		for _, ins := range b.Instrs {
			if a, ok := ins.(*ssa.Alloc); ok && strings.HasPrefix(t.Name, fn.Name()+"."+a.Name()+"/") {
				al = a
			}
		}
	}
	if al == nil || al.Referrers() == nil {
		return false
	}
	stores := 0
	for _, ref := range *al.Referrers() {
		st, ok := ref.(*ssa.Store)
		if !ok || st.Addr != al {
			continue
		}
		stores++
		u, ok := st.Val.(*ssa.UnOp)
		if !ok || u.Op != token.MUL || u.X != p {
			return false
		}
	}
	return stores == 1
}

func checkC16(ctx *Ctx) *Result {
	r := newResult("C16")
	r.Explanation = "Decided for every preflight request and configuration with debug mode off: on each preflight path consistent with ¬debug, either the status is the configured success status and every value written to the response has a provenance in {constant *, true, *,authorization; this request's own Origin / ACRM / ACRH values; the configured max-age (for Access-Control-Max-Age only); the Vary constant}, or the status is one constant shared by all failing paths and no Access-Control-* header is written at all (the local buffer reaches the response only through the copy on the success path)."
	r.NotDecided = "nothing structural; header-map semantics of net/http are axioms"
	r.Trusted = trustedRequestPath
	rt, ok := requestTableGuards(ctx, r)
	if !ok {
		return r
	}
	r.rule("R16.1", "debug off: failing preflights write no Access-Control-* header and share one constant status", 50)
	r.rule("R16.2", "debug off: successful preflights name only *, true, *,authorization, request-supplied tokens and the configured max-age", 50)
	r.rule("R16.4", "debug off: the success status goes only to preflights on which no step has its documented reason to fail (every refusal is the bare failing status, whatever the reason)", 20)
	// "debug mode off" is the state SetDebug(false), creation and Reconfigure(nil) leave behind
	r.share(checkC09(ctx), map[string]string{
		"R9.1": "invariant debug ⇒ configuration pointer ≠ nil is preserved by every path of every writer",
		"R9.2": "documented transitions of creation, SetDebug, Reconfigure(nil / non-nil / invalid): SetDebug(false) turns debug mode off",
	}, nil)
	failStatus := map[string]int{}
	for _, rp := range rt.Paths {
		// a preflight answered by the middleware, with or without a status of its own
		if !(isPreflightPath(rp) || isPreflightAtoms(rp) && len(rp.Serves) == 0) || rp.Is(aDebug) {
			continue
		}
		desc := rp.Describe()
		if rp.NStatus == 0 {
			failStatus["(none written: the implicit 200)"]++
			r.check(false, "R16.1", desc, "", "a preflight is answered without writing a status: it goes out with the implicit 200, unlike the other failing preflights", 1)
			continue
		}
		if rp.StatusTag != successStatusTag {
			failStatus[rp.StatusTag]++
			var ac []string
			for _, w := range rp.Writes {
				if acHeader(w.Key) {
					ac = append(ac, w.String())
				}
			}
			good := len(ac) == 0 && strings.HasPrefix(rp.StatusTag, "const(")
			detail := ""
			if len(ac) > 0 {
				detail = "failing preflight with debug off discloses " + strings.Join(ac, "; ")
			} else if !good {
				detail = "failing status is not a constant: " + rp.StatusTag
			}
			r.check(good, "R16.1", desc, "", detail, 1)
			continue
		}
		// R16.4: the success status is itself a verdict — it goes only to a
		// preflight none of whose steps has its documented reason to fail
		{
			why := ""
			switch {
			case rp.Is(aPNTrue) && rp.Not(aPNA) && rp.Not(aPNANoCors):
				why = "private-network access asked for but not enabled"
			case rp.Not(aSafe) && rp.Not(aAnyMethod) && rp.Not(aListed):
				why = "the method is neither safelisted nor allowed"
			case rp.Is(aACRH) && rp.Not(aAsterisk) && (rp.Is(aNoHdrs) || rp.Not(aCheck)):
				why = "a requested header name is not allowed"
			case !(rp.Is(aParseOK) && (rp.Is(aContains) || allowAllPath(ctx, rp))):
				why = "the origin is not established as allowed"
			}
			r.check(why == "", "R16.4", desc, "", "a debug-off preflight is answered with the success status although "+why+": the refusal is not the bare failing status", 1)
		}
		good, detail := true, ""
		for _, w := range rp.Writes {
			c, isConst := ctx.tagContent(w.Tag)
			switch {
			case w.Key == hVary:
				// the Vary constant (possibly appended to what was there)
				if !(strings.HasPrefix(w.Tag, "const(") || strings.HasPrefix(w.Tag, "global(") || strings.HasPrefix(w.Tag, "append(old(Vary), const(")) {
					good, detail = false, "Vary carries "+w.Tag
				}
			case isConst:
				for _, v := range c {
					if v != "*" && v != "true" && v != "*,authorization" {
						good, detail = false, fmt.Sprintf("%s discloses the constant %q", w.Key, v)
					}
					// the documented case: `*` listed, Authorization listed, no credentials
					if v == "*,authorization" && !(rp.Is(aAsterisk) && rp.Is(aAllowAuth) && rp.Not(aCred)) {
						good, detail = false, "`*,authorization` is sent outside the documented case (wildcard and Authorization listed, no credentialed access): it names a configured token the request did not supply"
					}
				}
			case w.Tag == "hdr1(Origin)" || w.Tag == "hdr1("+hACRM+")" || w.Tag == "hdrs("+hACRH+")":
			case w.Tag == "cfg.acma" && w.Key == hACMA:
			default:
				good, detail = false, w.Key+" carries a configuration-derived value: "+w.Tag
			}
		}
		r.check(good, "R16.2", desc, "", detail, 1)
	}
	r.check(len(failStatus) == 1, "R16.1", "one failing status", "", fmt.Sprintf("failing debug-off preflights use %d different statuses: %v", len(failStatus), failStatus), len(failStatus))
	// which requests are preflights at all: the dispatch predicate (shared with C11)
	r.rule("R11.2", "handler-free paths ⇔ OPTIONS ∧ found(Origin) ∧ found(ACRM) on a configured middleware (what this property calls a preflight is what the middleware answers itself)", 100)
	for _, o := range checkC11(ctx).Obls {
		if o.Rule == "R11.2" {
			r.Obls = append(r.Obls, o)
		}
	}
	// ... and on what "found" means
	checkFirst(ctx, r)
	r.RuleDocs["R3.1"] = "headers.First: found ⇔ key present with at least one value; returns v[0], v[:1] of that lookup (a preflight with an empty Access-Control-Request-Method value is still a preflight)"
	// R16.3: the private-network answer is given only to a request that asked
	r.rule("R16.3", "Access-Control-Allow-Private-Network is written only on paths where the request's Access-Control-Request-Private-Network value is `true`", 5)
	nPNA := 0
	for _, rp := range rt.Paths {
		if len(rp.WritesTo(hACAPN)) == 0 {
			continue
		}
		nPNA++
		r.check(rp.Is(aPNTrue), "R16.3", rp.Describe(), "", "Access-Control-Allow-Private-Network is sent although the request did not carry Access-Control-Request-Private-Network: true", 1)
	}
	r.sample(map[string]any{"failing_status": failStatus})
	return r
}
