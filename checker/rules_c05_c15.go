package main

import (
	"fmt"
	"go/token"
	"go/types"
	"strings"

	"golang.org/x/tools/go/ssa"
)

func init() {
	registry["C05"] = checkC05
	registry["C15"] = checkC15
}

var errVocab = map[string]map[string][]string{
	"UnacceptableOriginPatternError": {"Reason": {"missing", "invalid", "prohibited"}},
	"UnacceptableMethodError":        {"Reason": {"invalid", "forbidden"}},
	"UnacceptableHeaderNameError":    {"Type": {"request", "response"}, "Reason": {"invalid", "prohibited", "forbidden"}},
	"IncompatibleOriginPatternError": {"Reason": {"credentialed", "pna", "psl"}},
}

func checkC05(ctx *Ctx) *Result {
	r := newResult("C05")
	r.Explanation = "Decided for every Config value: (R5.1) the per-element decision table of every list validator equals the documented table in both directions — under every valuation of the documented predicates the multiset of constructed errors (type, Reason/Type constants, provenance of Value = the element as supplied) is exactly the documented one, permitted elements construct nothing and are recorded; the integer validators reject exactly the documented values with the documented bounds in the error; (R5.2) the only error values the module can return are pointers to exported cfgerrors types and errors.Join of them, with Reason/Type drawn from the documented vocabularies; (R5.4) every Error() method returns a message that starts with `cors: `; (R5.5/R4.1) no validator returns from inside its loop, the builder consults every validator and joins every detected violation, and returns the freshly built configuration when none was detected."
	r.NotDecided = "which strings origins.ParsePattern rejects (C13); the decision tables take its verdict as a predicate"
	r.Trusted = trustedValidation
	vf := validationCore(ctx, r, false)
	if len(vf.Problems) > 0 {
		return r
	}
	val := ctx.Validation()
	r.rule("R4.1", "error discipline (L0) in validators and builder; no early exit; every validator consulted", 12)
	r.rule("R5.1", "decision-table equality: constructed errors = documented errors on every per-element path, under every valuation; accepted elements recorded", 60)
	r.rule("R4.3", "integer validators: exact accepted sets, outputs and error fields", 2)
	r.rule("R5.2", "closed error universe: only *cfgerrors.T and errors.Join reach an error result; Reason/Type constants from the documented vocabularies", 20)
	r.rule("R5.4", "every Error() method of cfgerrors returns a message starting with `cors: `", 8)
	r.rule("R4.7", "publication on error-free exits", 8)
	// the methods oracle accepts Value = Normalize(element) for a forbidden
	// method because Normalize is the identity outside the browser-normalised
	// set; that is a fact about Normalize's structure, decided here
	r.rule("R2.2", "normalisation tables: browser-normalised methods and safelisted methods are exactly Fetch's; Normalize upper-cases exactly those (so a reported forbidden method is spelled as supplied)", 3)
	normalisationTables(ctx, r, "R2.2")
	for _, f := range sortedKeys(val.Lists) {
		t := val.Lists[f]
		l0(ctx, r, "R4.1", t)
		entryRule(ctx, r, "R5.1", t)
		exitStores(ctx, r, "R4.7", t)
	}
	builderRule(ctx, r, "R4.1")
	reportMismatches(r, "R5.1", val, vf, func(m mismatch) bool { return true }, "decision table differs from the documentation")
	intRule(ctx, r, "R4.3")
	closedErrorUniverse(ctx, r, "R5.2")
	errorMessages(ctx, r, "R5.4")
	r.rule("R4.8", "the switches the validators consult are copied from the Config on every path before they run (a violation in one field must not hide violations in another)", 1)
	builderPlumbing(ctx, r, "R4.8")
	// "for each violation, an error": the predicates that decide whether a
	// pattern is insecure or a public suffix must not miss a case
	r.rule("R4.6", "pattern predicates: IsDeemedInsecure and HostIsEffectiveTLD compute the documented truth tables (trailing dot trimmed before the look-up and the comparison)", 2)
	patternPredicates(ctx, r, "R4.6")
	r.rule("R4.4", "deny tables: the forbidden / prohibited / safelisted name predicates are exactly the documented tables and prefixes (a wider predicate reports an error for a permitted name)", 3)
	denyTables(ctx, r, "R4.4")
	// "a Config assembled only from documented-permitted settings is accepted":
	// the pattern parser rejects nothing the documentation permits
	r.share(checkC13(ctx), map[string]string{
		"R13.1":  "documented limits are the constants in use; the lexers' loops are bounded by them (a scheme, host or port of the documented maximal length is still accepted)",
		"R13.4":  "every accepting path of ParsePattern has passed each documented guard (a defective pattern is a violation that must be reported)",
		"R13.10": "every rejecting path of ParsePattern is decided by one of the documented defects",
		"R13.3":  "every rejection of ParsePattern is an UnacceptableOriginPatternError naming the pattern as supplied, with the documented Reason of the defect that decided it",
		"R13.7":  "the host lexer's steps are the documented grammar's (label bytes, separators, the IPv4 assumption, lengths): a host outside it is a violation that must be reported, one inside it is accepted",
		"R13.8":  "the IDNA profile used for domain hosts is idna.New(BidiRule, ValidateLabels(true), StrictDomainName(true), VerifyDNSLength(true))",
	}, nil)
	// "traversed with cfgerrors.All, consists solely of non-nil pointers to the
	// exported types … one per violation": the traversal itself
	r.share(checkC19x(ctx, false), map[string]string{
		"R19.1": "yield typestate: each yield is a branch condition; after `false` the literal exits without another yield/loop head/recursive call",
		"R19.2": "yield arguments and multiplicity: leaf yielded once outside loops; join children flattened by one range over Unwrap() × one range over All(child), one yield per element (no join is yielded in place of its leaves)",
	}, nil)
	// the error the caller sees is the builder's: Reconfigure consults it on every path
	r.share(checkC08(ctx), map[string]string{"R7.0": "every function touching the Middleware's state is loop-free and fully summarised; state fields identified by role (mutex, configuration pointer, debug flag)", "R8.1": "Reconfigure: every path calls the builder (or is Reconfigure(nil)); the rejecting path returns the builder's error and nothing is stored unless that error is nil"}, nil)
	return r
}

// closedErrorUniverse: R5.2.
func closedErrorUniverse(ctx *Ctx, r *Result, rule string) {
	p := ctx.P
	errT := types.Universe.Lookup("error").Type()
	for _, fn := range p.Funcs {
		if fn.Pkg != nil && fn.Pkg.Pkg.Path() == pkgErrs && fn.Name() == "All" {
			continue
		}
		// conversions to error
		for _, b := range fn.Blocks {
			for _, ins := range b.Instrs {
				switch x := ins.(type) {
				case *ssa.MakeInterface:
					if !types.Identical(x.Type(), errT) {
						continue
					}
					ok := false
					if pt, isPtr := x.X.Type().(*types.Pointer); isPtr {
						if n, isNamed := pt.Elem().(*types.Named); isNamed && n.Obj().Pkg() != nil && n.Obj().Pkg().Path() == pkgErrs && n.Obj().Exported() {
							ok = true
						}
					}
					r.check(ok, rule, funcName(fn)+": conversion to error @"+p.Pos(x.Pos()), p.Pos(x.Pos()), "a value of type "+types.TypeString(x.X.Type(), nil)+" becomes an error: not a pointer to an exported cfgerrors type", 1)
				case *ssa.Store:
					// Reason / Type vocabulary
					fa, isFA := x.Addr.(*ssa.FieldAddr)
					if !isFA {
						continue
					}
					pt := fa.X.Type().Underlying().(*types.Pointer)
					n, isNamed := pt.Elem().(*types.Named)
					if !isNamed || n.Obj().Pkg() == nil || n.Obj().Pkg().Path() != pkgErrs {
						continue
					}
					fld := pt.Elem().Underlying().(*types.Struct).Field(fa.Field).Name()
					vocab, has := errVocab[n.Obj().Name()][fld]
					if !has {
						continue
					}
					// the constants the stored value can be (through φ and, for a
					// parameter of an unexported helper, through every call site)
					vals, why := constStrings(p, x.Val, map[ssa.Value]bool{})
					// ... minus those a dominating test excludes (`if reason != "" { … Reason: reason … }`)
					if excl := excludedAt(x.Val, x.Block()); len(excl) > 0 {
						kept := vals[:0:0]
						for _, v := range vals {
							if !excl[v] {
								kept = append(kept, v)
							}
						}
						vals = kept
					}
					good := why == "" && len(vals) > 0
					got := "a non-constant value"
					if why != "" {
						got += " (" + why + ")"
					} else {
						got = strings.Join(vals, " / ")
						for _, g := range vals {
							in := false
							for _, v := range vocab {
								if g == fmt.Sprintf("%q", v) {
									in = true
								}
							}
							good = good && in
						}
					}
					r.check(good, rule, fmt.Sprintf("%s: %s.%s @%s", funcName(fn), n.Obj().Name(), fld, p.Pos(x.Pos())), p.Pos(x.Pos()),
						fmt.Sprintf("%s.%s is assigned %s, not one of the documented values %v", n.Obj().Name(), fld, got, vocab), 1)
				}
			}
		}
		// error results
		res := fn.Signature.Results()
		for i := 0; i < res.Len(); i++ {
			if !types.Identical(res.At(i).Type(), errT) {
				continue
			}
			bad := ""
			n := 0
			for _, b := range fn.Blocks {
				for _, ins := range b.Instrs {
					ret, ok := ins.(*ssa.Return)
					if !ok {
						continue
					}
					n++
					if why := foreignError(p, ret.Results[i], map[ssa.Value]bool{}); why != "" {
						bad = why + " @" + p.Pos(ret.Pos())
					}
				}
			}
			r.check(bad == "", rule, funcName(fn)+": error result", p.Pos(fn.Pos()), "an error that is not a cfgerrors error or a join of them can be returned: "+bad, n)
		}
	}
}

// foreignError explains why v may be an error from outside the closed
// universe ("" if it cannot).
func foreignError(p *Prog, v ssa.Value, seen map[ssa.Value]bool) string {
	if seen[v] {
		return ""
	}
	seen[v] = true
	switch x := v.(type) {
	case *ssa.Const:
		return ""
	case *ssa.MakeInterface:
		return "" // checked at the conversion
	case *ssa.Phi:
		for _, e := range x.Edges {
			if w := foreignError(p, e, seen); w != "" {
				return w
			}
		}
		return ""
	case *ssa.Extract:
		return foreignError(p, x.Tuple, seen)
	case *ssa.Call:
		f := x.Common().StaticCallee()
		if f == nil {
			return "result of a dynamic call"
		}
		if p.InModule(f) {
			return ""
		}
		if funcName(f) == "errors.Join" {
			for _, a := range x.Common().Args {
				if w := foreignJoinOperand(p, a, seen); w != "" {
					return w
				}
			}
			return ""
		}
		return "result of " + funcName(f)
	case *ssa.UnOp:
		// load of a local error variable: what was stored
		if a, ok := x.X.(*ssa.Alloc); ok {
			for _, ref := range *a.Referrers() {
				if st, ok := ref.(*ssa.Store); ok && st.Addr == a {
					if w := foreignError(p, st.Val, seen); w != "" {
						return w
					}
				}
			}
			return ""
		}
	case *ssa.Parameter:
		return viaCallers(p, x, seen, foreignError)
	}
	return "value of unknown origin " + v.Name()
}

// constStrings lists the constants a value can be, following φ-nodes and
// parameters of unexported functions to all their call sites.
func constStrings(p *Prog, v ssa.Value, seen map[ssa.Value]bool) (vals []string, why string) {
	if seen[v] {
		return nil, ""
	}
	seen[v] = true
	switch x := v.(type) {
	case *ssa.Const:
		if x.Value == nil {
			return nil, "zero value"
		}
		return []string{x.Value.ExactString()}, ""
	case *ssa.Phi:
		for _, e := range x.Edges {
			vs, w := constStrings(p, e, seen)
			if w != "" {
				return nil, w
			}
			vals = append(vals, vs...)
		}
		return vals, ""
	case *ssa.Parameter:
		w := viaCallers(p, x, seen, func(p *Prog, a ssa.Value, seen map[ssa.Value]bool) string {
			vs, w := constStrings(p, a, seen)
			vals = append(vals, vs...)
			return w
		})
		return vals, w
	case *ssa.Extract:
		// one result of a module helper: what the helper returns there
		if c, ok := x.Tuple.(*ssa.Call); ok {
			return constResults(p, c, x.Index, seen)
		}
	case *ssa.Call:
		return constResults(p, x, 0, seen)
	}
	return nil, "value of unknown origin " + v.Name()
}

// constResults: the constants a module function can return as its idx-th result.
func constResults(p *Prog, c *ssa.Call, idx int, seen map[ssa.Value]bool) (vals []string, why string) {
	f := c.Common().StaticCallee()
	if f == nil || !p.InModule(f) || len(f.Blocks) == 0 {
		return nil, "result of " + c.Common().Value.Name()
	}
	for _, b := range f.Blocks {
		for _, ins := range b.Instrs {
			if ret, ok := ins.(*ssa.Return); ok && idx < len(ret.Results) {
				vs, w := constStrings(p, ret.Results[idx], seen)
				if w != "" {
					return nil, w
				}
				vals = append(vals, vs...)
			}
		}
	}
	return vals, ""
}

// viaCallers follows a parameter of an unexported module function to the
// actual arguments at all of its call sites.
func viaCallers(p *Prog, par *ssa.Parameter, seen map[ssa.Value]bool, f func(*Prog, ssa.Value, map[ssa.Value]bool) string) string {
	fn := par.Parent()
	if fn.Object() != nil && fn.Object().Exported() {
		return "parameter " + par.Name() + " of exported " + funcName(fn)
	}
	idx := -1
	for i, q := range fn.Params {
		if q == par {
			idx = i
		}
	}
	if p.we == nil {
		p.we = newWE(p)
	}
	sites := p.we.callers[fn]
	if idx < 0 || len(sites) == 0 {
		return "parameter " + par.Name() + " of " + funcName(fn) + " (no call site seen)"
	}
	for _, cs := range sites {
		if idx < len(cs.Call.Common().Args) {
			if w := f(p, cs.Call.Common().Args[idx], seen); w != "" {
				return w
			}
		}
	}
	return ""
}

// foreignJoinOperand looks at the []error passed to errors.Join.
func foreignJoinOperand(p *Prog, v ssa.Value, seen map[ssa.Value]bool) string {
	if seen[v] {
		return ""
	}
	seen[v] = true
	switch x := v.(type) {
	case *ssa.Const:
		return ""
	case *ssa.Phi:
		for _, e := range x.Edges {
			if w := foreignJoinOperand(p, e, seen); w != "" {
				return w
			}
		}
		return ""
	case *ssa.Call:
		if b, ok := x.Common().Value.(*ssa.Builtin); ok && b.Name() == "append" {
			if w := foreignJoinOperand(p, x.Common().Args[0], seen); w != "" {
				return w
			}
			return foreignJoinOperand(p, x.Common().Args[1], seen)
		}
		// a module function returning the list: what it returns
		if f := x.Common().StaticCallee(); f != nil && p.InModule(f) && len(f.Blocks) > 0 {
			for _, b := range f.Blocks {
				for _, ins := range b.Instrs {
					if ret, ok := ins.(*ssa.Return); ok && len(ret.Results) >= 1 {
						if w := foreignJoinOperand(p, ret.Results[0], seen); w != "" {
							return w
						}
					}
				}
			}
			return ""
		}
		return "errors.Join of " + x.Name()
	case *ssa.Slice:
		// slice of a [N]error literal: the stored elements
		if a, ok := x.X.(*ssa.Alloc); ok {
			for _, ref := range *a.Referrers() {
				if ia, ok := ref.(*ssa.IndexAddr); ok {
					for _, r2 := range *ia.Referrers() {
						if st, ok := r2.(*ssa.Store); ok {
							if w := foreignError(p, st.Val, seen); w != "" {
								return w
							}
						}
					}
				}
			}
			return ""
		}
	case *ssa.MakeSlice:
		return ""
	case *ssa.Parameter:
		return viaCallers(p, x, seen, foreignJoinOperand)
	case *ssa.UnOp:
		// a variable captured by a closure lives in a cell: everything ever
		// stored into it, by the function or by the closures that share it
		if x.Op == token.MUL {
			if vals, ok := cellStores(x.X); ok {
				for _, sv := range vals {
					if w := foreignJoinOperand(p, sv, seen); w != "" {
						return w
					}
				}
				return ""
			}
		}
	}
	return "errors.Join of a list of unknown origin"
}

// cellStores returns every value stored into a local variable's cell (an
// Alloc, or the free variable through which a closure shares it); ok is false
// when the cell's address escapes in any other way.
func cellStores(cell ssa.Value) (vals []ssa.Value, ok bool) {
	// resolve a free variable to the cell it is bound to
	for {
		fv, isFV := cell.(*ssa.FreeVar)
		if !isFV {
			break
		}
		fn := fv.Parent()
		idx := -1
		for i, f := range fn.FreeVars {
			if f == fv {
				idx = i
			}
		}
		parent := fn.Parent()
		if idx < 0 || parent == nil {
			return nil, false
		}
		var bound ssa.Value
		for _, b := range parent.Blocks {
			for _, ins := range b.Instrs {
				if mc, isMC := ins.(*ssa.MakeClosure); isMC && mc.Fn == fn && idx < len(mc.Bindings) {
					bound = mc.Bindings[idx]
				}
			}
		}
		if bound == nil {
			return nil, false
		}
		cell = bound
	}
	a, isAlloc := cell.(*ssa.Alloc)
	if !isAlloc {
		return nil, false
	}
	ok = true
	var visit func(addr ssa.Value, refs *[]ssa.Instruction)
	visit = func(addr ssa.Value, refs *[]ssa.Instruction) {
		if refs == nil {
			return
		}
		for _, ref := range *refs {
			switch r := ref.(type) {
			case *ssa.Store:
				if r.Addr == addr {
					vals = append(vals, r.Val)
				} else {
					ok = false // the address itself is stored somewhere
				}
			case *ssa.UnOp, *ssa.DebugRef:
			case *ssa.MakeClosure:
				cf, _ := r.Fn.(*ssa.Function)
				for i, bnd := range r.Bindings {
					if bnd == addr && cf != nil && i < len(cf.FreeVars) {
						visit(cf.FreeVars[i], cf.FreeVars[i].Referrers())
					}
				}
			default:
				ok = false
			}
		}
	}
	visit(a, a.Referrers())
	return vals, ok
}

func errorMessages(ctx *Ctx, r *Result, rule string) {
	p := ctx.P
	sp := p.SPkgs[pkgErrs]
	if sp == nil {
		r.undecided(rule, "cfgerrors", "package not loaded")
		return
	}
	n := 0
	for _, m := range sp.Members {
		tn, ok := m.(*ssa.Type)
		if !ok {
			continue
		}
		ms := p.SSA.MethodSets.MethodSet(types.NewPointer(tn.Type()))
		sel := ms.Lookup(sp.Pkg, "Error")
		if sel == nil {
			continue
		}
		fn := p.SSA.MethodValue(sel)
		if fn == nil || len(fn.Blocks) == 0 {
			continue
		}
		n++
		x := p.NewExec(nil)
		paths := x.Summarize(fn)
		r.Paths += len(paths)
		r.fn(funcName(fn))
		bad := strings.Join(x.Problems, ";")
		for _, pa := range paths {
			if len(pa.Rets) != 1 {
				bad = "unexpected arity"
				continue
			}
			ret := pa.Rets[0]
			msg := ""
			if s, ok := ret.ConstString(); ok {
				msg = s
			} else if ret.Op == "call" && ret.Name == "fmt.Sprintf" && len(ret.Args) >= 1 {
				msg, _ = ret.Args[0].ConstString()
			} else if ret.Op == "bin" && ret.Name == "+" {
				// a concatenation: its leftmost piece
				l := ret
				for l.Op == "bin" && l.Name == "+" && len(l.Args) == 2 {
					l = l.Args[0]
				}
				msg, _ = l.ConstString()
			}
			if !strings.HasPrefix(msg, "cors: ") {
				bad = "a path returns a message that does not start with `cors: `: " + ret.Key()
			}
		}
		r.check(bad == "", rule, funcName(fn), p.Pos(fn.Pos()), bad, len(paths))
	}
	if n < 8 {
		r.undecided(rule, "cfgerrors", fmt.Sprintf("only %d error types with an Error method found", n))
	}
}

// ---- C15 --------------------------------------------------------------

func checkC15(ctx *Ctx) *Result {
	r := newResult("C15")
	r.Explanation = "Decided for every list and every permutation/duplication/case variation of it: each list validator is a single-pass fold whose per-iteration effect is (R15.3, via the decision tables) a function of the element's class only — insertion of the normalised element (Fetch method normalisation / byte-lowercasing) into a canonical container, errors, or nothing for safelisted elements — except for reads of state written by earlier iterations, each of which is classified and shown benign (R15.2): a duplicate-skip guard set only by iterations of the same element class, a guard on an insertion into a container that is never consulted once the read flag is set (checked on the post-loop code or on every reader of the published fields), or a read of a dead local. Flags only ever go from false to true (R15.1); SortedSet.Add inserts only absent elements and re-sorts (R15.4). Hence the fold is commutative and idempotent in everything but the origin tree's shape."
	r.NotDecided = "that the origin tree denotes the same set whatever the insertion order (C01, not decidable here)"
	r.Trusted = trustedValidation
	vf := validationCore(ctx, r, false)
	if len(vf.Problems) > 0 {
		return r
	}
	val := ctx.Validation()
	r.rule("R15.1", "monotone flags: inside validator loops, loop-carried booleans and configuration flags are only ever set to the constant true", 4)
	r.rule("R15.2", "every read, inside a loop body, of state written in that loop is benign (duplicate-skip / masked container / dead local)", 3)
	r.rule("R15.3", "per-element effect depends on the element class only: normalise-before-insert, safelisted elements have no effect (decision-table equality)", 60)
	r.rule("R15.5", "before its loop a validator looks at nothing but whether the list is empty: no entry is treated specially for being first (an early exit there would make the verdict depend on position)", 4)
	r.rule("R15.4", "canonical containers: SortedSet.Add inserts only absent elements and re-sorts", 1)
	r.rule("R4.7", "publication on error-free exits (CI-7: acah is the join of exactly the published set)", 8)
	for _, f := range sortedKeys(val.Lists) {
		t := val.Lists[f]
		monotoneFlags(ctx, r, "R15.1", t)
		carriedReads(ctx, r, "R15.2", t)
		exitStores(ctx, r, "R4.7", t)
		entryRule(ctx, r, "R15.5", t)
	}
	reportMismatches(r, "R15.3", val, vf, func(m mismatch) bool { return true }, "per-element behaviour differs from the documented, order-free table")
	sortedSetAdd(ctx, r, "R15.4")
	// "letter case of header names is irrelevant" includes their validity: the
	// token predicate accepts both cases of every letter (it is exactly tchar)
	r.rule("R4.4", "name predicates: each IsValid is the RFC 9110 token production (httpguts.ValidHeaderFieldName or a byte table equal to tchar) and the deny tables are looked up in the case they are written in", 3)
	denyTables(ctx, r, "R4.4")
	// order independence of the origin list rests on the tree: only its
	// structural necessary conditions are decided (pairing of parallel slices,
	// encoding agreement, insertion and lookup shape)
	treeRules(ctx, r)
	maskedStateRule(ctx, r, "R6.7")
	return r
}

func monotoneFlags(ctx *Ctx, r *Result, rule string, t *ValidatorTable) {
	name := funcName(t.Fn)
	bad := ""
	n := 0
	for _, ip := range t.Iter {
		for f, v := range ip.Stores {
			n++
			if v != "true" {
				bad = fmt.Sprintf("iteration {%s} stores %s := %s (a flag may go back to false or depend on the position)", t.iterDesc(ip), f, v)
			}
		}
		for phi, v := range ip.NextV {
			if phi == t.IdxPhi {
				continue
			}
			n++
			cur := ip.Next[phi]
			if cur == nil {
				continue
			}
			if b, ok := cur.Type.(*types.Basic); ok && b.Kind() == types.Bool || cur.IsConst("true") || cur.IsConst("false") {
				if v != "true" && v != "carried:"+phi {
					bad = fmt.Sprintf("iteration {%s} sets loop-carried %s := %s", t.iterDesc(ip), phi, v)
				}
			}
		}
	}
	r.check(bad == "", rule, name, ctx.P.Pos(t.Fn.Pos()), bad, n+1)
}

// carriedReads classifies every loop-body read of loop-written state.
func carriedReads(ctx *Ctx, r *Result, rule string, t *ValidatorTable) {
	name := funcName(t.Fn)
	// state written in the loop
	written := map[string]bool{}
	for _, ip := range t.Iter {
		for f := range ip.Stores {
			written[strings.TrimPrefix(f, "&")] = true
		}
		for phi, v := range ip.NextV {
			if phi != t.IdxPhi && v != "carried:"+phi {
				written["carried:"+phi] = true
			}
		}
	}
	type read struct {
		what string
		ip   *IterPath
		pos  bool
	}
	var reads []read
	for _, ip := range t.Iter {
		for _, a := range ip.Atoms[ip.PreAt:] {
			g := t.tag(a.T)
			for w := range written {
				if g == w || strings.Contains(g, w+")") || strings.Contains(g, w+",") {
					reads = append(reads, read{w, ip, a.Pos})
				}
			}
		}
	}
	seen := map[string]bool{}
	for _, rd := range reads {
		if seen[rd.what] {
			continue
		}
		seen[rd.what] = true
		why, ok := classifyCarried(ctx, t, rd.what)
		r.check(ok, rule, name+": read of "+rd.what, "", "an iteration's behaviour depends on earlier elements through "+rd.what+": "+why, 1)
		if ok {
			r.sample(map[string]any{"validator": name, "loop_carried_read": rd.what, "benign_because": why})
		}
	}
	if len(reads) == 0 {
		r.ok(rule, name+": no loop-carried read", len(t.Iter), "")
	}
}

func classifyCarried(ctx *Ctx, t *ValidatorTable, what string) (string, bool) {
	elemClass := func(ip *IterPath) string {
		var s []string
		for _, a := range ip.Atoms[ip.PreAt:] {
			g := t.tag(a.T)
			if strings.Contains(g, "carried:") || strings.HasPrefix(g, "cfg.") && mentionsWritten(t, g) {
				continue
			}
			if t.isGuardTag(g) {
				continue
			}
			if !a.Pos {
				g = "!" + g
			}
			s = append(s, g)
		}
		return strings.Join(s, " ∧ ")
	}
	// (ε) dead local: the phi never reaches an effect, a store, a call or a result
	if strings.HasPrefix(what, "carried:") {
		phiKey := t.phiKey(strings.TrimPrefix(what, "carried:"))
		used := false
		for _, pa := range t.All {
			for _, e := range pa.Effects {
				for _, a := range e.Args {
					if a.MentionsKey(phiKey) {
						used = true
					}
				}
			}
			for _, ret := range pa.Rets {
				if ret.MentionsKey(phiKey) {
					used = true
				}
			}
			for n, v := range pa.Next {
				if n != strings.TrimPrefix(what, "carried:") && v.MentionsKey(phiKey) {
					used = true
				}
			}
			if pa.End == "return" {
				for _, a := range pa.Atoms[pa.PreAt:] {
					if a.T.MentionsKey(phiKey) {
						used = true // read after the loop: part of the result
					}
				}
			}
		}
		if !used {
			return "(ε) the value only guards its own update and never reaches a result, a store or a call", true
		}
		return "loop-carried local influences the result", false
	}
	// reads of a configuration flag F written in the loop
	var posPaths, negPaths []*IterPath
	for _, ip := range t.Iter {
		for _, a := range ip.Atoms[ip.PreAt:] {
			if t.tag(a.T) == what {
				if a.Pos {
					posPaths = append(posPaths, ip)
				} else {
					negPaths = append(negPaths, ip)
				}
			}
		}
	}
	// (α) duplicate-skip: F true ⇒ no effect at all; F is only set by iterations of this same element class
	alpha := len(posPaths) > 0
	for _, ip := range posPaths {
		if len(ip.Errs) > 0 || len(ip.Calls) > 0 {
			alpha = false
		}
		for f, v := range ip.Stores {
			if !(f == "&"+what && v == "true") {
				alpha = false
			}
		}
		cls := elemClass(ip)
		for _, other := range t.Iter {
			if other.Stores["&"+what] != "" && elemClass(other) != cls {
				// set by an iteration of another class?
				if !strings.HasPrefix(elemClass(other), cls) && !strings.HasPrefix(cls, elemClass(other)) {
					alpha = false
				}
			}
		}
	}
	if alpha {
		return "(α) duplicate-skip guard: when set, the iteration has no effect, and the flag is set only by iterations of the same element class (whose effects are idempotent)", true
	}
	// (β) the read guards insertions into a container that is masked whenever the flag is finally true
	beta := len(posPaths)+len(negPaths) > 0
	var containers []string
	for _, ip := range append(append([]*IterPath{}, posPaths...), negPaths...) {
		if len(ip.Errs) > 0 {
			beta = false
		}
		for _, c := range ip.Calls {
			if i := strings.Index(c, "(local<"); i >= 0 {
				j := strings.Index(c[i:], ">")
				containers = appendUnique(containers, c[i+1:i+j+1])
			} else {
				beta = false
			}
		}
	}
	// both polarities must agree on everything but the container calls
	for _, p1 := range posPaths {
		for _, p2 := range negPaths {
			if elemClass(p1) == elemClass(p2) {
				if fmt.Sprint(p1.Stores) != fmt.Sprint(p2.Stores) && !onlyFlagDiff(p1, p2) {
					beta = false
				}
			}
		}
	}
	if beta && len(containers) > 0 {
		// alternative 1: exits publish the container only under ¬F
		alt1 := true
		for _, pa := range t.Exit {
			if t.emptyErrsAtom(pa) != 1 {
				continue
			}
			publishes := false
			for _, v := range t.storesOf(pa) {
				for _, c := range containers {
					if strings.Contains(v, c) {
						publishes = true
					}
				}
			}
			if publishes {
				neg := false
				for _, a := range pa.Atoms[pa.PreAt:] {
					if t.tag(a.T) == what && !a.Pos {
						neg = true
					}
				}
				if !neg {
					alt1 = false
				}
			}
		}
		if alt1 {
			return "(β) guards insertions into " + strings.Join(containers, ",") + ", which the post-loop code publishes only when the flag is false", true
		}
		// alternative 2: every reader of the published fields does so only under ¬F
		fields := map[string]bool{}
		for _, pa := range t.Exit {
			for f, v := range t.storesOf(pa) {
				for _, c := range containers {
					if strings.Contains(v, c) {
						fields[strings.TrimPrefix(f, "&cfg.")] = true
					}
				}
			}
		}
		flag := strings.TrimPrefix(what, "cfg.")
		if why := readersMasked(ctx, fields, flag); why == "" {
			return "(β) guards insertions into " + strings.Join(containers, ",") + "; every reader of the fields it is published to (" + strings.Join(sortedKeys(fields), ",") + ") consults them only when " + flag + " is false", true
		} else {
			return "container published regardless of the flag and " + why, false
		}
	}
	return "read is neither a duplicate-skip guard nor a guard on a masked container", false
}

func mentionsWritten(t *ValidatorTable, g string) bool {
	for _, ip := range t.Iter {
		for f := range ip.Stores {
			if strings.Contains(g, strings.TrimPrefix(f, "&")) {
				return true
			}
		}
	}
	return false
}

func onlyFlagDiff(a, b *IterPath) bool {
	for f, v := range a.Stores {
		if b.Stores[f] != v && v != "true" {
			return false
		}
	}
	for f, v := range b.Stores {
		if a.Stores[f] != v && v != "true" {
			return false
		}
	}
	return true
}

// readersMasked: every request path and every path of newConfig that reads
// one of the fields carries the atom ¬cfg.flag. Returns "" if so.
func readersMasked(ctx *Ctx, fields map[string]bool, flag string) string {
	rt := ctx.RequestTable()
	if rt.Closure == nil {
		return "request table unavailable"
	}
	reads := func(name string) bool {
		for f := range fields {
			if strings.Contains(name, "cfg."+f) {
				return true
			}
		}
		return false
	}
	for _, rp := range rt.Paths {
		uses := false
		for n := range rp.A {
			if reads(n) {
				uses = true
			}
		}
		for _, w := range rp.Writes {
			if reads(w.Tag) {
				uses = true
			}
		}
		if uses && !rp.Not("cfg."+flag) {
			return "a request path reads it without having excluded " + flag + ": " + rp.Describe()
		}
	}
	nc := ctx.P.Func(pkgRoot, "newConfig")
	if nc == nil {
		return "newConfig not found"
	}
	x := ctx.P.NewExec(nil)
	for _, pa := range x.Summarize(nc) {
		uses := false
		var check func(t *Term) bool
		check = func(t *Term) bool {
			if f, ok := cfgField(t); ok && fields[f] {
				return true
			}
			return false
		}
		for _, a := range pa.Atoms {
			if a.T.Mentions(check) {
				uses = true
			}
		}
		for _, e := range pa.Effects {
			for _, a := range e.Args {
				if a.Mentions(check) {
					uses = true
				}
			}
		}
		if uses {
			neg := false
			for _, a := range pa.Atoms {
				if f, ok := cfgField(a.T); ok && f == flag && !a.Pos {
					neg = true
				}
			}
			if !neg {
				return "newConfig reads it without having excluded " + flag
			}
		}
	}
	return ""
}

func sortedSetAdd(ctx *Ctx, r *Result, rule string) {
	fn := ctx.P.Func(pkgUtil, "(*SortedSet).Add")
	if fn == nil {
		r.undecided(rule, "(*SortedSet).Add", "anchor not found")
		return
	}
	x := ctx.P.NewExec(nil)
	paths := x.Summarize(fn)
	r.Paths += len(paths)
	r.fn(funcName(fn))
	bad := strings.Join(x.Problems, ";")
	if hasLoop(fn) {
		bad = "Add contains a loop"
	}
	changing := 0
	for _, pa := range paths {
		var storeElems, sortAt = -1, -1
		insertedInPlace := false
		storedKey, sortedKey := "", ""
		for i, e := range pa.Effects {
			if e.Kind == "store" && e.Args[0].Op == "faddr" && e.Args[0].Name == "elems" {
				storeElems = i
				v := e.Args[1]
				storedKey = v.Key()
				switch {
				case v.Op == "append" && len(v.Args) == 2 && v.Args[0].Key() == "param:set.elems" && v.Args[1].Op == "lit" && len(v.Args[1].Args) == 1 && v.Args[1].Args[0].Key() == "param:e":
					// appended; must be sorted afterwards
				case shapeSorted(v, "param:set.elems", nil) && v.Op == "call" && len(v.Args) == 3 && v.Args[2].Op == "lit" && len(v.Args[2].Args) == 1 && v.Args[2].Args[0].Key() == "param:e":
					// inserted at the position a binary search for it returned: sorted by construction
					insertedInPlace = true
				default:
					bad = "elems is not extended by exactly the new element: " + v.Key()
				}
			}
			if e.Kind == "call" && (e.Name == "slices.Sort" || e.Name == "sort.Strings") {
				sortAt = i
				if len(e.Args) == 1 {
					sortedKey = e.Args[0].Key()
				}
			}
		}
		if storeElems >= 0 {
			changing++
			// sorted after being stored (through the field), or the very value
			// that is stored was sorted just before (in a helper, say)
			if sortAt < storeElems && !insertedInPlace && !(sortAt >= 0 && sortedKey == storedKey) {
				bad = "elems is extended without being re-sorted afterwards"
			}
			if !pa.Has("call:slices.BinarySearch(param:set.elems, param:e)#1", false) {
				bad = "insertion is not guarded by absence of the element (binary search)"
			}
		}
	}
	if changing == 0 {
		bad = "no path of Add inserts"
	}
	r.check(bad == "", rule, funcName(fn), ctx.P.Pos(fn.Pos()), bad, len(paths))
	// Set.Add delegates
	if f2 := ctx.P.Func(pkgUtil, "(*Set).Add"); f2 != nil {
		x2 := ctx.P.NewExec(nil)
		ps := x2.Summarize(f2)
		var effs []Effect
		if len(ps) == 1 {
			for _, e := range ps[0].Effects {
				if e.Kind != "enter" { // (markers of inlined forwarding wrappers)
					effs = append(effs, e)
				}
			}
		}
		good := len(ps) == 1 && len(effs) == 1 && effs[0].Name == "(*util.SortedSet).Add"
		r.check(good, rule, funcName(f2)+" delegates to SortedSet.Add", ctx.P.Pos(f2.Pos()), "Set.Add is not a plain delegation", len(ps))
	}
}

// excludedAt: the constants a value cannot equal at block b because a branch
// that dominates b has compared the value with them (v != c taken, or v == c
// not taken).
func excludedAt(v ssa.Value, b *ssa.BasicBlock) map[string]bool {
	out := map[string]bool{}
	for d := b; d != nil && d.Idom() != nil; d = d.Idom() {
		if len(d.Preds) != 1 {
			continue
		}
		pb := d.Preds[0]
		if len(pb.Instrs) == 0 {
			continue
		}
		br, ok := pb.Instrs[len(pb.Instrs)-1].(*ssa.If)
		if !ok {
			continue
		}
		cmp, ok := br.Cond.(*ssa.BinOp)
		if !ok || (cmp.Op != token.NEQ && cmp.Op != token.EQL) {
			continue
		}
		var c *ssa.Const
		switch {
		case cmp.X == v:
			c, _ = cmp.Y.(*ssa.Const)
		case cmp.Y == v:
			c, _ = cmp.X.(*ssa.Const)
		}
		if c == nil || c.Value == nil {
			continue
		}
		onTrue := pb.Succs[0] == d
		if (cmp.Op == token.NEQ && onTrue) || (cmp.Op == token.EQL && !onTrue) {
			out[c.Value.ExactString()] = true
		}
	}
	return out
}
