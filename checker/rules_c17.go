package main

import (
	"bufio"
	"bytes"
	"fmt"
	"go/ast"
	"go/token"
	"go/types"
	"os"
	"os/exec"
	"path/filepath"
	"sort"
	"strconv"
	"strings"

	"golang.org/x/tools/go/ssa"
)

func init() { registry["C17"] = checkC17 }

// compilerUnprovenBounds runs the compiler's prove pass report and returns
// the set of file:line positions (relative) whose bounds checks it could not
// eliminate.
func compilerUnprovenBounds(dir string) (map[string]int, error) {
	cmd := exec.Command("go", "build", "-gcflags=-d=ssa/check_bce/debug=1", "./...")
	cmd.Dir = dir
	cmd.Env = append(os.Environ(), "GOFLAGS=-mod=mod", "GOPROXY=off", "GOSUMDB=off", "GOWORK=off")
	var out bytes.Buffer
	cmd.Stderr = &out
	cmd.Stdout = &out
	if err := cmd.Run(); err != nil {
		return nil, fmt.Errorf("go build -gcflags=-d=ssa/check_bce/debug=1 failed: %v: %s", err, firstLines(out.String(), 4))
	}
	res := map[string]int{}
	sc := bufio.NewScanner(&out)
	sc.Buffer(make([]byte, 1<<20), 1<<20)
	for sc.Scan() {
		m := escRe.FindStringSubmatch(sc.Text())
		if m == nil || !strings.HasPrefix(m[4], "Found Is") {
			continue
		}
		f := m[1]
		if !filepath.IsAbs(f) {
			f = filepath.Join(dir, f)
		}
		rel, err := filepath.Rel(dir, f)
		if err != nil || strings.HasPrefix(rel, "..") {
			continue // standard library
		}
		res[rel+":"+m[2]]++
	}
	return res, nil
}

type boundsResult struct {
	proved, byCompiler, failed int
	failures                   map[string]string // site -> detail
	sites                      map[string]bool
	lemmas                     map[string]int
}

// zbFactsForPath builds the fact base for the prefix of a path that precedes
// effect index ei.
func zbFactsForPath(ctx *Ctx, fn *ssa.Function, pa *Path, all []*Path, nAtoms int, br *boundsResult) *zbCtx {
	z := newZB()
	var diseq []Atom
	for _, a := range pa.Atoms[:nAtoms] {
		if a.T.Op == "bin" && a.T.Name == "==" && !a.Pos && !a.T.Args[0].IsConst(`""`) && !a.T.Args[1].IsConst(`""`) {
			diseq = append(diseq, a)
			// still linearise both sides so that their axioms are registered
			if isIntegerish(a.T.Args[0]) || isIntegerish(a.T.Args[1]) {
				z.lin(a.T.Args[0])
				z.lin(a.T.Args[1])
			}
			continue
		}
		z.addAtom(a)
		// BinarySearch: found ⇒ index < len
		if a.Pos && a.T.Op == "ext" && a.T.Idx == 1 && a.T.Args[0].Op == "call" && a.T.Args[0].Name == "slices.BinarySearch" {
			c := a.T.Args[0]
			idx := z.lin(&Term{Op: "ext", Args: []*Term{c}, Idx: 0})
			z.fact(z.linLen(c.Args[0]).add(idx, -1).add(linConst(1), -1), "BinarySearch found ⇒ index < len")
		}
		// HasPrefix(s, p) ⇒ len(s) ≥ len(p)
		if a.Pos && a.T.Op == "call" && a.T.Name == "strings.HasPrefix" && len(a.T.Args) == 2 {
			z.fact(z.linLen(a.T.Args[0]).add(z.linLen(a.T.Args[1]), -1), "HasPrefix(s, p) ⇒ len(s) ≥ len(p)")
		}
		// preconditioned lemma R17.e: kind == subdomains ⇒ the value starts with "*."
		if a.Pos && a.T.Op == "bin" && a.T.Name == "==" && strings.HasSuffix(a.T.Args[0].Key(), ".Kind") {
			if subs, err := ctx.P.ConstInt(pkgOrigins, "PatternKindSubdomains"); err == nil && a.T.Args[1].IsConst(fmt.Sprint(subs)) {
				base := strings.TrimSuffix(a.T.Args[0].Key(), ".Kind")
				for k, t := range collectValueTerms(pa, base+".Value") {
					_ = k
					z.fact(z.linLen(t).add(linConst(2), -1), "R17.e: kind = subdomains ⇒ len(value) ≥ 2")
					br.lemmas["R17.e kind⇒prefix"]++
				}
			}
		}
	}
	// function preconditions established at the call sites by rules of their own
	switch funcName(fn) {
	case "(util.SortedSet).IndexAfter":
		n := &Term{Op: "param", Name: fn.Params[1].Name()}
		elems := &Term{Op: "field", Name: "elems", Args: []*Term{{Op: "param", Name: fn.Params[0].Name()}}}
		z.fact(z.linLen(elems).add(z.lin(n), -1).add(linConst(1), -1), "R17.c: precondition n < Size")
		z.fact(z.lin(n).add(linConst(1), 1), "R17.c: precondition n ≥ -1")
		br.lemmas["R17.c IndexAfter precondition"]++
	case "(*origins.Tree).Insert":
		v := &Term{Op: "load", Args: []*Term{{Op: "faddr", Name: "Value", Args: []*Term{{Op: "faddr", Name: "HostPattern", Args: []*Term{{Op: "param", Name: fn.Params[1].Name()}}}}}}}
		z.fact(z.linLen(v).add(linConst(1), -1), "R17.d: host pattern non-empty")
		br.lemmas["R17.d non-empty host"]++
	}
	// induction variables of the segment's start header
	for _, f := range inductionFacts(z, fn, pa, all) {
		z.fact(f.l, f.why)
	}
	// register parallel-slice invariant and substring lemma for the atoms seen so far (and later ones lazily)
	z.structural(br)
	// disequalities sharpen bounds
	for _, a := range diseq {
		if !isIntegerish(a.T.Args[0]) && !isIntegerish(a.T.Args[1]) {
			continue
		}
		l, r := z.lin(a.T.Args[0]), z.lin(a.T.Args[1])
		d := l.add(r, -1)
		if z.proveCases(d) {
			z.fact(d.add(linConst(1), -1), a.String()+" with ≥")
		} else if z.proveCases(r.add(l, -1)) {
			z.fact(r.add(l, -1).add(linConst(1), -1), a.String()+" with ≤")
		}
	}
	// IndexByte: the byte found differs from a byte known at position 0 ⇒ index ≥ 1
	for _, a := range pa.Atoms[:nAtoms] {
		if !(a.Pos && a.T.Op == "bin" && a.T.Name == "==" && a.T.Args[0].Op == "index" && a.T.Args[0].Args[1].IsConst("0") && a.T.Args[1].Op == "const") {
			continue
		}
		s := a.T.Args[0].Args[0].Key()
		for k, t := range z.terms {
			if t.Op == "call" && t.Name == "strings.IndexByte" && t.Args[0].Key() == s && t.Args[1].Op == "const" && t.Args[1].Name != a.T.Args[1].Name {
				self := lin{coef: map[string]int64{k: 1}}
				if z.prove(self) {
					z.fact(self.add(linConst(1), -1), "IndexByte finds a byte other than the one at position 0 ⇒ index ≥ 1")
					br.lemmas["IndexByte ≠ first byte"]++
				}
			}
		}
	}
	return z
}

func collectValueTerms(pa *Path, key string) map[string]*Term {
	out := map[string]*Term{}
	visit := func(t *Term) {
		t.Mentions(func(s *Term) bool {
			if s.Key() == key {
				out[key] = s
			}
			return false
		})
	}
	for _, a := range pa.Atoms {
		visit(a.T)
	}
	for _, e := range pa.Effects {
		for _, a := range e.Args {
			visit(a)
		}
	}
	return out
}

// structural adds module invariants for the len-atoms registered so far.
func (z *zbCtx) structural(br *boundsResult) {
	for k, t := range z.terms {
		if t.Op != "len" || len(t.Args) != 1 {
			continue
		}
		for _, pr := range parallelPairs {
			for i := 0; i < 2; i++ {
				suffix := "." + pr[i] + ")"
				if strings.HasSuffix(k, suffix) {
					x := t.Args[0]
					if x.Op == "load" && x.Args[0].Op == "faddr" && x.Args[0].Name == pr[i] && x.Idx == 0 {
						partner := &Term{Op: "load", Args: []*Term{{Op: "faddr", Name: pr[1-i], Args: x.Args[0].Args}}}
						self := lin{coef: map[string]int64{k: 1}}
						pk := mk("len", "builtin.len", partner)
						if _, known := z.terms[pk.Key()]; !known {
							z.terms[pk.Key()] = pk
							z.fact(lin{coef: map[string]int64{pk.Key(): 1}}, "len ≥ 0")
						}
						z.eq(self, lin{coef: map[string]int64{pk.Key(): 1}}, "R1.4: parallel slices have equal length")
						br.lemmas["R1.4 parallel slices"]++
					}
				}
			}
		}
		// fastParseHost returns a substring of its argument
		x := t.Args[0]
		if x.Op == "field" && x.Name == "Value" && x.Args[0].Op == "ext" && x.Args[0].Idx == 0 && x.Args[0].Args[0].Op == "call" && x.Args[0].Args[0].Name == "origins.fastParseHost" {
			arg := x.Args[0].Args[0].Args[0]
			self := lin{coef: map[string]int64{k: 1}}
			z.fact(z.linLen(arg).add(self, -1), "R17.g: fastParseHost returns a substring of its argument")
			br.lemmas["R17.g substring"]++
		}
	}
}

// proveCases proves goal, splitting on at most two min/max atoms.
func (z *zbCtx) proveCases(goal lin) bool {
	if z.prove(goal) {
		return true
	}
	var mins []*Term
	for _, t := range z.terms {
		if t.Op == "min" && len(t.Args) == 2 {
			mins = append(mins, t)
		}
	}
	if len(mins) == 0 || len(mins) > 2 {
		return false
	}
	var rec func(i int) bool
	rec = func(i int) bool {
		if i == len(mins) {
			return z.prove(goal)
		}
		m := mins[i]
		self := lin{coef: map[string]int64{m.Key(): 1}}
		for c := 0; c < 2; c++ {
			saveF, saveW := len(z.facts), len(z.why)
			saveSeen := map[string]bool{}
			for k := range z.seen {
				saveSeen[k] = true
			}
			a, b := z.lin(m.Args[c]), z.lin(m.Args[1-c])
			z.eq(self, a, "case min = operand")
			z.fact(b.add(a, -1), "case: the other operand is not smaller")
			ok := rec(i + 1)
			z.facts, z.why, z.seen = z.facts[:saveF], z.why[:saveW], saveSeen
			if !ok {
				return false
			}
		}
		return true
	}
	return rec(0)
}

type indFact struct {
	l   lin
	why string
}

// inductionFacts derives header invariants for the counters of the loop
// whose header the path segment starts at: a counter that starts at v0 and
// is only ever incremented (decremented) by one stays ≥ v0 (≤ v0); if every
// back edge is taken under the guard counter < B (counter ≥ L) with B (L)
// loop-invariant and v0 ≤ B (v0 ≥ L-1) holds on entry, then counter ≤ B
// (counter ≥ L-1) at the header.
func inductionFacts(z *zbCtx, fn *ssa.Function, pa *Path, all []*Path) []indFact {
	var out []indFact
	hdrs := map[string]bool{}
	for _, a := range pa.Atoms {
		a.T.Mentions(func(s *Term) bool {
			if s.Op == "loopphi" {
				if i := strings.LastIndex(s.Name, "@"); i >= 0 {
					hdrs[s.Name[i+1:]] = true
				}
			}
			return false
		})
	}
	if strings.HasPrefix(pa.Start, "hdr") {
		hdrs[pa.Start] = true
	}
	for _, e := range pa.Effects {
		for _, a := range e.Args {
			a.Mentions(func(s *Term) bool {
				if s.Op == "loopphi" {
					if i := strings.LastIndex(s.Name, "@"); i >= 0 {
						hdrs[s.Name[i+1:]] = true
					}
				}
				return false
			})
		}
	}
	for hdr := range hdrs {
		// phis of this header
		names := map[string]bool{}
		for _, q := range all {
			if q.End == hdr {
				for n := range q.Next {
					names[n] = true
				}
			}
		}
		for name := range names {
			phiKey := "loopphi:" + name + "@" + hdr
			phi := lin{coef: map[string]int64{phiKey: 1}}
			var inits []*Term
			var entryPaths []*Path
			dir := int64(0)
			okShape := true
			var backs []*Path
			// the arrival that seeded the segment chain of this path at hdr
			var seed *Path
			family := -1 // the header segments started from the same arrival state
			for q := pa; q != nil; q = q.PrePath {
				if q.Start == hdr {
					seed = q.PrePath
					family = q.Pre
					break
				}
			}
			if seed == nil || seed.Next[name] == nil {
				continue
			}
			inits = append(inits, seed.Next[name])
			entryPaths = append(entryPaths, seed)
			for _, q := range all {
				if q.End != hdr || !q.Back {
					continue
				}
				if family >= 0 && q.Start == hdr && q.Pre != family {
					continue // a back edge of another arrival state's iterations
				}
				v := q.Next[name]
				if v == nil {
					okShape = false
					continue
				}
				backs = append(backs, q)
				switch {
				case v.Key() == phiKey:
				case v.Op == "bin" && v.Name == "+" && v.Args[0].Key() == phiKey && v.Args[1].IsConst("1"):
					if dir == -1 {
						okShape = false
					}
					dir = 1
				case v.Op == "bin" && v.Name == "-" && v.Args[0].Key() == phiKey && v.Args[1].IsConst("1"):
					if dir == 1 {
						okShape = false
					}
					dir = -1
				default:
					okShape = false
				}
			}
			if !okShape || dir == 0 || len(inits) == 0 {
				continue
			}
			if !isIntegerish(inits[0]) {
				continue
			}
			for _, v0 := range inits {
				_ = v0
			}
			// monotonicity: only sound with a single initial value term (or all equal)
			same := true
			for _, v0 := range inits[1:] {
				if v0.Key() != inits[0].Key() {
					same = false
				}
			}
			if !same {
				continue
			}
			init := z.lin(inits[0])
			if dir == 1 {
				out = append(out, indFact{phi.add(init, -1), "induction: " + name + " only increases from its initial value"})
			} else {
				out = append(out, indFact{init.add(phi, -1), "induction: " + name + " only decreases from its initial value"})
			}
			// guard-derived bound: every back path carries a guard that bounds the
			// counter before it is stepped:
			//   inc:  phi < B  (or phi+1 < B)  ⇒ header invariant phi ≤ B
			//         !(B < phi)               ⇒ header invariant phi ≤ B+1
			//   dec:  !(phi < L)               ⇒ header invariant phi ≥ L-1
			//         C < phi                  ⇒ header invariant phi ≥ C
			var bound *Term
			slack := int64(0)
			boundOK := len(backs) > 0
			for _, q := range backs {
				found := false
				take := func(b *Term, k int64) {
					if bound == nil || (bound.Key() == b.Key() && slack == k) {
						bound, slack, found = b, k, true
					}
				}
				for _, a := range q.Atoms[q.PreAt:] {
					t := a.T
					if t.Op != "bin" || t.Name != "<" {
						continue
					}
					l, r := t.Args[0], t.Args[1]
					isPhi1 := func(x *Term) bool {
						return x.Op == "bin" && x.Name == "+" && x.Args[0].Key() == phiKey && x.Args[1].IsConst("1")
					}
					switch {
					case dir == 1 && a.Pos && (l.Key() == phiKey || isPhi1(l)):
						take(r, 0)
					case dir == 1 && !a.Pos && r.Key() == phiKey:
						take(l, 1)
					case dir == -1 && !a.Pos && l.Key() == phiKey:
						take(r, 1)
					case dir == -1 && a.Pos && r.Key() == phiKey:
						take(l, 0)
					}
				}
				if !found {
					boundOK = false
				}
			}
			if !boundOK || bound == nil || bound.Mentions(func(s *Term) bool { return s.Op == "loopphi" && strings.HasSuffix(s.Name, "@"+hdr) }) {
				continue
			}
			// the initial value must satisfy the bound on every entry path
			initOK := true
			for _, ep := range entryPaths {
				ze := newZB()
				for _, a := range ep.Atoms {
					if a.T.Op == "bin" && a.T.Name == "==" && !a.Pos && !a.T.Args[0].IsConst(`""`) && !a.T.Args[1].IsConst(`""`) {
						l, r := ze.lin(a.T.Args[0]), ze.lin(a.T.Args[1])
						if isIntegerish(a.T.Args[0]) || isIntegerish(a.T.Args[1]) {
							d := l.add(r, -1)
							if ze.proveCases(d) {
								ze.fact(d.add(linConst(1), -1), "≠ with ≥")
							}
						}
						continue
					}
					ze.addAtom(a)
				}
				b := ze.lin(bound)
				i0 := ze.lin(inits[0])
				var goal lin
				if dir == 1 {
					goal = b.add(i0, -1).add(linConst(slack), 1) // init ≤ B + slack
				} else {
					goal = i0.add(b, -1).add(linConst(slack), 1) // init ≥ L − slack
				}
				if !ze.proveCases(goal) {
					initOK = false
				}
			}
			if !initOK {
				continue
			}
			b := z.lin(bound)
			if dir == 1 {
				out = append(out, indFact{b.add(phi, -1).add(linConst(slack), 1), "induction: " + name + " ≤ loop bound at the header"})
			} else {
				out = append(out, indFact{phi.add(b, -1).add(linConst(slack), 1), "induction: " + name + " ≥ lower bound at the header"})
			}
		}
	}
	return out
}

// ssaAffine peels additions and subtractions of integer constants.
func ssaAffine(v ssa.Value) (ssa.Value, int64) {
	off := int64(0)
	for {
		b, ok := v.(*ssa.BinOp)
		if !ok || (b.Op != token.ADD && b.Op != token.SUB) {
			return v, off
		}
		c, ok := b.Y.(*ssa.Const)
		if !ok || c.Value == nil {
			return v, off
		}
		if b.Op == token.ADD {
			off += c.Int64()
		} else {
			off -= c.Int64()
		}
		v = b.X
	}
}

// boundsOf checks every bounds event on every path of fn.
func boundsOf(ctx *Ctx, fn *ssa.Function, unproven map[string]int, br *boundsResult) int {
	x := ctx.P.NewExec(boundsPolicy(ctx.P))
	x.TraceBounds = true
	paths := x.Summarize(fn)
	n := 0
	for _, pa := range paths {
		for _, e := range pa.Effects[pa.PreEff:] {
			if e.Kind != "bounds" {
				continue
			}
			n++
			site := fmt.Sprintf("%s: %s %s @%s", e.Fn, e.Name, boundsExpr(e), e.At)
			br.sites[site] = true
			if _, bad := br.failures[site]; bad {
				continue
			}
			z := zbFactsForPath(ctx, fn, pa, paths, e.NAtoms, br)
			var goals []lin
			var names []string
			base := e.Args[0]
			length := boundsLen(z, base)
			switch e.Name {
			case "index":
				idx := z.lin(e.Args[1])
				goals = append(goals, idx, length.add(idx, -1).add(linConst(1), -1))
				names = append(names, "index ≥ 0", "index < len")
			case "slice", "libslice":
				lo := linConst(0)
				if !e.Args[1].IsConst("_") {
					lo = z.lin(e.Args[1])
					goals = append(goals, lo)
					names = append(names, "low ≥ 0")
				}
				hi := length
				if !e.Args[2].IsConst("_") {
					hi = z.lin(e.Args[2])
					// for slices the upper limit is the capacity; len is a safe lower bound of it
					goals = append(goals, length.add(hi, -1))
					names = append(names, "high ≤ len")
				}
				goals = append(goals, hi.add(lo, -1))
				names = append(names, "low ≤ high")
			}
			z.structural(br)
			failed := ""
			for i, g := range goals {
				if !z.proveCases(g) {
					failed = names[i]
					break
				}
			}
			if failed == "" {
				br.proved++
				continue
			}
			// (a check inside a library function is not on the compiler's list for this line)
			if e.Pos.IsValid() && e.Name != "libslice" {
				pos := ctx.P.Fset.Position(e.Pos)
				rel, _ := filepath.Rel(ctx.P.Dir, pos.Filename)
				if unproven[fmt.Sprintf("%s:%d", rel, pos.Line)] == 0 {
					br.byCompiler++
					continue // the compiler's prove pass eliminated every bounds check on this line
				}
			}
			br.failed++
			var fs []string
			for i, f := range z.facts {
				if i < 14 {
					fs = append(fs, z.why[i])
				}
				_ = f
			}
			br.failures[site] = fmt.Sprintf("cannot establish `%s` on path {%s}; facts: %s", failed, radixShort(pa), strings.Join(fs, "; "))
		}
	}
	return n
}

// boundsPolicy: like the default policy, but the node-level operations of the
// origin tree are analysed on their own (with the structural invariants of
// the node type) instead of being inlined into Insert/Contains.
func boundsPolicy(p *Prog) func(*ssa.Function) Policy {
	return func(fn *ssa.Function) Policy {
		switch funcName(fn) {
		case "(*origins.node).contains":
			return PolPure
		case "(*origins.node).add", "(*origins.node).upsertEdge", "(*origins.node).elems":
			return PolEffect
		}
		return p.DefaultPolicy(fn)
	}
}

func boundsExpr(e Effect) string {
	short := func(t *Term) string {
		k := t.Key()
		if len(k) > 60 {
			k = k[:60] + "…"
		}
		return k
	}
	if e.Name == "index" {
		return short(e.Args[0]) + "[" + short(e.Args[1]) + "]"
	}
	return short(e.Args[0]) + "[" + short(e.Args[1]) + ":" + short(e.Args[2]) + "]"
}

func boundsLen(z *zbCtx, base *Term) lin {
	// pointer to array: constant length
	if base.Type != nil {
		if pt, ok := base.Type.Underlying().(*types.Pointer); ok {
			if at, ok := pt.Elem().Underlying().(*types.Array); ok {
				return linConst(at.Len())
			}
		}
		if at, ok := base.Type.Underlying().(*types.Array); ok {
			return linConst(at.Len())
		}
	}
	return z.linLen(base)
}

// panickyExternals: library functions that panic for some well-typed
// arguments (a zero reflect.Value, a negative count, an index out of range, an
// empty slice, nil). The module calls none of them today; one that appears is
// reported rather than reasoned about.
var panickyExternals = []string{
	"reflect.", "(reflect.", "(*reflect.", "unsafe.",
	"strings.Repeat", "bytes.Repeat", "(*strings.Builder).Grow", "(*bytes.Buffer).Grow", "(*bytes.Buffer).Truncate",
	"slices.Grow", "slices.Max", "slices.Min", "slices.Repeat", // slices.Insert/Delete/Replace: bounds obligations of R17.b
	"(*sync.WaitGroup).Add", "(*sync/atomic.Value).Store", "(*sync/atomic.Value).Swap", "(*sync/atomic.Value).CompareAndSwap",
	"math/rand.Intn", "math/rand.Int31n", "math/rand.Int63n", "math/rand/v2.IntN", "math/rand/v2.N",
	"strings.NewReplacer", "time.NewTicker", "time.Tick", "regexp.MustCompile", "text/template.Must", "(*math/big.",
}

func checkC17(ctx *Ctx) *Result {
	r := newResult("C17")
	r.Explanation = "Decided for every Config and every request, as absence of the constructs that can panic: (R17.a) inventory over everything reachable from NewMiddleware, Reconfigure, Config, SetDebug, Wrap's closure and cfgerrors.All — no explicit panic, no single-result type assertion, no division by a non-constant, no store into a possibly-nil map, no Must* call, no library call known to panic for some arguments (reflect, Repeat, slices.Max/Min, …; slices.Insert/Delete/Replace give bounds obligations instead); the nullable pointers (Config argument of the builder, snapshot in the rendering function and in the request closure) are only dereferenced on paths that excluded nil; (R17.b) bounds — every index and slice operation on every path summary of every such function gives the obligations 0 ≤ i < len resp. 0 ≤ lo ≤ hi ≤ len, each proved from the branch conditions preceding it on the path, length arithmetic of slices/literals/appends, library postconditions (IndexByte, BinarySearch, min), recognised induction variables and the named module invariants below, or taken from the compiler's own prove pass when it eliminated every check on that line; (R17.c) IndexAfter's precondition n < Size holds at its call sites; (R17.d) Tree.Insert only receives patterns from a successful ParsePattern, whose host is non-empty; (R17.e) the subdomains kind is only assigned under HasPrefix(`*.`); (R17.f) the only recursions are node.elems (on children) and cfgerrors.All (on Unwrap() elements); (R17.g) fastParseHost returns substrings of its argument; (R19.1) cfgerrors.All never calls yield again after it returned false (which would make range-over-func panic)."
	r.NotDecided = "panics inside x/net, net/netip, net/http and the user's handler; stack exhaustion on absurdly deep error trees; the conversions int↔uint in cutAtComma are taken as value-preserving on non-negative lengths"
	r.Trusted = []string{"go/types, go/ssa, the path-summary engine", "the Go compiler's prove pass (bounds checks it eliminated are safe)", "postconditions of strings.IndexByte, slices.BinarySearch, strings.CutPrefix/TrimSuffix, min/max, append, copy", "idna.Profile.ToASCII with VerifyDNSLength rejects the empty domain; netip.Addr.String is non-empty"}
	r.rule("R17.a", "inventory of may-panic constructs in everything reachable from the API (expected: none); nullable pointers dereferenced only after a nil test", 5)
	r.rule("R17.b", "every index/slice operation is within bounds on every path (zone reasoning + named invariants + compiler prove pass)", 30)
	r.rule("R17.c", "IndexAfter is only called with -1 or a previous non-negative result on the same set", 2)
	r.rule("R17.d", "Tree.Insert only receives successfully parsed patterns; a successful host lexing consumed at least one byte", 2)
	r.rule("R17.f", "recursion only in node.elems and cfgerrors.All", 1)
	r.rule("R17.g", "fastParseHost returns substrings of its argument", 1)
	r.rule("R19.1", "cfgerrors.All: no yield after yield returned false (range-over-func would panic)", 2)
	r.rule("R1.4", "parallel slices of the tree's nodes have equal length (invariant used by the bounds proofs)", 4)
	r.rule("R17.e", "the subdomains kind is only assigned under HasPrefix(`*.`); hostOnly drops exactly those two bytes", 1)
	parallelSlicesMode(ctx, r, "R1.4", true)
	kindPrefixRule(ctx, r, "R17.e")
	p := ctx.P
	we := ctx.WE()
	var entries []*ssa.Function
	for _, n := range []string{"NewMiddleware", "(*Middleware).Reconfigure", "(*Middleware).Config", "(*Middleware).SetDebug", "(*Middleware).Wrap"} {
		if f := p.Func(pkgRoot, n); f != nil {
			entries = append(entries, f)
		} else {
			r.undecided("R17.a", n, "API anchor not found")
		}
	}
	if f := p.Func(pkgErrs, "All"); f != nil {
		entries = append(entries, f)
	}
	reach := we.Reach(entries...)
	// package initialisers run at import time
	for _, fn := range p.Funcs {
		if fn.Name() == "init" {
			reach = append(reach, we.Reach(fn)...)
		}
	}
	seenFn := map[*ssa.Function]bool{}
	var fns []*ssa.Function
	for _, f := range reach {
		if !seenFn[f] {
			seenFn[f] = true
			fns = append(fns, f)
		}
	}
	// ---- R17.a -----------------------------------------------------------
	for _, fn := range fns {
		r.fn(funcName(fn))
		bad := ""
		n := 0
		for _, b := range fn.Blocks {
			for _, ins := range b.Instrs {
				n++
				switch v := ins.(type) {
				case *ssa.Panic:
					if v.Pos().IsValid() {
						bad = "explicit panic @" + p.Pos(v.Pos())
					}
					// position-less panics are the run-time checks go/ssa synthesises for
					// range-over-func bodies; R19.1 shows they cannot be reached
				case *ssa.TypeAssert:
					if !v.CommaOk {
						bad = "type assertion without comma-ok @" + p.Pos(v.Pos())
					}
				case *ssa.BinOp:
					if v.Op == token.QUO || v.Op == token.REM {
						if _, isC := v.Y.(*ssa.Const); !isC {
							if bt, ok := v.Type().Underlying().(*types.Basic); ok && bt.Info()&types.IsInteger != 0 {
								bad = "integer division by a non-constant @" + p.Pos(v.Pos())
							}
						} else if c := v.Y.(*ssa.Const); c.Value != nil && c.Int64() == 0 {
							bad = "division by zero @" + p.Pos(v.Pos())
						}
					}
				case *ssa.MapUpdate:
					okMap := false
					for _, rt := range we.roots(v.Map) {
						if rt.Kind == RLocal || rt.Kind == RParam || rt.Kind == RCallRes {
							okMap = true
						}
					}
					if !okMap {
						bad = "store into a map that may be nil @" + p.Pos(v.Pos())
					}
				case ssa.CallInstruction:
					if f := v.Common().StaticCallee(); f != nil && strings.HasPrefix(f.Name(), "Must") {
						bad = "call of " + funcName(f) + " @" + p.Pos(ins.Pos())
					}
					if f := v.Common().StaticCallee(); f != nil && !p.InModule(f) && f.Name() != "init" {
						name := funcName(f)
						for _, pre := range panickyExternals {
							if strings.HasPrefix(name, pre) {
								bad = "call of " + name + ", which panics for some arguments (none of the module's invariants is known to exclude them) @" + p.Pos(ins.Pos())
							}
						}
					}
					if b, isB := v.Common().Value.(*ssa.Builtin); isB && b.Name() == "close" {
						bad = "close of a channel (panics when nil or already closed) @" + p.Pos(ins.Pos())
					}
				case *ssa.SliceToArrayPointer:
					bad = "slice-to-array conversion @" + p.Pos(v.Pos())
				}
			}
		}
		r.check(bad == "", "R17.a", funcName(fn), p.Pos(fn.Pos()), bad, n)
	}
	// nullable pointers
	val := ctx.Validation()
	for _, f := range []*ssa.Function{val.Builder, p.Func(pkgRoot, "newConfig")} {
		if f == nil || len(f.Params) == 0 {
			continue
		}
		par := "param:" + f.Params[0].Name()
		var paths []*Path
		if f == val.Builder {
			paths = val.BuilderTab
		} else {
			paths = p.NewExec(nil).Summarize(f)
		}
		bad := ""
		for _, pa := range paths {
			nilAt := -1
			for i, a := range pa.Atoms {
				if a.T.Key() == "bin:==("+par+", nil)" {
					nilAt = i
					if a.Pos {
						// nil: no dereference anywhere on the path
						deref := func(t *Term) bool {
							return t.Mentions(func(s *Term) bool {
								return (s.Op == "faddr" || s.Op == "load") && len(s.Args) > 0 && s.Args[0].Key() == par
							})
						}
						for _, e := range pa.Effects {
							for _, arg := range e.Args {
								if deref(arg) {
									bad = "the nil " + par + " is dereferenced: " + e.String()
								}
							}
						}
						for _, a2 := range pa.Atoms {
							if a2.T.Key() != a.T.Key() && deref(a2.T) {
								bad = "the nil " + par + " is dereferenced in a branch condition"
							}
						}
					}
				}
			}
			if nilAt != 0 {
				bad = "the nullable pointer " + par + " is not tested for nil first"
			}
		}
		r.check(bad == "", "R17.a", funcName(f)+": "+par+" dereferenced only after the nil test", p.Pos(f.Pos()), bad, len(paths))
	}
	// ... and in the functions that manage the Middleware's state: the
	// configuration pointer (nil on a passthrough middleware) and the builder's
	// result (nil for a nil Config) are dereferenced only where the path has
	// excluded nil
	if mt := ctx.MwTable(); len(mt.Problems) == 0 {
		isNullable := func(t *Term) bool {
			if t == nil {
				return false
			}
			if t.Op == "load" && len(t.Args) == 1 && t.Args[0].Op == "faddr" && t.Args[0].Name == mt.PtrFld {
				return true
			}
			return t.Op == "ext" && t.Idx == 0 && len(t.Args) == 1 && t.Args[0].Op == "call" && val.Builder != nil && t.Args[0].Name == funcName(val.Builder)
		}
		for _, name := range sortedKeys(mt.Funcs) {
			mf := mt.Funcs[name]
			if rtc := ctx.RequestTable().Closure; rtc != nil && mf.Fn == rtc {
				continue // the request closure: next rule
			}
			bad := ""
			for _, mp := range mf.Paths {
				excluded := func(x *Term) bool {
					if mp.Val("bin:==("+x.Key()+", nil)") == -1 {
						return true
					}
					// the builder returns a configuration whenever it is given a
					// Config and reports no error (R8.3)
					if x.Op == "ext" && len(x.Args[0].Args) == 1 {
						return mp.Val("bin:==("+x.Args[0].Args[0].Key()+", nil)") == -1 && mp.Val("bin:==("+x.Args[0].Key()+"#1, nil)") == 1
					}
					return false
				}
				look := func(t *Term) {
					if t == nil {
						return
					}
					t.Mentions(func(s *Term) bool {
						if (s.Op == "faddr" || s.Op == "load" || s.Op == "field") && len(s.Args) > 0 && isNullable(s.Args[0]) && !excluded(s.Args[0]) {
							bad = "the possibly-nil " + s.Args[0].Key() + " is dereferenced (" + s.Key() + ") on path {" + mp.AtomString() + "}"
						}
						return false
					})
				}
				for _, a := range mp.Atoms {
					look(a.T)
				}
				for _, e := range mp.Effects {
					for _, arg := range e.Args {
						look(arg)
					}
				}
				for _, rt := range mp.Rets {
					look(rt)
				}
			}
			r.check(bad == "", "R17.a", name+": configuration pointer and builder result dereferenced only where nil is excluded", p.Pos(mf.Fn.Pos()), bad, len(mf.Paths))
		}
	}
	if rt := ctx.RequestTable(); rt.Closure != nil {
		bad := ""
		for _, rp := range rt.Paths {
			if rp.Is(aPass) {
				for n := range rp.A {
					if strings.Contains(n, "cfg.") {
						bad = "the request closure consults the configuration on the passthrough (nil) path"
					}
				}
			} else if rp.A[aPass] == 0 {
				bad = "a request path uses the snapshot without testing it for nil"
			}
		}
		r.check(bad == "", "R17.a", "request closure: snapshot dereferenced only after the nil test", p.Pos(rt.Closure.Pos()), bad, len(rt.Paths))
	}

	// ---- R17.b -----------------------------------------------------------
	unproven, err := compilerUnprovenBounds(p.Dir)
	if err != nil {
		r.undecided("R17.b", "compiler prove pass", err.Error())
		unproven = map[string]int{}
	}
	br := &boundsResult{failures: map[string]string{}, sites: map[string]bool{}, lemmas: map[string]int{}}
	total := 0
	inlinedEverywhere := func(fn *ssa.Function) bool {
		if hasLoop(fn) || boundsPolicy(p)(fn) != PolInline || len(we.callers[fn]) == 0 {
			return false
		}
		if fn.Object() != nil && fn.Object().Exported() && fn.Signature.Recv() == nil && fn.Pkg != nil && !strings.Contains(fn.Pkg.Pkg.Path(), "/internal/") {
			return false // exported API of a public package
		}
		for _, cs := range we.callers[fn] {
			if hasLoop(cs.Caller) && false {
				return false
			}
		}
		return true
	}
	for _, fn := range fns {
		if inlinedEverywhere(fn) {
			continue // its operations are examined on its callers' paths, with their facts
		}
		if fn.Pkg != nil && fn.Pkg.Pkg.Path() == pkgErrs && fn.Name() != "All" && fn.Parent() == nil {
			// Error() methods: no indexing
		}
		if fn.Parent() != nil && fn.Parent().Name() == "All" {
			continue // range-over-func closures of cfgerrors.All: no indexing, handled by R19.1
		}
		if fn.Synthetic != "" && strings.Contains(fn.Synthetic, "range-over-func") {
			continue
		}
		total += boundsOf(ctx, fn, unproven, br)
	}
	for _, site := range sortedKeys(br.sites) {
		if why, bad := br.failures[site]; bad {
			at := site[strings.LastIndex(site, "@")+1:]
			r.fail("R17.b", site[:strings.LastIndex(site, " @")], at, why)
		} else {
			r.ok("R17.b", site[:strings.LastIndex(site, " @")], 1, "")
		}
	}
	r.CallSites += total
	// every line the compiler could not prove must have been looked at
	covered := map[string]bool{}
	for site := range br.sites {
		at := site[strings.LastIndex(site, "@")+1:]
		covered[at] = true
	}
	var missed []string
	for line := range unproven {
		if !covered[line] {
			missed = append(missed, line)
		}
	}
	sort.Strings(missed)
	// lines the analysis did not see: inlined library helpers (strings.CutPrefix, TrimSuffix) at call sites
	var unexplained []string
	for _, l := range missed {
		if !lineCallsOnlyLibrary(ctx, l) {
			unexplained = append(unexplained, l)
		}
	}
	r.check(len(unexplained) == 0, "R17.b", "every compiler-unproven bounds check of the module was examined", "", fmt.Sprintf("bounds checks at %v were reported by the compiler but no index/slice operation of a reachable function was analysed there", unexplained), len(unproven))

	// ---- R17.c -----------------------------------------------------------
	ia := p.Func(pkgUtil, "(SortedSet).IndexAfter")
	isIndexAfter := func(f *ssa.Function) bool {
		if f == nil || ia == nil {
			return false
		}
		if f == ia {
			return true
		}
		// a method-expression thunk or bound-method wrapper of IndexAfter
		return p.methodValueWrapper(f) && f.Object() == ia.Object()
	}
	// posOK: v + d is a legitimate starting point for IndexAfter — the constant
	// -1, or a loop-carried value that is -1 initially and a previous result of
	// IndexAfter afterwards (possibly kept shifted by a constant, handed through
	// a parameter of a module helper or returned by one).
	var posOK func(v ssa.Value, d int64, seen map[ssa.Value]bool) string
	posOK = func(v ssa.Value, d int64, seen map[ssa.Value]bool) string {
		base, off := ssaAffine(v)
		d += off
		if seen[base] {
			return ""
		}
		seen[base] = true
		results := func(c *ssa.Call, idx int) string {
			f := c.Common().StaticCallee()
			if isIndexAfter(f) {
				if d != 0 {
					return fmt.Sprintf("a previous result shifted by %d", d)
				}
				return ""
			}
			if f == nil || !p.InModule(f) || len(f.Blocks) == 0 {
				return "position comes from " + c.String()
			}
			for _, b := range f.Blocks {
				for _, ins := range b.Instrs {
					if ret, ok := ins.(*ssa.Return); ok && idx < len(ret.Results) {
						if w := posOK(ret.Results[idx], d, seen); w != "" {
							return w
						}
					}
				}
			}
			return ""
		}
		switch x := base.(type) {
		case *ssa.Const:
			if x.Int64()+d != -1 {
				return fmt.Sprintf("position initialised to %d", x.Int64()+d)
			}
			return ""
		case *ssa.Phi:
			for _, e := range x.Edges {
				if w := posOK(e, d, seen); w != "" {
					return w
				}
			}
			return ""
		case *ssa.Call:
			return results(x, 0)
		case *ssa.Extract:
			if c, ok := x.Tuple.(*ssa.Call); ok {
				return results(c, x.Index)
			}
		case *ssa.Parameter:
			fn := x.Parent()
			idx := -1
			for i, q := range fn.Params {
				if q == x {
					idx = i
				}
			}
			sites := we.callers[fn]
			if idx < 0 || len(sites) == 0 || (fn.Object() != nil && fn.Object().Exported() && !p.methodValueWrapper(fn)) {
				return "position is the parameter " + x.Name() + " of " + funcName(fn) + ", whose callers are not all known"
			}
			for _, cs := range sites {
				args := cs.Call.Common().Args
				if idx >= len(args) {
					return "position is the parameter " + x.Name() + " of " + funcName(fn) + " (call site with fewer arguments)"
				}
				if w := posOK(args[idx], d, seen); w != "" {
					return w
				}
			}
			return ""
		case *ssa.FreeVar:
			// (a bound method value captures its receiver, not the position)
		}
		return "IndexAfter's first argument is neither -1 nor a loop-carried previous result: " + base.String()
	}
	var iaSites []callSite
	for f, sites := range we.callers {
		if isIndexAfter(f) {
			for _, cs := range sites {
				if !isIndexAfter(cs.Caller) {
					iaSites = append(iaSites, cs)
				}
			}
		}
	}
	sort.Slice(iaSites, func(i, j int) bool { return iaSites[i].Call.Pos() < iaSites[j].Call.Pos() })
	for _, cs := range iaSites {
		args := cs.Call.Common().Args
		// the position is the parameter after the receiver (a bound method value carries its receiver itself)
		k := 1
		if f := cs.Call.Common().StaticCallee(); f != nil && strings.HasPrefix(f.Synthetic, "bound method wrapper") {
			k = 0
		}
		detail := "unexpected arity"
		if k < len(args) {
			detail = posOK(args[k], 0, map[ssa.Value]bool{})
		}
		r.check(detail == "", "R17.c", funcName(cs.Caller)+" → IndexAfter", p.Pos(cs.Call.Pos()), detail, 1)
	}
	// (the non-negativity of the carried result is the C14 step table: the position is only updated under ¬(result < 0))
	if fnc := p.Func(pkgHeaders, "Check"); fnc != nil {
		bad := ""
		for _, pa := range p.NewExec(nil).Summarize(fnc) {
			for name, v := range pa.Next {
				if v, _ := affine(v); v.Op == "call" && v.Name == "(util.SortedSet).IndexAfter" {
					if pa.Val("bin:<("+v.Key()+", 0)") != -1 {
						bad = "the position " + name + " is updated with a possibly negative IndexAfter result"
					}
				}
			}
		}
		r.check(bad == "", "R17.c", "headers.Check: position updated only with a non-negative result", p.Pos(fnc.Pos()), bad, 1)
	}

	// ---- R17.d -----------------------------------------------------------
	ins := p.Func(pkgOrigins, "(*Tree).Insert")
	for _, cs := range we.callers[ins] {
		good := false
		detail := "Tree.Insert is called from " + funcName(cs.Caller) + ", which is not the origin validator"
		if t := val.Lists["Origins"]; t != nil && t.Fn == cs.Caller {
			good, detail = true, ""
			for _, ip := range t.Iter {
				for _, c := range ip.Calls {
					if strings.HasPrefix(c, "(*origins.Tree).Insert(") {
						if !strings.HasSuffix(c, ",&"+tPattern+")") || !ip.hasAtomTag(t, "bin:==("+tParseErr+",nil)", true) {
							good, detail = false, "Tree.Insert receives something other than the result of a successful ParsePattern: "+c
						}
					}
				}
			}
		}
		r.check(good, "R17.d", funcName(cs.Caller)+" → Tree.Insert", p.Pos(cs.Call.Pos()), detail, 1)
	}
	if fh := p.Func(pkgOrigins, "fastParseHost"); fh != nil {
		ps := p.NewExec(nil).Summarize(fh)
		bad := ""
		sub := ""
		for _, pa := range ps {
			if pa.End != "return" || len(pa.Rets) != 3 {
				continue
			}
			if pa.Rets[2].IsConst("true") {
				// entry guards: a successful lexing excludes the empty input
				if pa.Start == "entry" && !pa.Has("bin:<(len:builtin.len(param:str), 4)", false) && !pa.Has("bin:==(len:builtin.len(param:str), 0)", false) {
					bad = "fastParseHost can succeed on the empty input"
				}
				v := fieldOf(pa.Rets[0], "Value")
				if !isSubstringOf(v, "param:str") {
					sub = "fastParseHost returns a host that is not a substring of its argument: " + v.Key()
				}
				if rest := pa.Rets[1]; !isSubstringOf(rest, "param:str") && !rest.IsConst(`""`) {
					sub = "fastParseHost returns a remainder that is not a substring of its argument: " + rest.Key()
				}
			}
		}
		r.check(bad == "", "R17.d", "fastParseHost: success excludes the empty input", p.Pos(fh.Pos()), bad, len(ps))
		r.check(sub == "", "R17.g", "fastParseHost: results are substrings of the argument", p.Pos(fh.Pos()), sub, len(ps))
	}

	// ---- R17.f -----------------------------------------------------------
	var rec []string
	for _, fn := range fns {
		for _, c := range we.callees[fn] {
			if c == fn {
				rec = appendUnique(rec, funcName(fn))
			}
		}
		// mutual recursion
		for _, g := range we.Reach(we.callees[fn]...) {
			if g == fn {
				rec = appendUnique(rec, funcName(fn))
			}
		}
	}
	sort.Strings(rec)
	allowed := map[string]bool{"(*origins.node).elems": true, "cfgerrors.All": true, "cfgerrors.All$1": true}
	bad := ""
	// recursion over the error tree: every recursive call is applied to an
	// element of the []error that Unwrap() returned for (a value derived
	// from) the caller's own argument — one level down a finite tree
	overErrorTree := func(name string) bool {
		for _, fn := range fns {
			if funcName(fn) != name || fn.Pkg == nil || fn.Pkg.Pkg.Path() != pkgErrs {
				continue
			}
			n := 0
			for _, b := range fn.Blocks {
				for _, ins := range b.Instrs {
					c, ok := ins.(ssa.CallInstruction)
					if !ok || c.Common().StaticCallee() != fn {
						continue
					}
					n++
					down := false
					for _, a := range c.Common().Args {
						ld, ok := a.(*ssa.UnOp)
						if !ok {
							continue
						}
						ia, ok := ld.X.(*ssa.IndexAddr)
						if !ok {
							continue
						}
						if src, ok := ia.X.(*ssa.Call); ok && src.Common().IsInvoke() && src.Common().Method.Name() == "Unwrap" {
							down = true
						}
					}
					if !down {
						return false
					}
				}
			}
			return n > 0
		}
		return false
	}
	for _, f := range rec {
		if !allowed[f] && !strings.HasPrefix(f, "cfgerrors.All") && !overErrorTree(f) {
			bad = "unexpected recursion through " + f
		}
	}
	r.check(bad == "", "R17.f", "recursive functions: "+strings.Join(rec, ", "), "", bad, len(fns))

	// ---- R19.1 (shared with C19) ----------------------------------------------
	c19 := checkC19(ctx)
	for _, o := range c19.Obls {
		if o.Rule == "R19.1" {
			r.Obls = append(r.Obls, o)
		}
	}
	var lem []string
	for k, n := range br.lemmas {
		lem = append(lem, k+"×"+strconv.Itoa(n))
	}
	sort.Strings(lem)
	r.sample(map[string]any{"functions_examined": len(fns), "bounds_operations_on_paths": total, "distinct_sites": len(br.sites), "proved_by_zone_reasoning": br.proved,
		"left_to_compiler_prove_pass": br.byCompiler, "failed": br.failed, "compiler_unproven_lines": len(unproven), "compiler_lines_in_inlined_library_helpers": missed, "named_lemmas_used": lem})
	// R17.d rests on ParsePattern never accepting an empty host: the IDNA profile
	// (with VerifyDNSLength) is consulted for every domain host
	r.share(checkC13(ctx), map[string]string{
		"R13.4": "every accepting path of ParsePattern has passed each documented guard (a domain host went through the IDNA profile, which rejects the empty host Tree.Insert could not index)",
		"R13.8": "the IDNA profile used for domain hosts is idna.New(BidiRule, ValidateLabels(true), StrictDomainName(true), VerifyDNSLength(true))",
	}, nil)
	// "returns": no call is left waiting on the middleware's own lock
	r.share(checkC07(ctx), map[string]string{
		"R7.2": "every lock acquired by Reconfigure, SetDebug, Config and the request closure is released on every path",
		"R7.4": "no interface/dynamic call and no call into module code while the lock is held (a wrapped handler calling SetDebug or Reconfigure would never return)",
		"R7.5": "publication immutability: a published configuration is never written again, neither by a request nor by a later Reconfigure (a concurrent map write aborts the process; a slice header torn between two configurations indexes out of range)",
	}, nil)
	return r
}

// lineCallsOnlyLibrary: the source line holds no value-level index or slice
// expression of its own, so the bounds check the compiler reports there
// belongs to a callee it inlined (a library helper, or a module function
// whose operations are examined at their own positions).
func lineCallsOnlyLibrary(ctx *Ctx, fileLine string) bool {
	i := strings.LastIndex(fileLine, ":")
	file, line := fileLine[:i], fileLine[i+1:]
	if file == "<autogenerated>" {
		return true
	}
	n, _ := strconv.Atoi(line)
	for _, pk := range ctx.P.Pkgs {
		for _, f := range pk.Syntax {
			pos := ctx.P.Fset.Position(f.Pos())
			rel, _ := filepath.Rel(ctx.P.Dir, pos.Filename)
			if rel != file {
				continue
			}
			own := false
			ast.Inspect(f, func(nd ast.Node) bool {
				var x ast.Expr
				var lb token.Pos
				switch e := nd.(type) {
				case *ast.IndexExpr:
					x, lb = e.X, e.Lbrack
				case *ast.SliceExpr:
					x, lb = e.X, e.Lbrack
				default:
					return true
				}
				if ctx.P.Fset.Position(lb).Line != n {
					return true
				}
				if tv, ok := pk.TypesInfo.Types[x]; ok && tv.IsValue() {
					if _, isMap := tv.Type.Underlying().(*types.Map); !isMap {
						if _, isSig := tv.Type.Underlying().(*types.Signature); !isSig {
							own = true
						}
					}
				}
				return true
			})
			return !own
		}
	}
	return false
}

// isSubstringOf: t is base sliced any number of times (a slice of a slice of
// a string is a substring of it), or base itself.
func isSubstringOf(t *Term, base string) bool {
	for t != nil {
		if t.Key() == base {
			return true
		}
		if t.Op != "slice" {
			return false
		}
		t = t.Args[0]
	}
	return false
}
