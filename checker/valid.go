package main

// Validation-path tables: per-iteration decision tables of the list
// validators (PS with the loop cut at its header), the exit segments, and the
// path table of the top-level builder.

import (
	"fmt"
	"go/token"
	"go/types"
	"sort"
	"strings"

	"golang.org/x/tools/go/ssa"
)

type ErrCons struct {
	Type   string            // cfgerrors type name, or "" for a propagated error
	Fields map[string]string // field -> value tag
	Prop   string            // tag of a propagated error value
	At     string
}

func (e ErrCons) String() string {
	if e.Type == "" {
		return "propagate(" + e.Prop + ")"
	}
	var fs []string
	for _, k := range sortedKeys(e.Fields) {
		fs = append(fs, k+"="+e.Fields[k])
	}
	return e.Type + "{" + strings.Join(fs, ",") + "}"
}

type IterPath struct {
	*Path
	V      map[string]int // recognised predicate -> +1/-1
	Errs   []ErrCons
	ErrsOK bool     // the errs value flowing on is phi or append-chain on phi
	Calls  []string // canonical container/other calls
	Stores map[string]string
	Other  []string // effects the table does not understand
	NextV  map[string]string
	Stale  string // an appended error object that was not allocated in this iteration
}

type ValidatorTable struct {
	Field    string // Config field validated
	Fn       *ssa.Function
	List     string // name of the list parameter
	Recv     string // name of the receiver parameter
	Hdr      string
	ErrsPhi  string
	IdxPhi   string // the induction φ that walks the list: "rangeindex" for a range loop, the counter's name for `for i := 0; i < len(list); i++`
	IdxOff   int    // the position visited is φ+IdxOff (1 for range loops, whose φ starts at -1)
	Entry    []*Path
	Iter     []*IterPath
	Exit     []*Path
	All      []*Path
	Problems []string
}

type Validation struct {
	Builder    *ssa.Function
	BuilderTab []*Path
	Lists      map[string]*ValidatorTable // by Config field
	Ints       map[string]*ssa.Function   // by Config field
	Problems   []string
	Callers    []string
}

func (ctx *Ctx) Validation() *Validation {
	if v, ok := ctx.cache["validation"]; ok {
		return v.(*Validation)
	}
	v := buildValidation(ctx.P)
	ctx.cache["validation"] = v
	return v
}

// findBuilder: the module function that both NewMiddleware and Reconfigure
// call to obtain the *internalConfig they store.
func findBuilder(p *Prog) (*ssa.Function, []string, error) {
	nm := p.Func(pkgRoot, "NewMiddleware")
	rc := p.Func(pkgRoot, "(*Middleware).Reconfigure")
	if nm == nil || rc == nil {
		return nil, nil, fmt.Errorf("anchors NewMiddleware/Reconfigure not found")
	}
	callees := func(fn *ssa.Function) map[*ssa.Function]bool {
		out := map[*ssa.Function]bool{}
		for _, b := range fn.Blocks {
			for _, ins := range b.Instrs {
				if c, ok := ins.(ssa.CallInstruction); ok {
					if f := c.Common().StaticCallee(); f != nil && p.InModule(f) {
						res := f.Signature.Results()
						if res.Len() == 2 && isNamedPtr(res.At(0).Type(), pkgRoot, "internalConfig") {
							out[f] = true
						}
					}
				}
			}
		}
		return out
	}
	a, b := callees(nm), callees(rc)
	var common []*ssa.Function
	for f := range a {
		if b[f] {
			common = append(common, f)
		}
	}
	if len(common) != 1 || len(a) != 1 || len(b) != 1 {
		return nil, nil, fmt.Errorf("constructors do not share exactly one builder (NewMiddleware: %d, Reconfigure: %d, common: %d)", len(a), len(b), len(common))
	}
	return common[0], []string{funcName(nm), funcName(rc)}, nil
}

func buildValidation(p *Prog) *Validation {
	v := &Validation{Lists: map[string]*ValidatorTable{}, Ints: map[string]*ssa.Function{}}
	b, callers, err := findBuilder(p)
	if err != nil {
		v.Problems = append(v.Problems, err.Error())
		return v
	}
	v.Builder = b
	v.Callers = callers
	if hasLoop(b) {
		v.Problems = append(v.Problems, "builder contains a loop")
		return v
	}
	// validators: methods on *internalConfig called with a Config field by the
	// builder — or by a loop-free module helper the builder delegates a
	// section to (the path summaries inline such helpers)
	scanned := map[*ssa.Function]bool{}
	var scan func(fn *ssa.Function, depth int)
	scan = func(fn *ssa.Function, depth int) {
		if scanned[fn] || depth > 3 {
			return
		}
		scanned[fn] = true
		for _, blk := range fn.Blocks {
			for _, ins := range blk.Instrs {
				c, ok := ins.(*ssa.Call)
				if !ok {
					continue
				}
				f := c.Common().StaticCallee()
				if f == nil || !p.InModule(f) {
					continue
				}
				if len(c.Common().Args) == 2 {
					if fld := configFieldOf(c.Common().Args[1]); fld != "" {
						if _, isSlice := c.Common().Args[1].Type().Underlying().(*types.Slice); isSlice {
							v.Lists[fld] = buildValidatorTable(p, f, fld)
						} else if _, isBasic := c.Common().Args[1].Type().Underlying().(*types.Basic); isBasic {
							v.Ints[fld] = f
						}
						if _, isStruct := c.Common().Args[1].Type().Underlying().(*types.Struct); !isStruct {
							continue
						}
					}
				}
				// a delegate: same package, loop-free, has the configuration under construction as receiver
				if f.Pkg == b.Pkg && !hasLoop(f) && len(f.Blocks) > 0 && f.Signature.Recv() != nil && isNamedPtr(f.Signature.Recv().Type(), pkgRoot, "internalConfig") {
					scan(f, depth+1)
				}
			}
		}
	}
	scan(b, 0)
	x := p.NewExec(nil)
	v.BuilderTab = x.Summarize(b)
	v.Problems = append(v.Problems, x.Problems...)
	return v
}

// configFieldOf: v is a load of cfg.<Field> (possibly through ExtraConfig).
func configFieldOf(v ssa.Value) string {
	u, ok := v.(*ssa.UnOp)
	if !ok {
		return ""
	}
	fa, ok := u.X.(*ssa.FieldAddr)
	if !ok {
		return ""
	}
	st := fa.X.Type().Underlying().(*types.Pointer).Elem().Underlying().(*types.Struct)
	return st.Field(fa.Field).Name()
}

func buildValidatorTable(p *Prog, f *ssa.Function, field string) *ValidatorTable {
	t := &ValidatorTable{Field: field, Fn: f}
	if len(f.Params) != 2 {
		t.Problems = append(t.Problems, "unexpected parameter count")
		return t
	}
	t.Recv, t.List = f.Params[0].Name(), f.Params[1].Name()
	hdrs := loopHeaders(f)
	if len(hdrs) != 1 {
		t.Problems = append(t.Problems, fmt.Sprintf("%d loops, expected exactly 1 single-pass fold", len(hdrs)))
		return t
	}
	for h := range hdrs {
		t.Hdr = fmt.Sprintf("hdr%d", h.Index)
		for _, ins := range h.Instrs {
			phi, ok := ins.(*ssa.Phi)
			if !ok {
				break
			}
			if s, ok := phi.Type().Underlying().(*types.Slice); ok && types.TypeString(s.Elem(), nil) == "error" {
				if t.ErrsPhi != "" {
					t.Problems = append(t.Problems, "two loop-carried []error values")
				}
				t.ErrsPhi = phi.Comment
				if t.ErrsPhi == "" {
					t.ErrsPhi = phi.Name()
				}
			}
		}
	}
	if t.ErrsPhi == "" {
		// ... or a variable shared with a closure (a cell)
		for h := range hdrs {
			for _, c := range capturedCells(f, h) {
				if s, ok := c.Type().Underlying().(*types.Pointer).Elem().Underlying().(*types.Slice); ok && types.TypeString(s.Elem(), nil) == "error" {
					if t.ErrsPhi != "" {
						t.Problems = append(t.Problems, "two loop-carried []error values")
					}
					t.ErrsPhi = cellName(c)
				}
			}
		}
	}
	if t.ErrsPhi == "" {
		t.Problems = append(t.Problems, "no loop-carried []error value found")
		return t
	}
	// the induction variable: the header's guard is `φ+off < len(list)` with
	// φ starting at -off and stepping by one
	for h := range hdrs {
		if len(h.Instrs) == 0 {
			continue
		}
		br, ok := h.Instrs[len(h.Instrs)-1].(*ssa.If)
		if !ok {
			continue
		}
		cmp, ok := br.Cond.(*ssa.BinOp)
		if !ok || cmp.Op != token.LSS {
			continue
		}
		var phi *ssa.Phi
		off := 0
		switch xv := cmp.X.(type) {
		case *ssa.Phi:
			phi = xv
		case *ssa.BinOp:
			if c, isC := xv.Y.(*ssa.Const); isC && xv.Op == token.ADD && c.Value != nil && c.Value.ExactString() == "1" {
				phi, _ = xv.X.(*ssa.Phi)
				off = 1
			}
		}
		ln, isCall := cmp.Y.(*ssa.Call)
		if phi == nil || phi.Block() != h || !isCall {
			continue
		}
		if b, isB := ln.Common().Value.(*ssa.Builtin); !isB || b.Name() != "len" || len(ln.Common().Args) != 1 || ln.Common().Args[0] != ssa.Value(f.Params[1]) {
			continue
		}
		okInit := false
		for j, e := range phi.Edges {
			if h.Dominates(h.Preds[j]) {
				continue
			}
			if c, isC := e.(*ssa.Const); isC && c.Value != nil && c.Value.ExactString() == fmt.Sprint(-off) {
				okInit = true
			} else {
				okInit = false
				break
			}
		}
		if !okInit {
			t.Problems = append(t.Problems, "the loop counter does not start at the first element")
			continue
		}
		t.IdxPhi, t.IdxOff = phi.Comment, off
		if t.IdxPhi == "" {
			t.IdxPhi = phi.Name()
		}
	}
	if t.IdxPhi == "" {
		t.Problems = append(t.Problems, "the loop is not a walk over the list parameter (`for … range list` or `for i := 0; i < len(list); i++`)")
		return t
	}
	x := p.NewExec(nil)
	t.All = x.Summarize(f)
	t.Problems = append(t.Problems, x.Problems...)
	for _, pa := range t.All {
		switch {
		case pa.Start == "entry":
			t.Entry = append(t.Entry, pa)
		case pa.End == "return" || pa.End == "panic":
			t.Exit = append(t.Exit, pa)
		default:
			t.Iter = append(t.Iter, t.iterPath(pa))
		}
	}
	for _, ip := range t.Iter {
		if v, ok := ip.NextV[t.IdxPhi]; ok && v != "bin:+(carried:"+t.IdxPhi+",1)" {
			t.Problems = append(t.Problems, "an iteration does not advance the loop counter by exactly one: "+v)
		}
	}
	return t
}

// idxTag is the tag of the position visited by an iteration.
func (t *ValidatorTable) idxTag() string {
	if t.IdxOff == 1 {
		return "bin:+(carried:" + t.IdxPhi + ",1)"
	}
	return "carried:" + t.IdxPhi
}

// guardTag is the tag of the loop guard `position < len(list)`.
func (t *ValidatorTable) guardTag() string {
	return "bin:<(" + t.idxTag() + ",len:builtin.len(param:" + t.List + "))"
}

func (t *ValidatorTable) isGuardTag(g string) bool { return strings.HasPrefix(g, t.guardTag()) }

func (t *ValidatorTable) phiKey(name string) string { return "loopphi:" + name + "@" + t.Hdr }

// isElem: the term is the current range element list[i].
func (t *ValidatorTable) isElem(x *Term) bool {
	if x == nil || x.Op != "load" || x.Args[0].Op != "iaddr" || x.Args[0].Args[0].Key() != "param:"+t.List {
		return false
	}
	idx := x.Args[0].Args[1]
	want := t.phiKey(t.IdxPhi)
	if t.IdxOff == 1 {
		want = "bin:+(" + want + ", 1)"
	}
	return t.IdxPhi == "" || idx.Key() == want
}

// tag gives a canonical provenance tag for a value on a validator path.
func (t *ValidatorTable) tag(x *Term) string {
	switch {
	case x == nil:
		return "?nil"
	case t.isElem(x):
		return "elem"
	case x.Op == "const":
		return x.Name
	case x.Op == "param":
		return "param:" + x.Name
	case x.Op == "loopphi":
		return "carried:" + strings.SplitN(x.Name, "@", 2)[0]
	case x.Op == "call":
		var as []string
		for _, a := range x.Args {
			as = append(as, t.tag(a))
		}
		return x.Name + "(" + strings.Join(as, ",") + ")"
	case x.Op == "ext":
		return fmt.Sprintf("%s#%d", t.tag(x.Args[0]), x.Idx)
	case x.Op == "ref":
		return "&" + t.tag(x.Args[0])
	case x.Op == "field":
		return t.tag(x.Args[0]) + "." + x.Name
	case x.Op == "alloc":
		if pt, ok := x.Type.(*types.Pointer); ok {
			return "local<" + short(types.TypeString(pt.Elem(), nil)) + ">"
		}
		return "local:" + x.Name
	case x.Op == "load" && x.Args[0].Op == "faddr" && x.Args[0].Args[0].Key() == "param:"+t.Recv:
		s := "cfg." + x.Args[0].Name
		if x.Idx != 0 {
			s += fmt.Sprintf("@%d", x.Idx)
		}
		return s
	case x.Op == "load" || x.Op == "zero":
		s := "*" + t.tag(x.Args[0])
		if x.Idx != 0 {
			s += fmt.Sprintf("@%d", x.Idx)
		}
		return s
	case x.Op == "faddr" && x.Args[0].Key() == "param:"+t.Recv:
		return "&cfg." + x.Name
	case x.Op == "faddr":
		return "&" + t.tag(x.Args[0]) + "." + x.Name
	case x.Op == "iaddr":
		return "&" + t.tag(x.Args[0]) + "[" + t.tag(x.Args[1]) + "]"
	case x.Op == "lit":
		var as []string
		for _, a := range x.Args {
			as = append(as, t.tag(a))
		}
		return "[" + strings.Join(as, ",") + "]"
	case x.Op == "bin" || x.Op == "un" || x.Op == "len" || x.Op == "conv" || x.Op == "iface" || x.Op == "append":
		var as []string
		for _, a := range x.Args {
			as = append(as, t.tag(a))
		}
		return x.Op + ":" + x.Name + "(" + strings.Join(as, ",") + ")"
	}
	return "?" + x.Key()
}

// errsChain decomposes the value flowing into the errs phi: the appended
// error values, and whether the base is the incoming phi.
func errsChain(x *Term, base string) (items []*Term, ok bool) {
	for {
		if x.Key() == base || (base == "nil" && isEmptySliceTerm(x)) {
			return items, true
		}
		if x.Op == "append" && len(x.Args) == 2 && x.Args[1].Op == "lit" {
			items = append(append([]*Term(nil), x.Args[1].Args...), items...)
			x = x.Args[0]
			continue
		}
		return items, false
	}
}

func (t *ValidatorTable) errCons(pa *Path, item *Term) ErrCons {
	if item.Op == "iface" && item.Args[0].Op == "alloc" && strings.HasPrefix(item.Name, "*cfgerrors.") {
		ec := ErrCons{Type: strings.TrimPrefix(item.Name, "*cfgerrors."), Fields: map[string]string{}}
		pre := "&" + item.Args[0].Key() + "."
		for k, e := range pa.Mem {
			if strings.HasPrefix(k, pre) {
				ec.Fields[strings.TrimPrefix(k, pre)] = t.tag(e.Val)
			}
		}
		return ec
	}
	return ErrCons{Prop: t.tag(item)}
}

func (t *ValidatorTable) iterPath(pa *Path) *IterPath {
	ip := &IterPath{Path: pa, V: map[string]int{}, Stores: map[string]string{}, NextV: map[string]string{}}
	next := pa.Next[t.ErrsPhi]
	if next != nil {
		items, ok := errsChain(next, t.phiKey(t.ErrsPhi))
		ip.ErrsOK = ok
		for _, it := range items {
			ip.Errs = append(ip.Errs, t.errCons(pa, it))
			// the error object must be allocated in this very iteration: an
			// object that exists before it (a variable declared outside the
			// loop, shared with a closure) would be appended again and
			// overwritten by later iterations
			if it.Op == "iface" && len(it.Args) == 1 && it.Args[0].Op == "alloc" && !pa.Fresh[it.Args[0].Key()] {
				ip.Stale = it.Args[0].Key()
			}
		}
	}
	for name, v := range pa.Next {
		if name != t.ErrsPhi {
			ip.NextV[name] = t.tag(v)
		}
	}
	for _, e := range pa.Effects[pa.PreEff:] {
		switch {
		case e.Kind == "store":
			r := e.Args[0].addrRoot()
			if r != nil && r.Op == "alloc" {
				continue // local variable / literal under construction
			}
			ip.Stores[t.tag(e.Args[0])] = t.tag(e.Args[1])
		case e.Kind == "builtin" && e.Name == "builtin.append":
			// accounted for through the errs chain
		case e.Kind == "enter":
		case e.Kind == "call":
			var as []string
			for k, a := range e.Args {
				if k < len(e.Deref) && e.Deref[k] != nil {
					as = append(as, "&"+t.tag(e.Deref[k]))
				} else {
					as = append(as, t.tag(a))
				}
			}
			ip.Calls = append(ip.Calls, e.Name+"("+strings.Join(as, ",")+")")
		default:
			ip.Other = append(ip.Other, e.String())
		}
	}
	return ip
}

// ---- oracle machinery -------------------------------------------------

type predDef struct {
	Name  string
	Match func(t *ValidatorTable, x *Term) bool
}

type expectation struct {
	Errs      []string          // canonical errors expected (any order)
	AltErrs   [][]string        // acceptable alternatives to Errs (audited equivalences)
	MustCall  []string          // calls required when no error is expected
	MayCall   []string          // further calls tolerated
	MustStore map[string]string // stores required (field tag -> value tag)
	MayStore  map[string]string
	MustNext  map[string]string // loop-carried value required to flow on
	Note      string
}

type iterOracle struct {
	Preds    []predDef
	Feasible func(v map[string]bool) bool
	Expect   func(v map[string]bool) expectation
	// Carried lists loop-carried locals whose next value the oracle does not constrain
	FreeNext map[string]bool
}

func callMatch(name string, args ...string) func(*ValidatorTable, *Term) bool {
	return func(t *ValidatorTable, x *Term) bool {
		if x.Op != "call" || x.Name != name || len(x.Args) != len(args) {
			return false
		}
		for i, a := range args {
			if t.tag(x.Args[i]) != a {
				return false
			}
		}
		return true
	}
}

func eqMatch(lhs, rhs string) func(*ValidatorTable, *Term) bool {
	return func(t *ValidatorTable, x *Term) bool {
		return x.Op == "bin" && x.Name == "==" && t.tag(x.Args[0]) == lhs && t.tag(x.Args[1]) == rhs
	}
}

func tagMatch(tag string) func(*ValidatorTable, *Term) bool {
	return func(t *ValidatorTable, x *Term) bool { return t.tag(x) == tag }
}

type mismatch struct {
	Path    *IterPath
	V       map[string]bool
	Kind    string // missing-error | extra-error | missing-effect | extra-effect | flag
	Detail  string
	Missing bool
}

// valuation extracts the recognised predicates of a path.
func (t *ValidatorTable) valuation(o *iterOracle, ip *IterPath) {
	for _, a := range ip.Atoms[ip.PreAt:] {
		for _, pd := range o.Preds {
			if pd.Match(t, a.T) {
				if a.Pos {
					ip.V[pd.Name] = 1
				} else {
					ip.V[pd.Name] = -1
				}
			}
		}
	}
	// atoms inherited from the pre-loop state (e.g. pna computed before the loop)
	for _, a := range ip.Atoms[:ip.PreAt] {
		for _, pd := range o.Preds {
			if pd.Match(t, a.T) {
				if a.Pos {
					ip.V[pd.Name] = 1
				} else {
					ip.V[pd.Name] = -1
				}
			}
		}
	}
}

func sameMultiset(a, b []string) bool {
	if len(a) != len(b) {
		return false
	}
	x := append([]string(nil), a...)
	y := append([]string(nil), b...)
	sort.Strings(x)
	sort.Strings(y)
	for i := range x {
		if x[i] != y[i] {
			return false
		}
	}
	return true
}

func diffMultiset(have, want []string) (missing, extra []string) {
	cnt := map[string]int{}
	for _, w := range want {
		cnt[w]++
	}
	for _, h := range have {
		if cnt[h] > 0 {
			cnt[h]--
		} else {
			extra = append(extra, h)
		}
	}
	for w, n := range cnt {
		for i := 0; i < n; i++ {
			missing = append(missing, w)
		}
	}
	sort.Strings(missing)
	sort.Strings(extra)
	return
}

// compare checks one iteration path against the oracle under every feasible
// completion of its partial valuation.
func (t *ValidatorTable) compare(o *iterOracle, ip *IterPath) []mismatch {
	var free []string
	for _, pd := range o.Preds {
		if ip.V[pd.Name] == 0 {
			free = append(free, pd.Name)
		}
	}
	var have []string
	for _, e := range ip.Errs {
		have = append(have, e.String())
	}
	var out []mismatch
	seen := map[string]bool{}
	add := func(m mismatch) {
		k := m.Kind + "|" + m.Detail
		if !seen[k] {
			seen[k] = true
			out = append(out, m)
		}
	}
	n := len(free)
	for mask := 0; mask < 1<<n; mask++ {
		v := map[string]bool{}
		for name, s := range ip.V {
			v[name] = s > 0
		}
		for i, name := range free {
			v[name] = mask&(1<<i) != 0
		}
		if o.Feasible != nil && !o.Feasible(v) {
			continue
		}
		exp := o.Expect(v)
		// where the element is known to be the wildcard, naming the element is
		// naming `*` (an error built from `raw` under `raw == "*"`)
		have := have
		if v["W"] {
			have = nil
			for _, e := range ip.Errs {
				s := e.String()
				s = strings.ReplaceAll(s, "="+tElem+",", `="*",`)
				s = strings.ReplaceAll(s, "="+tElem+"}", `="*"}`)
				have = append(have, s)
			}
		}
		okErrs := sameMultiset(have, exp.Errs)
		for _, alt := range exp.AltErrs {
			if sameMultiset(have, alt) {
				okErrs = true
			}
		}
		if !okErrs {
			missing, extra := diffMultiset(have, exp.Errs)
			if len(missing) > 0 {
				add(mismatch{Path: ip, V: v, Kind: "missing-error", Missing: true, Detail: fmt.Sprintf("expected %v, constructed %v (valuation %s)", exp.Errs, have, fmtVal(v))})
			}
			if len(extra) > 0 {
				add(mismatch{Path: ip, V: v, Kind: "extra-error", Detail: fmt.Sprintf("expected %v, constructed %v (valuation %s)", exp.Errs, have, fmtVal(v))})
			}
		}
		if len(exp.Errs) == 0 && len(have) == 0 {
			// effects matter only when the element is accepted (L0 discards the rest)
			for _, c := range exp.MustCall {
				if !contains(ip.Calls, c) {
					add(mismatch{Path: ip, V: v, Kind: "missing-effect", Missing: true, Detail: fmt.Sprintf("accepted element not recorded: expected call %s, path has %v (valuation %s)", c, ip.Calls, fmtVal(v))})
				}
			}
			for _, c := range ip.Calls {
				if !contains(exp.MustCall, c) && !contains(exp.MayCall, c) {
					add(mismatch{Path: ip, V: v, Kind: "extra-effect", Detail: fmt.Sprintf("unexpected call %s (valuation %s)", c, fmtVal(v))})
				}
			}
			for f, val := range exp.MustStore {
				if ip.Stores[f] != val {
					add(mismatch{Path: ip, V: v, Kind: "flag", Missing: true, Detail: fmt.Sprintf("expected store %s := %s, path stores %v (valuation %s)", f, val, ip.Stores, fmtVal(v))})
				}
			}
			for f, val := range ip.Stores {
				if exp.MustStore[f] != val && exp.MayStore[f] != val {
					add(mismatch{Path: ip, V: v, Kind: "flag", Detail: fmt.Sprintf("unexpected store %s := %s (valuation %s)", f, val, fmtVal(v))})
				}
			}
			for name, val := range exp.MustNext {
				if ip.NextV[name] != val {
					add(mismatch{Path: ip, V: v, Kind: "flag", Missing: true, Detail: fmt.Sprintf("loop-carried %s must become %s, flows on as %s (valuation %s)", name, val, ip.NextV[name], fmtVal(v))})
				}
			}
		}
	}
	return out
}

func contains(s []string, x string) bool {
	for _, y := range s {
		if y == x {
			return true
		}
	}
	return false
}

func fmtVal(v map[string]bool) string {
	var s []string
	for _, k := range sortedKeys(v) {
		if v[k] {
			s = append(s, k)
		} else {
			s = append(s, "!"+k)
		}
	}
	return strings.Join(s, " ")
}

// isEmptySliceTerm: nil, an empty literal, make(T, 0, …) or s[:0] — a slice
// with no elements (its capacity does not matter to what is appended later).
func isEmptySliceTerm(x *Term) bool {
	switch {
	case x.IsConst("nil"):
		return true
	case x.Op == "lit" && len(x.Args) == 0:
		return true
	case x.Op == "mkslice" && len(x.Args) > 0 && x.Args[0].IsConst("0"):
		return true
	case x.Op == "slice" && len(x.Args) == 4 && x.Args[2].IsConst("0") && (x.Args[1].IsConst("_") || x.Args[1].IsConst("0")):
		return true
	}
	return false
}
