package main

// LK — lock typestate over the path summaries of every function that touches
// the Middleware's state.

import (
	"fmt"
	"go/types"
	"strings"

	"golang.org/x/tools/go/ssa"
)

type MwEvent struct {
	Kind  string // lock unlock rlock runlock load store call
	Base  string // key of the *Middleware the field/mutex belongs to
	Field string
	Val   *Term
	Fresh bool // the Middleware was allocated in this function
	Eff   Effect
	State string // lock state when the event happens: U R W
	Sec   int    // number of lock acquisitions before the event (critical-section index; 0 = before any)
}

type MwPath struct {
	*Path
	Events   []MwEvent
	Problems []string
	End      string // lock state at exit
}

type MwFunc struct {
	Fn    *ssa.Function
	Paths []*MwPath
}

type MwTable struct {
	Funcs    map[string]*MwFunc
	Problems []string
	LockFld  string
	PtrFld   string
	FlagFld  string
}

func (ctx *Ctx) MwTable() *MwTable {
	if v, ok := ctx.cache["mwtable"]; ok {
		return v.(*MwTable)
	}
	t := buildMwTable(ctx)
	ctx.cache["mwtable"] = t
	return t
}

func middlewareType(p *Prog) *types.Struct {
	o := p.Pkgs[pkgRoot].Types.Scope().Lookup("Middleware")
	if o == nil {
		return nil
	}
	st, _ := o.Type().Underlying().(*types.Struct)
	return st
}

func buildMwTable(ctx *Ctx) *MwTable {
	p := ctx.P
	t := &MwTable{Funcs: map[string]*MwFunc{}}
	st := middlewareType(p)
	if st == nil {
		t.Problems = append(t.Problems, "type Middleware not found")
		return t
	}
	// state fields by role
	for i := 0; i < st.NumFields(); i++ {
		f := st.Field(i)
		switch {
		case types.TypeString(f.Type(), nil) == "sync.RWMutex" || types.TypeString(f.Type(), nil) == "sync.Mutex":
			if t.LockFld != "" {
				t.Problems = append(t.Problems, "two mutexes in Middleware")
			}
			t.LockFld = f.Name()
		case isNamedPtr(f.Type(), pkgRoot, "internalConfig"):
			t.PtrFld = f.Name()
		case types.TypeString(f.Type(), nil) == "bool":
			t.FlagFld = f.Name()
		default:
			t.Problems = append(t.Problems, "Middleware has a field the state rules do not know: "+f.Name())
		}
	}
	if t.LockFld == "" || t.PtrFld == "" || t.FlagFld == "" {
		t.Problems = append(t.Problems, "Middleware state fields (mutex, configuration pointer, debug flag) not all found")
		return t
	}
	val := ctx.Validation()
	opaque := map[*ssa.Function]bool{}
	if val.Builder != nil {
		opaque[val.Builder] = true
	}
	if nc := p.Func(pkgRoot, "newConfig"); nc != nil {
		opaque[nc] = true
	}
	policy := func(fn *ssa.Function) Policy {
		if opaque[fn] {
			return PolEffect
		}
		return p.DefaultPolicy(fn)
	}
	// a function touches the state when it addresses a field of a Middleware
	// itself or through a module function it calls statically (a snapshot
	// helper, say), which the summary inlines
	touchMemo := map[*ssa.Function]bool{}
	var touches func(fn *ssa.Function) bool
	touches = func(fn *ssa.Function) bool {
		if v, ok := touchMemo[fn]; ok {
			return v
		}
		touchMemo[fn] = false
		res := false
		for _, b := range fn.Blocks {
			for _, ins := range b.Instrs {
				if fa, ok := ins.(*ssa.FieldAddr); ok {
					if isNamedPtr(fa.X.Type(), pkgRoot, "Middleware") {
						res = true
					}
				}
				if c, ok := ins.(ssa.CallInstruction); ok {
					if callee := c.Common().StaticCallee(); callee != nil && p.InModule(callee) && !opaque[callee] && len(callee.Blocks) > 0 && policy(callee) == PolInline && touches(callee) {
						res = true
					}
				}
			}
		}
		touchMemo[fn] = res
		return res
	}
	for _, fn := range p.Funcs {
		if !touches(fn) {
			continue
		}
		if hasLoop(fn) {
			t.Problems = append(t.Problems, funcName(fn)+" touches Middleware state inside a function with a loop")
			continue
		}
		x := p.NewExec(policy)
		x.TraceLoad = func(a *Term) bool {
			return a.Op == "faddr" && isNamedPtr(a.Args[0].Type, pkgRoot, "Middleware") && a.Name != t.LockFld
		}
		paths := x.Summarize(fn)
		t.Problems = append(t.Problems, x.Problems...)
		mf := &MwFunc{Fn: fn}
		for _, pa := range paths {
			mf.Paths = append(mf.Paths, t.events(pa))
		}
		t.Funcs[funcName(fn)] = mf
	}
	return t
}

func (t *MwTable) events(pa *Path) *MwPath {
	mp := &MwPath{Path: pa}
	state := "U"
	held := ""
	sec := 0
	isMw := func(a *Term) bool { return a.Op == "faddr" && isNamedPtr(a.Args[0].Type, pkgRoot, "Middleware") }
	for _, e := range pa.Effects {
		switch {
		case e.Kind == "call" && (strings.HasPrefix(e.Name, "(*sync.RWMutex).") || strings.HasPrefix(e.Name, "(*sync.Mutex).")):
			op := e.Name[strings.LastIndex(e.Name, ".")+1:]
			a := e.Args[0]
			base := ""
			if isMw(a) && a.Name == t.LockFld {
				base = a.Args[0].Key()
			} else {
				mp.Problems = append(mp.Problems, "mutex operation on something other than the Middleware's lock: "+e.String())
			}
			if op == "Lock" || op == "RLock" {
				sec++
			}
			ev := MwEvent{Kind: strings.ToLower(op), Base: base, Eff: e, State: state, Sec: sec}
			switch op {
			case "Lock":
				if state != "U" {
					mp.Problems = append(mp.Problems, "Lock while already holding the lock @"+e.At)
				}
				state, held = "W", base
			case "RLock":
				if state != "U" {
					mp.Problems = append(mp.Problems, "RLock while already holding the lock @"+e.At)
				}
				state, held = "R", base
			case "Unlock":
				if state != "W" || held != base {
					mp.Problems = append(mp.Problems, "Unlock without matching Lock @"+e.At)
				}
				state, held = "U", ""
			case "RUnlock":
				if state != "R" || held != base {
					mp.Problems = append(mp.Problems, "RUnlock without matching RLock @"+e.At)
				}
				state, held = "U", ""
			default:
				mp.Problems = append(mp.Problems, "unsupported mutex operation "+op)
			}
			mp.Events = append(mp.Events, ev)
		case e.Kind == "store" && isNamedPtr(e.Args[0].Type, pkgRoot, "Middleware") && e.Args[0].Op != "alloc":
			// `*m = Middleware{…}`: every field is written at once — the
			// guarded ones without regard to the lock, and the lock itself
			mp.Problems = append(mp.Problems, "the Middleware is overwritten as a whole (its mutex included) @"+e.At)
			for _, f := range []string{t.PtrFld, t.FlagFld} {
				mp.Events = append(mp.Events, MwEvent{Kind: "store", Base: e.Args[0].Key(), Field: f, Eff: e, State: state, Sec: sec, Val: &Term{Op: "opaque", Name: "whole-struct"}})
			}
		case (e.Kind == "load" || e.Kind == "store") && isMw(e.Args[0]):
			a := e.Args[0]
			ev := MwEvent{Kind: e.Kind, Base: a.Args[0].Key(), Field: a.Name, Eff: e, State: state, Sec: sec, Fresh: a.Args[0].Op == "alloc"}
			if e.Kind == "store" {
				ev.Val = e.Args[1]
			} else {
				ev.Val = e.Res
			}
			if ev.Base != held && state != "U" && !ev.Fresh {
				mp.Problems = append(mp.Problems, "field of one Middleware accessed under the lock of another @"+e.At)
			}
			mp.Events = append(mp.Events, ev)
		case e.Kind == "invoke" || e.Kind == "dyncall" || e.Kind == "call" || e.Kind == "go" || e.Kind == "defer":
			mp.Events = append(mp.Events, MwEvent{Kind: "call", Eff: e, State: state, Sec: sec})
		}
	}
	mp.End = state
	return mp
}

func (mp *MwPath) describe() string {
	return fmt.Sprintf("%s{%s}", funcName(mp.Fn), mp.AtomString())
}
