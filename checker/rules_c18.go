package main

// AL — allocation-site engine. Allocation sites are taken from the Go
// compiler's own escape analysis (`go build -gcflags=-m`: "escapes to heap",
// "moved to heap") and from SSA instructions that may allocate regardless;
// the rule forbids any of them inside a loop of the request path, or in any
// function called from such a loop.

import (
	"bufio"
	"bytes"
	"fmt"
	"go/token"
	"go/types"
	"os"
	"os/exec"
	"path/filepath"
	"regexp"
	"sort"
	"strconv"
	"strings"

	"golang.org/x/tools/go/ssa"
)

func init() { registry["C18"] = checkC18 }

// external functions on the request path and their allocation behaviour:
// "0" never allocates, "c" allocates a number of times bounded by a constant
// independent of its arguments' sizes.
var allocTable = map[string]string{
	"strings.IndexByte": "0", "strings.CutPrefix": "0", "strings.Cut": "0", "strings.CutSuffix": "0", "strings.Index": "0", "strings.IndexRune": "0",
	"strings.Contains": "0", "strings.ContainsRune": "0", "strings.LastIndexByte": "0", "strings.TrimPrefix": "0", "strings.HasPrefix": "0", "strings.TrimSuffix": "0", "strings.HasSuffix": "0",
	"slices.BinarySearch": "0", "(*sync.RWMutex).RLock": "0", "(*sync.RWMutex).RUnlock": "0",
	"(http.Header).Add": "c", "(http.Header).Set": "c", "maps.Copy": "c",
}

type escapeSite struct {
	File string
	Line int
	Msg  string
}

var escRe = regexp.MustCompile(`^(.+\.go):(\d+):(\d+): (.*)$`)

func compilerEscapes(dir string) ([]escapeSite, error) {
	cmd := exec.Command("go", "build", "-gcflags=-m", "./...")
	cmd.Dir = dir
	cmd.Env = append(os.Environ(), "GOFLAGS=-mod=mod", "GOPROXY=off", "GOSUMDB=off", "GOWORK=off")
	var out bytes.Buffer
	cmd.Stderr = &out
	cmd.Stdout = &out
	if err := cmd.Run(); err != nil {
		return nil, fmt.Errorf("go build -gcflags=-m failed: %v: %s", err, firstLines(out.String(), 5))
	}
	var sites []escapeSite
	sc := bufio.NewScanner(&out)
	sc.Buffer(make([]byte, 1<<20), 1<<20)
	n := 0
	for sc.Scan() {
		m := escRe.FindStringSubmatch(sc.Text())
		if m == nil {
			continue
		}
		n++
		msg := m[4]
		if strings.Contains(msg, "does not escape") || strings.HasPrefix(msg, "can inline") || strings.HasPrefix(msg, "inlining call") || strings.HasPrefix(msg, "leaking param") {
			continue
		}
		if strings.Contains(msg, "escapes to heap") || strings.Contains(msg, "moved to heap") {
			line, _ := strconv.Atoi(m[2])
			f := m[1]
			if !filepath.IsAbs(f) {
				f = filepath.Join(dir, f)
			}
			rel, _ := filepath.Rel(dir, f)
			sites = append(sites, escapeSite{File: rel, Line: line, Msg: msg})
		}
	}
	if n == 0 {
		return nil, fmt.Errorf("the compiler printed no escape-analysis diagnostics (is the module built with -gcflags=-m?)")
	}
	return sites, nil
}

func firstLines(s string, n int) string {
	ls := strings.Split(s, "\n")
	if len(ls) > n {
		ls = ls[:n]
	}
	return strings.Join(ls, " | ")
}

// loopBlocks returns the blocks of fn that belong to some natural loop.
func loopBlocks(fn *ssa.Function) map[*ssa.BasicBlock]bool {
	in := map[*ssa.BasicBlock]bool{}
	for _, b := range fn.Blocks {
		for _, h := range b.Succs {
			if !h.Dominates(b) {
				continue
			}
			// natural loop of back edge b -> h
			in[h] = true
			stack := []*ssa.BasicBlock{b}
			for len(stack) > 0 {
				x := stack[len(stack)-1]
				stack = stack[:len(stack)-1]
				if in[x] && x != b {
					continue
				}
				in[x] = true
				if x == h {
					continue
				}
				for _, p := range x.Preds {
					if !in[p] {
						stack = append(stack, p)
					}
				}
			}
		}
	}
	return in
}

// mayAllocate describes why an SSA instruction may allocate ("" if it cannot).
func mayAllocate(ins ssa.Instruction) string {
	switch v := ins.(type) {
	case *ssa.Alloc:
		if v.Heap {
			return "" // decided by the compiler's escape analysis, consulted separately
		}
	case *ssa.MakeMap:
		return "make(map)"
	case *ssa.MakeSlice:
		return "make(slice)"
	case *ssa.MakeChan:
		return "make(chan)"
	case *ssa.MakeClosure:
		return "closure creation"
	case *ssa.Go:
		return "go statement"
	case *ssa.Defer:
		return "defer"
	case *ssa.BinOp:
		if v.Op == token.ADD {
			if b, ok := v.Type().Underlying().(*types.Basic); ok && b.Info()&types.IsString != 0 {
				return "string concatenation"
			}
		}
	case *ssa.Convert:
		from, to := v.X.Type().Underlying(), v.Type().Underlying()
		_, fs := from.(*types.Slice)
		_, ts := to.(*types.Slice)
		fb, fIsB := from.(*types.Basic)
		tb, tIsB := to.(*types.Basic)
		if fs && tIsB && tb.Info()&types.IsString != 0 {
			return "[]byte→string conversion"
		}
		if ts && fIsB && fb.Info()&types.IsString != 0 {
			return "string→[]byte conversion"
		}
		if fIsB && tIsB && fb.Info()&types.IsInteger != 0 && tb.Info()&types.IsString != 0 {
			return "integer→string conversion"
		}
	case *ssa.MakeInterface:
		if _, isPtr := v.X.Type().Underlying().(*types.Pointer); !isPtr {
			if _, isC := v.X.(*ssa.Const); !isC {
				return "boxing into an interface"
			}
		}
	case *ssa.Call:
		if b, ok := v.Common().Value.(*ssa.Builtin); ok && b.Name() == "append" {
			return "append"
		}
	}
	return ""
}

func checkC18(ctx *Ctx) *Result {
	r := newResult("C18")
	r.Explanation = "Decided for every request and configuration: the number of heap allocations of the middleware is bounded by a constant because (R18.1) no allocation site — as determined by the Go compiler's escape analysis (`escapes to heap`, `moved to heap`) or by an SSA instruction that may allocate regardless (append, make, string concatenation, string/[]byte conversion, boxing, closure creation, go/defer) — lies inside a loop of any function reachable from the request closure, nor anywhere in a function called from such a loop, and the call graph of the request path is acyclic; (R18.2) every library function called on the request path is in an audited table with a zero or constant allocation count, and those called from loops are zero-allocation; (R18.3) values echoed into the response are the request's own slices (provenance tags), never copies; (R18.4) the local buffer map has at most as many distinct constant keys as its size hint. The remaining allocation sites are straight-line, hence executed at most once per request."
	r.NotDecided = "the value of the constant; allocations performed by net/http itself and by the user's ResponseWriter/Handler"
	r.Trusted = []string{"the Go compiler's escape analysis (gc, -gcflags=-m)", "go/ssa construction", "the audited allocation table for strings, slices, sync, net/http.Header, maps.Copy", "the write-effect engine's static call graph (the only dynamic calls on the request path are on http.ResponseWriter / http.Handler)"}
	r.rule("R18.1", "no allocation site inside a loop of the request path nor in a function called from such a loop; request-path call graph acyclic", 5)
	r.rule("R18.2", "library callees on the request path are in the audited allocation table; those called from loops never allocate", 5)
	r.rule("R18.3", "echo by reference: request-derived header values are the request's own slices", 50)
	r.rule("R18.4", "the local buffer map holds at most as many constant keys as its size hint", 1)

	cl, err := wrapClosure(ctx.P)
	if err != nil {
		r.undecided("R18.1", "request-closure", err.Error())
		return r
	}
	we := ctx.WE()
	reach := we.Reach(cl)
	esc, err := compilerEscapes(ctx.P.Dir)
	if err != nil {
		r.undecided("R18.1", "compiler escape analysis", err.Error())
		return r
	}
	escAt := map[string][]escapeSite{}
	for _, s := range esc {
		escAt[s.File] = append(escAt[s.File], s)
	}
	// acyclicity of the request-path call graph
	state := map[*ssa.Function]int{}
	cycle := ""
	var dfs func(f *ssa.Function)
	dfs = func(f *ssa.Function) {
		state[f] = 1
		for _, c := range we.callees[f] {
			switch state[c] {
			case 0:
				dfs(c)
			case 1:
				cycle = funcName(f) + " → " + funcName(c)
			}
		}
		state[f] = 2
	}
	dfs(cl)
	r.check(cycle == "", "R18.1", "request-path call graph is acyclic", "", "recursion on the request path: "+cycle, len(reach))

	// functions called from loops (transitively)
	inLoopFns := map[*ssa.Function]string{}
	type loopInfo struct {
		fn       *ssa.Function
		blocks   map[*ssa.BasicBlock]bool
		file     string
		min, max int
	}
	var loops []loopInfo
	extInLoop := map[string]string{}
	extAll := map[string]string{}
	for _, f := range reach {
		r.fn(funcName(f))
		lb := loopBlocks(f)
		li := loopInfo{fn: f, blocks: lb, min: 1 << 30}
		for _, b := range f.Blocks {
			for _, ins := range b.Instrs {
				if c, ok := ins.(ssa.CallInstruction); ok {
					callee := c.Common().StaticCallee()
					switch {
					case callee != nil && ctx.P.InModule(callee) && len(callee.Blocks) > 0:
						if lb[b] {
							for _, g := range we.Reach(callee) {
								if _, seen := inLoopFns[g]; !seen {
									inLoopFns[g] = funcName(f)
								}
							}
						}
					case callee != nil:
						extAll[funcName(callee)] = funcName(f)
						if lb[b] {
							extInLoop[funcName(callee)] = funcName(f)
						}
					case c.Common().IsInvoke():
						if lb[b] {
							extInLoop["invoke "+c.Common().Method.Name()] = funcName(f)
						}
					default:
						if _, isB := c.Common().Value.(*ssa.Builtin); !isB && lb[b] {
							extInLoop["dynamic call"] = funcName(f)
						}
					}
				}
				if lb[b] && ins.Pos().IsValid() {
					pos := ctx.P.Fset.Position(ins.Pos())
					rel, _ := filepath.Rel(ctx.P.Dir, pos.Filename)
					li.file = rel
					if pos.Line < li.min {
						li.min = pos.Line
					}
					if pos.Line > li.max {
						li.max = pos.Line
					}
				}
			}
		}
		if len(lb) > 0 {
			loops = append(loops, li)
		}
	}
	// R18.1 (a): loop blocks
	for _, li := range loops {
		bad := ""
		n := 0
		for b := range li.blocks {
			for _, ins := range b.Instrs {
				n++
				if why := mayAllocate(ins); why != "" {
					bad = fmt.Sprintf("%s inside a loop @%s", why, ctx.P.Pos(ins.Pos()))
				}
			}
		}
		for _, s := range escAt[li.file] {
			if s.Line >= li.min && s.Line <= li.max {
				bad = fmt.Sprintf("compiler: %s inside a loop (%s:%d)", s.Msg, s.File, s.Line)
			}
		}
		r.check(bad == "", "R18.1", fmt.Sprintf("loops of %s (lines %d-%d)", funcName(li.fn), li.min, li.max), ctx.P.Pos(li.fn.Pos()),
			"an allocation is repeated with the size of attacker-controlled input: "+bad, n)
	}
	// R18.1 (b): functions called from loops must not allocate at all
	var names []string
	for f := range inLoopFns {
		names = append(names, funcName(f))
	}
	sort.Strings(names)
	for f, from := range inLoopFns {
		bad := ""
		n := 0
		minL, maxL, file := 1<<30, 0, ""
		for _, b := range f.Blocks {
			for _, ins := range b.Instrs {
				n++
				if why := mayAllocate(ins); why != "" {
					bad = fmt.Sprintf("%s @%s", why, ctx.P.Pos(ins.Pos()))
				}
				if ins.Pos().IsValid() {
					pos := ctx.P.Fset.Position(ins.Pos())
					file, _ = filepath.Rel(ctx.P.Dir, pos.Filename)
					if pos.Line < minL {
						minL = pos.Line
					}
					if pos.Line > maxL {
						maxL = pos.Line
					}
				}
			}
		}
		for _, s := range escAt[file] {
			if s.Line >= minL && s.Line <= maxL {
				bad = fmt.Sprintf("compiler: %s (%s:%d)", s.Msg, s.File, s.Line)
			}
		}
		r.check(bad == "", "R18.1", fmt.Sprintf("%s (called from a loop of %s)", funcName(f), from), ctx.P.Pos(f.Pos()),
			"a function called from a request-path loop allocates: "+bad, n)
	}
	// R18.2
	for _, name := range sortedKeys(extAll) {
		kind, ok := allocTable[name]
		good := ok
		detail := "library function " + name + " (called by " + extAll[name] + ") is not in the audited allocation table"
		if from, inLoop := extInLoop[name]; inLoop && kind != "0" {
			good = false
			detail = "library function " + name + " is called from a loop of " + from + " and is not known to be allocation-free"
		}
		r.check(good, "R18.2", name, "", detail, 1)
	}
	for name, from := range extInLoop {
		if _, known := extAll[name]; !known {
			r.fail("R18.2", name, "", "interface or dynamic call inside a request-path loop of "+from)
		}
	}
	// R18.3 / R18.4 on the path table
	rt, ok := requestTableGuards(ctx, r)
	if ok {
		maxKeys := 0
		for _, rp := range rt.Paths {
			bad := ""
			keys := map[string]bool{}
			for _, w := range rp.Writes {
				if w.ViaBuf {
					keys[w.Key] = true
				}
				if len(headerDeps(w.Tag)) > 0 && !strings.HasPrefix(w.Tag, "hdr1(") && !strings.HasPrefix(w.Tag, "hdrs(") {
					bad = "request data is copied or rebuilt before being echoed: " + w.String()
				}
			}
			for _, w := range rp.BufLeft {
				keys[w.Key] = true
			}
			if len(keys) > maxKeys {
				maxKeys = len(keys)
			}
			if len(rp.Writes) > 0 {
				r.check(bad == "", "R18.3", rp.Describe(), "", bad, len(rp.Writes))
			}
		}
		hint := int64(-1)
		for _, rp := range rt.Paths {
			for _, a := range rp.Allocs {
				if a.Kind == "alloc" && a.Name == "makemap" {
					// the size hint is the MakeMap's reserve operand; recover it from SSA
					hint = makeMapHint(rt.Closure, ctx)
				}
			}
			if hint >= 0 {
				break
			}
		}
		r.check(hint >= int64(maxKeys) && maxKeys > 0, "R18.4", "buffer map", "", fmt.Sprintf("the buffer map is sized for %d keys but paths write up to %d distinct keys", hint, maxKeys), maxKeys)
	}
	r.sample(map[string]any{"functions_on_request_path": len(reach), "functions_with_loops": len(loops), "functions_called_from_loops": names, "compiler_escape_sites_in_module": len(esc), "library_callees": sortedKeys(extAll)})
	return r
}

// makeMapHint finds the constant size hint of the buffer map created on the
// request path.
func makeMapHint(cl *ssa.Function, ctx *Ctx) int64 {
	best := int64(-1)
	for _, f := range ctx.WE().Reach(cl) {
		for _, b := range f.Blocks {
			for _, ins := range b.Instrs {
				if mm, ok := ins.(*ssa.MakeMap); ok && mm.Reserve != nil {
					if c, ok := mm.Reserve.(*ssa.Const); ok {
						best = c.Int64()
					}
				}
			}
		}
	}
	return best
}
