package main

import (
	"flag"
	"fmt"
	"os"
	"strings"
)

func main() {
	var (
		dir      = flag.String("repo", "/repo", "repository to analyse")
		property = flag.String("property", "", "property id (C01..C19) or 'all'")
		tier     = flag.String("tier", "quick", "quick|thorough")
		dump     = flag.String("dump", "", "dump path summaries of a function: pkg:name")
		explain  = flag.String("explain", "", "print a report file")
		verifDir = flag.String("verif", "/verif", "verification directory (evidence, reports, known findings)")
	)
	flag.Parse()
	if *explain != "" {
		b, err := os.ReadFile(*explain)
		if err != nil {
			fmt.Println(err)
			os.Exit(2)
		}
		os.Stdout.Write(b)
		return
	}
	if *dump != "" {
		p, err := Load(*dir, nil, "")
		if err != nil {
			fmt.Println("UNDECIDED:", err)
			os.Exit(1)
		}
		if *dump == "idents" {
			os.Stdout.Write(dumpInventory(p.Pkgs))
			fmt.Println()
			return
		}
		if *dump == "validators" {
			ctx := &Ctx{P: p, Tier: *tier, VerifDir: *verifDir, cache: map[string]any{}}
			v := ctx.Validation()
			fmt.Println("builder:", funcName(v.Builder), "paths:", len(v.BuilderTab), "problems:", v.Problems)
			for _, f := range sortedKeys(v.Lists) {
				t := v.Lists[f]
				fmt.Printf("== %s: %s list=%s hdr=%s errs=%s entry=%d iter=%d exit=%d problems=%v\n", f, funcName(t.Fn), t.List, t.Hdr, t.ErrsPhi, len(t.Entry), len(t.Iter), len(t.Exit), t.Problems)
				for i, ip := range t.Iter {
					var as []string
					for _, a := range ip.Atoms {
						pre := ""
						if !a.Pos {
							pre = "!"
						}
						as = append(as, pre+t.tag(a.T))
					}
					fmt.Printf("  iter %d: %s\n      errs=%v ok=%v calls=%v stores=%v next=%v other=%v\n", i, strings.Join(as, " ∧ "), ip.Errs, ip.ErrsOK, ip.Calls, ip.Stores, ip.NextV, ip.Other)
				}
				for i, pa := range append(append([]*Path{}, t.Entry...), t.Exit...) {
					var as []string
					for _, a := range pa.Atoms {
						pre := ""
						if !a.Pos {
							pre = "!"
						}
						as = append(as, pre+t.tag(a.T))
					}
					var es []string
					for _, e := range pa.Effects[pa.PreEff:] {
						if e.Kind == "store" {
							es = append(es, t.tag(e.Args[0])+":="+t.tag(e.Args[1]))
						} else if e.Kind != "enter" {
							es = append(es, e.Kind+" "+e.Name)
						}
					}
					var rs []string
					for _, r := range pa.Rets {
						rs = append(rs, t.tag(r))
					}
					fmt.Printf("  seg %d %s→%s: %s\n      eff=%v ret=%v\n", i, pa.Start, pa.End, strings.Join(as, " ∧ "), es, rs)
				}
			}
			for f, fn := range v.Ints {
				fmt.Println("int validator", f, funcName(fn))
			}
			return
		}
		if *dump == "reqtable" {
			ctx := &Ctx{P: p, Tier: *tier, VerifDir: *verifDir, cache: map[string]any{}}
			rt := ctx.RequestTable()
			names := map[string]int{}
			tags := map[string]int{}
			for _, rp := range rt.Paths {
				for n := range rp.A {
					names[n]++
				}
				for _, w := range rp.Writes {
					tags[w.Op+" "+w.Key+" := "+w.Tag]++
				}
				tags["status "+rp.StatusTag]++
				for _, u := range rp.Unknown {
					tags["UNKNOWN "+u]++
				}
			}
			for _, n := range sortedKeys(names) {
				fmt.Printf("atom %-80s %d\n", n, names[n])
			}
			for _, n := range sortedKeys(tags) {
				fmt.Printf("tag  %-80s %d\n", n, tags[n])
			}
			fmt.Println(len(rt.Paths), "paths; problems:", rt.Problems, rt.Funcs)
			return
		}
		parts := strings.SplitN(*dump, ":", 2)
		pkg := modPath
		if parts[0] != "" && parts[0] != "." {
			pkg += "/" + parts[0]
		}
		fn := p.Func(pkg, parts[1])
		if fn == nil {
			// closures: name$1
			for _, f := range p.Funcs {
				if f.Name() == parts[1] || f.String() == parts[1] {
					fn = f
				}
			}
		}
		if fn == nil {
			fmt.Println("no such function")
			os.Exit(2)
		}
		x := p.NewExec(nil)
		if os.Getenv("DUMP_POLICY") == "radix" {
			x = p.NewExec(p.RadixPolicy)
			x.FieldsWritten = newWE(p).FieldsWritten
		}
		paths := x.Summarize(fn)
		for i, pa := range paths {
			fmt.Printf("--- path %d [%s→%s pre=%d] blocks=%v\n", i, pa.Start, pa.End, pa.Pre, pa.Blocks)
			for j, a := range pa.Atoms {
				m := " "
				if j < pa.PreAt {
					m = "^"
				}
				fmt.Printf("   %s atom %s   (%s)\n", m, a, a.At)
			}
			for j, e := range pa.Effects {
				m := " "
				if j < pa.PreEff {
					m = "^"
				}
				fmt.Printf("   %s eff  %s\n", m, e)
			}
			for _, r := range pa.Rets {
				fmt.Printf("     ret  %s\n", r)
			}
		}
		for _, pr := range x.Problems {
			fmt.Println("PROBLEM:", pr)
		}
		fmt.Printf("%d paths\n", len(paths))
		return
	}
	os.Exit(runProperties(*dir, *verifDir, *property, *tier))
}
