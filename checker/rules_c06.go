package main

import (
	"fmt"
	"go/types"
	"regexp"
	"strings"
)

func init() { registry["C06"] = checkC06 }

var cfgFieldRe = regexp.MustCompile(`cfg\.([A-Za-z0-9_]+)`)

func checkC06(ctx *Ctx) *Result {
	r := newResult("C06")
	r.Explanation = "Necessary conditions of the round trip, decided structurally (that re-validating the rendered Config yields a configuration with identical responses is NOT decided): (R6.1) field coverage — every field of the internal configuration that the request path consults is rendered by Config() (or is derived: everything stored into it also flows into a rendered field), every exported Config/ExtraConfig field is consulted by validation and written by the rendering; (R6.2) plumbing — Config() hands the pointer read under the lock to the rendering function and returns its result; NewMiddleware and Reconfigure obtain the stored configuration from the same builder; (R6.3) printer = inverse of the parsers — every entry of the origin tree is rendered as scheme://[*]host[:port|:*] with the port code decoded by the same offset the writer used, the scheme paired with its own port list, and the brackets that both host lexers strip from IPv6 literals restored exactly when the accumulated host contains a colon; Tree.Elems visits the whole tree; (R6.4) rendering table of the scalar and list fields — each internal field is mapped back to the documented spelling that validation maps to it (`*`, `*,authorization` only for anonymous configurations, -1 ↔ \"0\", status only when not the default, flags copied)."
	r.NotDecided = "round-trip equality over runtime values: that Reconfigure(Config()) succeeds and changes no response for every accepted configuration (tree re-insertion, subsumption, sorting, re-validation of rendered names)"
	r.Trusted = append([]string{"strconv.Itoa/Atoi and strings.Split/Join are mutual inverses on the values involved"}, trustedValidation...)
	p := ctx.P
	r.rule("R6.1", "field coverage between request path, validation and rendering", 15)
	r.rule("R6.2", "plumbing of Config(), NewMiddleware and Reconfigure", 2)
	r.rule("R6.3", "origin printer is the inverse of the parsers (wildcard, port code, IPv6 brackets); Elems visits the whole tree", 3)
	r.rule("R6.4", "rendering table of newConfig", 100)

	nc := p.Func(pkgRoot, "newConfig")
	if nc == nil || hasLoop(nc) || len(nc.Params) != 1 {
		r.undecided("R6.4", "newConfig", "rendering function not found or not loop-free")
		return r
	}
	x := p.NewExec(nil)
	paths := x.Summarize(nc)
	r.Paths += len(paths)
	r.fn(funcName(nc))
	if len(x.Problems) > 0 {
		r.undecided("R6.4", "newConfig", strings.Join(x.Problems, ";"))
		return r
	}
	tg := &ValidatorTable{Recv: nc.Params[0].Name(), List: "\x00"}
	// ---- R6.4 -----------------------------------------------------------
	rendered := map[string]bool{} // internal fields read by the rendering
	written := map[string]bool{}  // Config fields written
	for _, pa := range paths {
		if len(pa.Rets) != 1 {
			r.fail("R6.4", "newConfig path", "", "unexpected arity")
			continue
		}
		var as []string
		val := map[string]int{}
		for _, a := range pa.Atoms {
			g := tg.tag(a.T)
			for _, m := range cfgFieldRe.FindAllStringSubmatch(g, -1) {
				rendered[m[1]] = true
			}
			v := -1
			if a.Pos {
				v = 1
			}
			val[g] = v
			if !a.Pos {
				g = "!" + g
			}
			as = append(as, g)
		}
		desc := "newConfig{" + strings.Join(as, " ∧ ") + "}"
		if val["bin:==(param:"+tg.Recv+",nil)"] == 1 {
			r.check(pa.Rets[0].IsConst("nil") && len(pa.Effects) == 0, "R6.4", desc, "", "a passthrough middleware's Config() is not nil", 1)
			continue
		}
		stores := map[string]string{}
		for _, e := range pa.Effects {
			if e.Kind != "store" || e.Args[0].Op != "faddr" {
				continue
			}
			root := e.Args[0].addrRoot()
			if root == nil || root.Op != "alloc" || !isNamedPtr(root.Type, pkgRoot, "Config") {
				continue
			}
			f := e.Args[0].Name
			// a struct-valued field assigned as a whole (cfg.ExtraConfig =
			// ExtraConfig{…}) writes each of its fields
			if v := e.Args[1]; v.Op == "composite" {
				for k, name := range strings.Split(v.Name, ",") {
					if k < len(v.Args) {
						g := tg.tag(v.Args[k])
						stores[name] = g
						written[name] = true
						for _, m := range cfgFieldRe.FindAllStringSubmatch(g, -1) {
							rendered[m[1]] = true
						}
					}
				}
				continue
			}
			g := tg.tag(e.Args[1])
			stores[f] = g
			written[f] = true
			for _, m := range cfgFieldRe.FindAllStringSubmatch(g, -1) {
				rendered[m[1]] = true
			}
		}
		if pa.Rets[0].Op != "alloc" || !isNamedPtr(pa.Rets[0].Type, pkgRoot, "Config") {
			r.fail("R6.4", desc, "", "the rendering does not return a freshly built Config")
			continue
		}
		get := func(tag string) int { return val[tag] }
		bad := ""
		expect := func(field, want string) {
			// (storing a field's zero value into the fresh Config is leaving it unset)
			switch stores[field] {
			case "nil", "0", "false", `""`:
				stores[field] = ""
			}
			if stores[field] != want && bad == "" {
				got := stores[field]
				if got == "" {
					got = "<unset>"
				}
				if want == "" {
					want = "<unset>"
				}
				bad = fmt.Sprintf("Config.%s is rendered as %s, expected %s", field, got, want)
			}
		}
		// origins
		switch get("(*origins.Tree).IsEmpty(&cfg.tree)") {
		case 1:
			expect("Origins", `["*"]`)
		case -1:
			expect("Origins", "(*origins.Tree).Elems(&cfg.tree)")
		default:
			bad = "the rendering of Origins does not depend on whether the tree is empty"
		}
		expect("Credentialed", "cfg.credentialed")
		// methods
		sizeM := tri(get("bin:<(0,(util.Set).Size(cfg.allowedMethods))"), -get("bin:==((util.Set).Size(cfg.allowedMethods),0)"))
		switch {
		case get("cfg.allowAnyMethod") == 1:
			expect("Methods", `["*"]`)
		case get("cfg.allowAnyMethod") == -1 && sizeM == 1:
			expect("Methods", "(util.Set).ToSlice(cfg.allowedMethods)")
		case get("cfg.allowAnyMethod") == -1 && sizeM == -1:
			expect("Methods", "")
		default:
			bad = "the rendering of Methods does not follow allowAnyMethod / the discrete set"
		}
		// request headers: enumerate the untested flags
		cred, ast, aa := get("cfg.credentialed"), get("cfg.asteriskReqHdrs"), get("cfg.allowAuthorization")
		sizeH := tri(get("bin:<(0,(util.SortedSet).Size(cfg.allowedReqHdrs))"), -get("bin:==((util.SortedSet).Size(cfg.allowedReqHdrs),0)"))
		wants := map[string]bool{}
		for _, c := range vals(cred) {
			for _, s := range vals(ast) {
				for _, a := range vals(aa) {
					for _, z := range vals(sizeH) {
						switch {
						case !c && s && a:
							wants[`["*","authorization"]`] = true
						case s:
							wants[`["*"]`] = true
						case z:
							wants["(util.SortedSet).ToSlice(cfg.allowedReqHdrs)"] = true
						default:
							wants[""] = true
						}
					}
				}
			}
		}
		if len(wants) != 1 {
			bad = "the rendering of RequestHeaders does not determine `*` / `*,authorization` / discrete names on this path"
		} else {
			for w := range wants {
				expect("RequestHeaders", w)
			}
		}
		// max age
		hasMA := tri(get("bin:<(0,len:builtin.len(cfg.acma))"), -get("bin:==(len:builtin.len(cfg.acma),0)"))
		if hasMA == 0 {
			hasMA = -get("bin:==(cfg.acma,nil)")
		}
		atoi := "strconv.Atoi(*&cfg.acma[0])#0"
		switch {
		case hasMA == -1:
			expect("MaxAgeInSeconds", "")
		case hasMA == 1 && get("bin:==("+atoi+",0)") == -1:
			expect("MaxAgeInSeconds", atoi)
		case hasMA == 1 && get("bin:==("+atoi+",0)") == 1:
			expect("MaxAgeInSeconds", "-1")
		default:
			bad = "the rendering of MaxAgeInSeconds does not invert the max-age encoding (absent ↔ 0, \"0\" ↔ -1, n ↔ n)"
		}
		// response headers
		hasEH := tri(get("bin:<(0,len:builtin.len(cfg.aceh))"), -get(`bin:==(cfg.aceh,"")`))
		switch hasEH {
		case 1:
			expect("ResponseHeaders", `strings.Split(cfg.aceh,",")`)
		case -1:
			expect("ResponseHeaders", "")
		default:
			bad = "the rendering of ResponseHeaders does not depend on the exposed-header value"
		}
		// status
		dflt := tri(get("bin:==(bin:+(cfg.preflightStatusMinus200,200),204)"), get("bin:==(cfg.preflightStatusMinus200,4)"))
		if dflt == 0 {
			dflt = get("bin:==(bin:+(conv:int(cfg.preflightStatusMinus200),200),204)")
		}
		switch dflt {
		case 1:
			expect("PreflightSuccessStatus", "")
		case -1:
			expect("PreflightSuccessStatus", "bin:+(conv:int(cfg.preflightStatusMinus200),200)")
		default:
			bad = "the rendering of PreflightSuccessStatus does not compare with the default status"
		}
		expect("PrivateNetworkAccess", "cfg.privateNetworkAccess")
		expect("PrivateNetworkAccessInNoCORSModeOnly", "cfg.privateNetworkAccessNoCors")
		expect("DangerouslyTolerateInsecureOrigins", "cfg.insecureOrigins")
		expect("DangerouslyTolerateSubdomainsOfPublicSuffixes", "cfg.subsOfPublicSuffixes")
		r.check(bad == "", "R6.4", desc, "", bad, len(stores))
	}

	// ---- R6.1 -----------------------------------------------------------
	rt := ctx.RequestTable()
	if rt.Closure == nil || len(rt.Problems) > 0 {
		r.undecided("R6.1", "request table", strings.Join(rt.Problems, "; "))
	} else {
		used := map[string]bool{}
		for _, rp := range rt.Paths {
			for n := range rp.A {
				for _, m := range cfgFieldRe.FindAllStringSubmatch(n, -1) {
					used[m[1]] = true
				}
			}
			for _, w := range rp.Writes {
				for _, m := range cfgFieldRe.FindAllStringSubmatch(w.Tag, -1) {
					used[m[1]] = true
				}
			}
			for _, m := range cfgFieldRe.FindAllStringSubmatch(rp.StatusTag, -1) {
				used[m[1]] = true
			}
		}
		val := ctx.Validation()
		for _, f := range sortedKeys(used) {
			if rendered[f] {
				r.ok("R6.1", "internalConfig."+f+" (consulted by requests) is rendered", 1, "")
				continue
			}
			// derived? everything stored into it also flows into a rendered field
			inputs := map[string]bool{}
			found := false
			covered := map[string]bool{}
			for _, t := range val.Lists {
				for _, pa := range t.Exit {
					for k, v := range t.storesOf(pa) {
						for _, in := range regexp.MustCompile(`local<[^>]+>|param:[a-z]+`).FindAllString(v, -1) {
							if k == "&cfg."+f {
								found = true
								inputs[in] = true
							} else if rendered[strings.TrimPrefix(k, "&cfg.")] {
								covered[in] = true
							}
						}
					}
				}
			}
			good := found
			for in := range inputs {
				if !covered[in] {
					good = false
				}
			}
			r.check(good, "R6.1", "internalConfig."+f+" (consulted by requests) is rendered or derived", "", "the request path consults internalConfig."+f+" but Config() neither renders it nor is it derived from rendered state: a round trip cannot preserve it", 1)
		}
		if len(used) < 10 {
			r.undecided("R6.1", "request-path fields", fmt.Sprintf("only %d configuration fields consulted on the request path", len(used)))
		}
		// exported Config fields: validated and written
		readByValidation := map[string]bool{}
		for _, pa := range val.BuilderTab {
			for _, e := range pa.Effects {
				for _, a := range e.Args {
					a.Mentions(func(s *Term) bool {
						if s.Op == "load" && s.Args[0].Op == "faddr" && s.Root().Op == "param" {
							readByValidation[s.Args[0].Name] = true
						}
						return false
					})
				}
			}
			for _, a := range pa.Atoms {
				a.T.Mentions(func(s *Term) bool {
					if s.Op == "load" && s.Args[0].Op == "faddr" && s.Root().Op == "param" {
						readByValidation[s.Args[0].Name] = true
					}
					return false
				})
			}
		}
		for _, tn := range []string{"Config", "ExtraConfig"} {
			o := p.Pkgs[pkgRoot].Types.Scope().Lookup(tn)
			if o == nil {
				r.undecided("R6.1", tn, "type not found")
				continue
			}
			st := o.Type().Underlying().(*types.Struct)
			for i := 0; i < st.NumFields(); i++ {
				f := st.Field(i)
				if !f.Exported() || f.Embedded() {
					continue
				}
				r.check(readByValidation[f.Name()] && written[f.Name()], "R6.1", tn+"."+f.Name()+" is validated and rendered", "",
					fmt.Sprintf("exported field %s.%s: consulted by validation=%v, written by Config()=%v", tn, f.Name(), readByValidation[f.Name()], written[f.Name()]), 1)
			}
		}
	}

	// ---- R6.2 -----------------------------------------------------------
	configPlumbing(ctx, r, "R6.2")
	if _, _, err := findBuilder(p); err != nil {
		r.fail("R6.2", "constructors agree", "", err.Error())
	} else {
		r.ok("R6.2", "NewMiddleware and Reconfigure share one builder", 2, "")
	}

	wrapReturnsClosure(ctx, r, "R11.6")
	maskedStateRule(ctx, r, "R6.7")
	// ---- R6.3 -----------------------------------------------------------
	wp, e1 := p.ConstInt(pkgOrigins, "wildcardPort")
	po, e2 := p.ConstInt(pkgOrigins, "portOffset")
	el := p.Func(pkgOrigins, "(*node).elems")
	if e1 != nil || e2 != nil || el == nil {
		r.undecided("R6.3", "node.elems", fmt.Sprint(e1, e2))
	} else {
		printerTable(ctx, r, "R6.3", el, fmt.Sprint(po), fmt.Sprint(wp))
	}
	// both lexers strip the brackets of IPv6 literals: the printer must restore them
	if fh := p.Func(pkgOrigins, "fastParseHost"); fh != nil {
		x2 := p.NewExec(nil)
		strips := false
		for _, pa := range x2.Summarize(fh) {
			if pa.Start != "entry" || pa.End != "return" || len(pa.Rets) != 3 || !pa.Rets[2].IsConst("true") {
				continue
			}
			if pa.Has("bin:==(index(param:str, 0), 91)", true) || pa.Val(`call:strings.HasPrefix(param:str, "[")`) == 1 {
				h := fieldOf(pa.Rets[0], "Value").Key()
				// str[1:IndexByte(str, ']')], or the same text taken from the
				// tail: str[1:][:IndexByte(str[1:], ']')] (strings.Cut on the tail;
				// str[0] is '[' on this path, so both find the same ']')
				if h == "slice(param:str, 1, call:strings.IndexByte(param:str, 93), _)" ||
					h == "slice(slice(param:str, 1, _, _), _, call:strings.IndexByte(slice(param:str, 1, _, _), 93), _)" {
					strips = true
				} else {
					r.fail("R6.3", "fastParseHost: bracketed host", p.Pos(fh.Pos()), "the bracketed host is not str[1:index of `]`]: "+h)
				}
			}
		}
		r.check(strips, "R6.3", "lexer strips exactly `[` and `]`, which the printer restores", p.Pos(fh.Pos()), "fastParseHost no longer strips the brackets of an IPv6 literal the way the printer assumes", 1)
	}
	treeRules(ctx, r)
	// Config() lists entries in normal-form order (sorted, `*` first), not in the
	// order the user wrote them: a round trip preserves behaviour only if
	// validation does not depend on order, multiplicity or spelling (C15's rules)
	r.rule("R6.5", "validation is insensitive to the re-ordering and normalisation that rendering applies (fold rules R15.1–R15.3 of the list validators)", 60)
	if vf := ctx.ValidationFacts(); len(vf.Problems) > 0 {
		r.undecided("R6.5", "validation-path", strings.Join(vf.Problems, "; "))
	} else {
		val := ctx.Validation()
		for _, f := range sortedKeys(val.Lists) {
			monotoneFlags(ctx, r, "R6.5", val.Lists[f])
			carriedReads(ctx, r, "R6.5", val.Lists[f])
		}
		reportMismatches(r, "R6.5", val, vf, func(m mismatch) bool { return true }, "per-element behaviour differs from the documented, order-free table")
	}
	r.rule("R6.6", "rendering is read-only: nothing reachable from Config()/newConfig writes memory of the configuration being rendered (a second Config() must see the same state)", 1)
	renderingReadOnly(ctx, r, "R6.6")
	if te := p.Func(pkgOrigins, "(*Tree).Elems"); te != nil {
		x3 := p.NewExec(p.RadixPolicy)
		ps := x3.Summarize(te)
		bad := ""
		for _, pa := range ps {
			visit := false
			for _, e := range pa.Effects {
				if e.Kind == "call" && e.Name == "(*origins.node).elems" && len(e.Args) == 3 && strings.HasSuffix(e.Args[0].Key(), ".root") && e.Args[2].IsConst(`""`) {
					visit = true
				}
			}
			if !visit {
				bad = "Tree.Elems does not start the traversal at the root with an empty suffix"
			}
			// canonical order: the result is sorted before it is returned
			sortedRes := false
			for _, e := range pa.Effects {
				if e.Kind == "call" && (e.Name == "slices.Sort" || e.Name == "sort.Strings") && len(pa.Rets) == 1 && len(e.Args) == 1 && e.Args[0].Key() == pa.Rets[0].Key() {
					sortedRes = true
				}
			}
			if !sortedRes {
				bad = "Tree.Elems does not return its result in sorted (canonical) order: successive Config() values may differ"
			}
		}
		r.check(bad == "" && len(ps) > 0, "R6.3", "Tree.Elems traverses from the root", p.Pos(te.Pos()), bad, len(ps))
	}
	// Config() omits what the request path ignores: the normal form drops
	// `Authorization` next to `*` with credentials because the request path
	// answers `*,authorization` only without credentials
	// "a zero-value middleware reconfigured with &c answers like one built from
	// c": whatever was called on it while it was a passthrough, its debug mode is off
	r.share(checkC09(ctx), map[string]string{
		"R9.1": "invariant debug ⇒ configuration pointer ≠ nil is preserved by every path of every writer (SetDebug on a passthrough middleware leaves debug off)",
		"R9.2": "documented transitions of creation, SetDebug, Reconfigure(nil / non-nil / invalid)",
	}, nil)
	r.share(checkC11(ctx), map[string]string{"R11.5": "every successful Reconfigure stores the builder's result for its own argument (or a verbatim copy of it): the zero-value middleware reconfigured with &c is built from c, like NewMiddleware(c)"}, nil)
	r.share(checkC16(ctx), map[string]string{"R16.2": "successful debug-off preflights carry only constants and request-supplied tokens; `*,authorization` only under asterisk ∧ allowAuthorization ∧ ¬credentialed — the case Config() keeps `Authorization` for"}, nil)
	return r
}

// renderingReadOnly: nothing reachable from Config()/newConfig writes memory
// other than its own fresh allocations.
func renderingReadOnly(ctx *Ctx, r *Result, rule string) {
	n := 0
	for _, name := range []string{"newConfig", "(*Middleware).Config"} {
		if f := ctx.P.Func(pkgRoot, name); f != nil {
			n++
			checkWrites(ctx, r, ctx.WE(), rule, f, func(rt Root) bool { return rt.Kind == RLocal || rt.Kind == RConst },
				"modifies the configuration while rendering it")
		}
	}
	if n == 0 {
		r.undecided(rule, "Config()", "anchors not found")
	}
}

func tri(a, b int) int {
	if a != 0 {
		return a
	}
	return b
}

func vals(v int) []bool {
	switch v {
	case 1:
		return []bool{true}
	case -1:
		return []bool{false}
	}
	return []bool{false, true}
}

// configPlumbing: (*Middleware).Config returns, on every path, the result of
// a newConfig call made in this very invocation on the pointer it read under
// the lock (shared by C06 — what is rendered — and C12 — that it is fresh).
func configPlumbing(ctx *Ctx, r *Result, rule string) {
	p := ctx.P
	nc := p.Func(pkgRoot, "newConfig")
	mt := ctx.MwTable()
	cf := p.Func(pkgRoot, "(*Middleware).Config")
	if cf == nil || nc == nil || mt.Funcs[funcName(cf)] == nil {
		r.undecided(rule, "Config", "anchor not found")
		return
	}
	bad := ""
	for _, mp := range mt.Funcs[funcName(cf)].Paths {
		var loaded, arg, res *Term
		for _, e := range mp.Events {
			if e.Kind == "load" && e.Field == mt.PtrFld {
				loaded = e.Val
			}
			if e.Kind == "call" && e.Eff.Name == funcName(nc) && len(e.Eff.Args) == 1 {
				arg, res = e.Eff.Args[0], e.Eff.Res
			}
		}
		if loaded == nil || arg == nil || arg.Key() != loaded.Key() {
			bad = "Config() does not render the configuration pointer it read under the lock"
		} else if len(mp.Rets) != 1 || res == nil || mp.Rets[0].Key() != res.Key() {
			bad = "Config() does not return the rendering's result"
		}
	}
	r.check(bad == "", rule, "Config() = newConfig(snapshot)", p.Pos(cf.Pos()), bad, 1)
}
