package main

import (
	"fmt"
	"go/types"
	"strings"

	"golang.org/x/tools/go/ssa"
)

func init() {
	registry["C07"] = checkC07
	registry["C08"] = checkC08
	registry["C09"] = checkC09
	registry["C12"] = checkC12
}

var trustedState = []string{
	"Go type checker and go/ssa construction (x/tools v0.29.0)",
	"the path-summary engine and the write-effect engine of the checker (distinct roots are assumed not to alias; any store through an address derived from a value counts as a write to it)",
	"the Go memory model and package sync: accesses ordered by one RWMutex are race-free; a critical section is atomic with respect to the others",
	"net/http: the map returned by ResponseWriter.Header() belongs to the current response",
}

func mwGuards(ctx *Ctx, r *Result) (*MwTable, bool) {
	t := ctx.MwTable()
	r.rule("R7.0", "every function touching the Middleware's state is loop-free and fully summarised; state fields identified by role (mutex, configuration pointer, debug flag)", 1)
	if len(t.Problems) > 0 {
		r.undecided("R7.0", "middleware-state", strings.Join(t.Problems, "; "))
		return t, false
	}
	n := 0
	for name, f := range t.Funcs {
		r.fn(name)
		n += len(f.Paths)
	}
	r.Paths += n
	if len(t.Funcs) < 5 {
		r.undecided("R7.0", "middleware-state", fmt.Sprintf("only %d functions touch the Middleware's state, expected ≥5 (NewMiddleware, Reconfigure, the request closure, SetDebug, Config)", len(t.Funcs)))
		return t, false
	}
	r.ok("R7.0", "middleware-state", n, fmt.Sprintf("%d functions", len(t.Funcs)))
	return t, true
}

// distinctPrefixes: request-closure paths share their state-access prefix;
// report each distinct prefix once.
func eventSig(mp *MwPath) string {
	var s []string
	for _, e := range mp.Events {
		if e.Kind == "call" {
			s = append(s, e.State+":call "+e.Eff.Name)
		} else {
			s = append(s, e.State+":"+e.Kind+" "+e.Field)
		}
	}
	return strings.Join(s, " ") + " end:" + mp.End + " " + strings.Join(mp.Problems, ";")
}

func checkC07(ctx *Ctx) *Result {
	r := newResult("C07")
	r.Explanation = "Decided for every schedule: a lock typestate over every path of every function that touches the Middleware's state. Every load of the configuration pointer or the debug flag happens while the Middleware's own RWMutex is held (read or write), every store while it is write-held; acquisitions and releases pair up on every path; the request closure and Config() load each guarded field exactly once, inside one critical section, and afterwards use only those values (single snapshot); no interface call, dynamic call or call into the validation path happens while the lock is held; Reconfigure builds the new configuration before locking and swaps pointer and flag in one critical section; the memory reachable from a published configuration is written only on the validation path, before publication (write-effect analysis: no store, append, sort or copy whose target derives from the snapshot, a global or a captured variable in anything reachable from the request closure or Config()); nothing reachable from Reconfigure writes memory derived from its *Config argument, which the caller may share between goroutines. Together: every request observes one (configuration, debug) pair that was current at some instant during the call, and everything it derives comes from immutable memory."
	r.NotDecided = "nothing structural; the Go memory model and sync.RWMutex are trusted; a custom ResponseWriter/Handler may itself be racy"
	r.Trusted = trustedState
	t, ok := mwGuards(ctx, r)
	if !ok {
		return r
	}
	r.rule("R7.1", "guarded fields are read under the lock (R or W) and written under the write lock of the same Middleware (exception: a Middleware allocated in the function and not yet returned)", 5)
	r.rule("R7.2", "Lock/Unlock and RLock/RUnlock pair up on every path; no nested acquisition; the lock is released at every exit", 5)
	r.rule("R7.3", "single snapshot: the request closure reads pointer and flag exactly once each, in one critical section; Config() reads the pointer once", 2)
	r.rule("R7.4", "no interface/dynamic call and no call into module code while the lock is held", 5)
	r.rule("R7.5", "publication immutability: nothing reachable from the request closure or Config() writes memory derived from the snapshot, a global or a captured variable", 2)
	r.rule("R7.6", "Reconfigure builds before locking and swaps pointer and flag in one critical section", 1)
	r.rule("R7.7", "the caller's Config is input only: nothing reachable from Reconfigure writes memory derived from its *Config argument (the same Config may be handed to several middlewares, or be read by a handler, concurrently)", 1)

	for _, name := range sortedKeys(t.Funcs) {
		mf := t.Funcs[name]
		seen := map[string]bool{}
		for _, mp := range mf.Paths {
			sig := eventSig(mp)
			if seen[sig] {
				continue
			}
			seen[sig] = true
			desc := name + " [" + sig + "]"
			// R7.2
			good, detail := len(mp.Problems) == 0 && mp.End == "U", strings.Join(mp.Problems, "; ")
			if mp.End != "U" {
				detail += " lock still held at function exit"
			}
			r.check(good, "R7.2", desc, "", detail, 1)
			// R7.1, R7.4
			g1, d1 := true, ""
			g4, d4 := true, ""
			for _, e := range mp.Events {
				switch e.Kind {
				case "load":
					if !e.Fresh && e.State == "U" {
						g1, d1 = false, fmt.Sprintf("field %s read without holding the lock @%s", e.Field, e.Eff.At)
					}
				case "store":
					if !e.Fresh && e.State != "W" {
						g1, d1 = false, fmt.Sprintf("field %s written without holding the write lock (state %s) @%s", e.Field, e.State, e.Eff.At)
					}
				case "call":
					if e.State != "U" && callMayReachUserCode(ctx, e.Eff) {
						g4, d4 = false, fmt.Sprintf("%s %s while the lock is held @%s", e.Eff.Kind, e.Eff.Name, e.Eff.At)
					}
				}
			}
			r.check(g1, "R7.1", desc, "", d1, len(mp.Events))
			r.check(g4, "R7.4", desc, "", d4, len(mp.Events))
		}
	}
	// R7.3
	cl, err := wrapClosure(ctx.P)
	if err != nil {
		r.undecided("R7.3", "request-closure", err.Error())
	} else if mf := t.Funcs[funcName(cl)]; mf == nil {
		r.fail("R7.3", "request-closure", ctx.P.Pos(cl.Pos()), "the request closure does not read the Middleware's state itself")
	} else {
		good, detail := true, ""
		for _, mp := range mf.Paths {
			loads := map[string]int{}
			sections := 0
			for _, e := range mp.Events {
				if e.Kind == "load" {
					loads[e.Field]++
				}
				if e.Kind == "rlock" || e.Kind == "lock" {
					sections++
				}
			}
			if loads[t.PtrFld] != 1 || loads[t.FlagFld] != 1 || sections != 1 {
				good = false
				detail = fmt.Sprintf("a request path reads pointer %d×, flag %d× in %d critical sections (expected 1, 1, 1): the response may mix two states", loads[t.PtrFld], loads[t.FlagFld], sections)
			}
		}
		r.check(good, "R7.3", "request-closure", ctx.P.Pos(cl.Pos()), detail, len(mf.Paths))
	}
	if cf := ctx.P.Func(pkgRoot, "(*Middleware).Config"); cf == nil {
		r.undecided("R7.3", "Config", "anchor not found")
	} else if mf := t.Funcs[funcName(cf)]; mf != nil {
		good, detail := true, ""
		for _, mp := range mf.Paths {
			n := 0
			for _, e := range mp.Events {
				if e.Kind == "load" && e.Field == t.PtrFld {
					n++
				}
			}
			if n != 1 {
				good, detail = false, fmt.Sprintf("Config() reads the configuration pointer %d times", n)
			}
			// the value handed to newConfig is that load
			for _, e := range mp.Events {
				if e.Kind == "call" && e.Eff.Name == "cors.newConfig" {
					for _, l := range mp.Events {
						if l.Kind == "load" && l.Field == t.PtrFld && len(e.Eff.Args) == 1 && e.Eff.Args[0].Key() != l.Val.Key() {
							good, detail = false, "newConfig is not given the pointer read under the lock"
						}
					}
				}
			}
		}
		r.check(good, "R7.3", "Config", ctx.P.Pos(cf.Pos()), detail, len(mf.Paths))
	}
	// R7.6
	if rc := ctx.P.Func(pkgRoot, "(*Middleware).Reconfigure"); rc == nil {
		r.undecided("R7.6", "Reconfigure", "anchor not found")
	} else if mf := t.Funcs[funcName(rc)]; mf != nil {
		good, detail := true, ""
		val := ctx.Validation()
		for _, mp := range mf.Paths {
			sections := 0
			stores := map[string]int{}
			builderAt, lockAt := -1, -1
			nilStored := false
			for i, e := range mp.Events {
				switch e.Kind {
				case "lock":
					sections++
					if lockAt < 0 {
						lockAt = i
					}
				case "store":
					stores[e.Field] = sections
					if e.Field == t.PtrFld && e.Val != nil && e.Val.IsConst("nil") {
						nilStored = true // Reconfigure(nil) decided by the method itself: nothing to build
					}
				case "call":
					if val.Builder != nil && e.Eff.Name == funcName(val.Builder) {
						builderAt = i
					}
				}
			}
			if len(stores) > 0 {
				if stores[t.PtrFld] != 0 && stores[t.FlagFld] != 0 && stores[t.PtrFld] != stores[t.FlagFld] {
					good, detail = false, "pointer and flag are not stored in the same critical section"
				}
				if stores[t.PtrFld] != 0 && (builderAt < 0 || builderAt > lockAt) && !(nilStored && builderAt < 0) {
					good, detail = false, "the new configuration is not built before the lock is taken"
				}
			}
		}
		r.check(good, "R7.6", "Reconfigure", ctx.P.Pos(rc.Pos()), detail, len(mf.Paths))
	}
	wrapReturnsClosure(ctx, r, "R11.6")
	// R7.5: a configuration is complete before it is published and never written afterwards
	configFieldOwnership(ctx, r, "R7.5")
	we := ctx.WE()
	entries := []*ssa.Function{}
	if cl != nil {
		entries = append(entries, cl)
	}
	if nc := ctx.P.Func(pkgRoot, "newConfig"); nc != nil {
		entries = append(entries, nc)
	}
	if cf := ctx.P.Func(pkgRoot, "(*Middleware).Config"); cf != nil {
		entries = append(entries, cf)
	}
	for _, e := range entries {
		checkWrites(ctx, r, we, "R7.5", e, func(rt Root) bool {
			return rt.Kind == RLocal || rt.Kind == RConst || (rt.Kind == RCallRes && rt.Name == "invoke http.ResponseWriter.Header")
		}, "writes memory that is shared with other requests or with the published configuration")
	}
	if rc := ctx.P.Func(pkgRoot, "(*Middleware).Reconfigure"); rc != nil {
		checkWrites(ctx, r, we, "R7.7", rc, func(rt Root) bool { return !(rt.Kind == RParam && rt.Idx >= 1) },
			"writes the caller's Config, which other goroutines may be reading")
	} else {
		r.undecided("R7.7", "Reconfigure", "anchor not found")
	}
	// ... nor is such memory handed to the wrapped handlers, which run
	// concurrently and may write what they find in the response header map
	r.share(checkC12(ctx), map[string]string{
		"R12.4": "slices shared between requests (package-level or held by the configuration) reach a response header map only on handler-free paths: no wrapped handler receives memory another request also holds",
		"R12.2": "no slice, map or pointer derived from the caller's Config is retained by the configuration or the Middleware (the caller may go on writing its Config while requests and Config() read the published configuration)",
	}, nil)
	return r
}

// callMayReachUserCode: an interface or dynamic call, or a module function
// from which one (or a mutex operation: re-entrancy) is reachable. Holding the
// lock across purely internal code only lengthens the critical section.
func callMayReachUserCode(ctx *Ctx, e Effect) bool {
	if e.Kind != "call" {
		return true
	}
	we := ctx.WE()
	for _, fn := range ctx.P.Funcs {
		if funcName(fn) != e.Name {
			continue
		}
		for _, g := range we.Reach(fn) {
			for _, c := range we.extCalls[g] {
				if strings.HasPrefix(c, "invoke ") || c == "dynamic call" || strings.Contains(c, "sync.RWMutex") || strings.Contains(c, "sync.Mutex") {
					if c == "invoke error.Error" {
						continue
					}
					return true
				}
			}
		}
		return false
	}
	// not a module function with a body
	for _, pre := range purePrefixes {
		if strings.HasPrefix(e.Name, pre) {
			return false
		}
	}
	return true
}

// checkWrites applies a whitelist to the final roots of every mutation site
// reachable from entry.
func checkWrites(ctx *Ctx, r *Result, we *WE, rule string, entry *ssa.Function, allowed func(Root) bool, what string) {
	sites := we.ResolveFrom(entry)
	bad := 0
	fns := map[string]bool{}
	for _, s := range sites {
		fns[funcName(s.Fn)] = true
		for _, rt := range s.Final {
			if !allowed(rt) {
				bad++
				r.fail(rule, fmt.Sprintf("%s: %s in %s", funcName(entry), s.What, funcName(s.Fn)), ctx.P.Pos(s.Pos),
					fmt.Sprintf("%s (reachable from %s) %s: target derives from %s", s.What, funcName(entry), what, rt))
			}
		}
	}
	r.CallSites += len(sites)
	for f := range fns {
		r.fn(f)
	}
	if bad == 0 {
		r.ok(rule, fmt.Sprintf("%s: %d mutation sites in %d reachable functions", funcName(entry), len(sites), len(we.Reach(entry))), len(sites), "")
	}
}

func checkC08(ctx *Ctx) *Result {
	r := newResult("C08")
	r.Explanation = "Decided for every prior state and every invalid Config: in Reconfigure, every store to the Middleware's state lies on a path carrying `error of the builder == nil`, and the path on which the builder reports an error returns that error without any store, lock or other effect; the builder returns a nil configuration with every non-nil error (error discipline, shared with C04); and validation itself cannot disturb the existing state: no function reachable from the builder writes a global or any memory other than its own locals, the configuration under construction, or the caller's own Config argument (write-effect analysis over the call graph), and the only external calls are to an audited list of side-effect-free library functions."
	r.NotDecided = "nothing structural"
	r.Trusted = trustedState
	t, ok := mwGuards(ctx, r)
	if !ok {
		return r
	}
	r.rule("R8.1", "Reconfigure: no store to the Middleware's state unless the builder's error is nil; the error path returns the builder's error and does nothing else", 2)
	r.rule("R8.2", "validation writes only its locals, the configuration under construction and (tolerated) the caller's Config; no global; only audited external calls", 2)
	r.rule("R8.3", "the builder returns a nil configuration whenever it returns a non-nil error", 1)
	val := ctx.Validation()
	rc := ctx.P.Func(pkgRoot, "(*Middleware).Reconfigure")
	if rc == nil || val.Builder == nil {
		r.undecided("R8.1", "Reconfigure", "anchors not found")
		return r
	}
	mf := t.Funcs[funcName(rc)]
	if mf == nil {
		r.undecided("R8.1", "Reconfigure", "Reconfigure does not touch the Middleware's state")
		return r
	}
	nErr, nOK := 0, 0
	for _, mp := range mf.Paths {
		// the builder call of this path
		var call *Term
		for _, e := range mp.Effects {
			if e.Kind == "call" && e.Name == funcName(val.Builder) {
				call = e.Res
			}
		}
		desc := mp.describe()
		if call == nil {
			// Reconfigure(nil) decided by the method itself: the argument is
			// known to be nil and the only pointer stored is nil
			argNil := len(rc.Params) == 2 && mp.Val("bin:==(param:"+rc.Params[1].Name()+", nil)") == 1
			for _, e := range mp.Events {
				if e.Kind == "store" && e.Field == t.PtrFld && !(e.Val != nil && e.Val.IsConst("nil")) {
					argNil = false
				}
			}
			r.check(argNil, "R8.1", desc, "", "Reconfigure path without a call to the builder", 1)
			continue
		}
		errKey := "bin:==(" + call.Key() + "#1, nil)"
		switch mp.Val(errKey) {
		case 1:
			nOK++
			r.ok("R8.1", desc, 1, "")
		case -1:
			nErr++
			good, detail := true, ""
			for _, e := range mp.Events {
				if e.Kind != "call" || e.Eff.Name != funcName(val.Builder) {
					good, detail = false, fmt.Sprintf("%s %s on the rejection path @%s", e.Kind, e.Field+e.Eff.Name, e.Eff.At)
				}
			}
			if len(mp.Rets) != 1 || mp.Rets[0].Key() != call.Key()+"#1" {
				good, detail = false, "the rejection path does not return the builder's error"
			}
			r.check(good, "R8.1", desc, "", detail, 1)
		default:
			stores := 0
			for _, e := range mp.Events {
				if e.Kind == "store" {
					stores++
				}
			}
			r.check(stores == 0, "R8.1", desc, "", "state is stored on a path that does not test the builder's error", 1)
		}
	}
	if nErr == 0 || nOK == 0 {
		r.undecided("R8.1", "Reconfigure path classes", fmt.Sprintf("%d rejecting and %d accepting paths", nErr, nOK))
	}
	we := ctx.WE()
	checkWrites(ctx, r, we, "R8.2", val.Builder, func(rt Root) bool {
		return rt.Kind == RLocal || rt.Kind == RConst || (rt.Kind == RParam && rt.Idx == 0)
	}, "writes memory visible outside the validation in progress")
	// external calls
	var ext []string
	bad := ""
	for _, f := range we.Reach(val.Builder) {
		for _, c := range we.extCalls[f] {
			ext = appendUnique(ext, c)
			okc := false
			for _, pre := range purePrefixes {
				if strings.HasPrefix(c, pre) {
					okc = true
				}
			}
			if _, m := mutatingExternal[c]; m {
				okc = true // target checked by the write rule above
			}
			if c == "invoke error.Error" {
				okc = true
			}
			if !okc {
				bad = fmt.Sprintf("%s calls %s, which is not in the audited side-effect-free list", funcName(f), c)
			}
		}
	}
	r.check(bad == "", "R8.2", "external calls of the validation path", "", bad, len(ext))
	r.sample(map[string]any{"external_calls_on_validation_path": ext})
	builderRule(ctx, r, "R8.3")
	// "given an invalid Config it returns a non-nil error": the prohibition
	// tables and error discipline of validation (shared with C04)
	r.rule("R8.4", "an invalid Config is rejected: no documented violation passes without its error (decision tables, error discipline, integer ranges)", 60)
	vf := ctx.ValidationFacts()
	if len(vf.Problems) > 0 {
		r.undecided("R8.4", "validation-path", strings.Join(vf.Problems, "; "))
	} else {
		for _, f := range sortedKeys(val.Lists) {
			l0(ctx, r, "R8.4", val.Lists[f])
			entryRule(ctx, r, "R8.4", val.Lists[f])
		}
		reportMismatches(r, "R8.4", val, vf, func(m mismatch) bool { return m.Missing && m.Kind == "missing-error" }, "an invalid Config would be accepted")
		intRule(ctx, r, "R8.4")
		// the predicates the origin table takes as given: "deemed insecure" and "public suffix"
		patternPredicates(ctx, r, "R8.4")
		// ... and the deny tables behind "forbidden/prohibited name"
		denyTables(ctx, r, "R8.4")
		// ... and "malformed pattern": the guards every accepted pattern has passed
		r.share(checkC13(ctx), map[string]string{
			"R13.4": "every accepting path of ParsePattern has passed each documented guard (an invalid pattern makes Reconfigure fail)",
			"R13.1": "documented limits are the constants in use; the lexers' loops are bounded by them",
			"R13.7": "the host lexer's steps are the documented grammar's (label bytes, separators, the IPv4 assumption, lengths): a host outside it makes Reconfigure fail",
			"R13.8": "the IDNA profile used for domain hosts is idna.New(BidiRule, ValidateLabels(true), StrictDomainName(true), VerifyDNSLength(true)): over-long labels and empty hosts make Reconfigure fail",
		}, nil)
	}
	return r
}

// ---- C09 ------------------------------------------------------------------

type flagClass struct {
	Kind string // F T OLD PTRNN PTRNIL B NONE ?
	Text string
}

func classifyFlag(t *MwTable, mp *MwPath, storeIdx int) flagClass {
	ev := mp.Events[storeIdx]
	sec := ev.Sec
	v := ev.Val
	switch {
	case v.IsConst("false"):
		return flagClass{"F", "false"}
	case v.IsConst("true"):
		return flagClass{"T", "true"}
	case v.Op == "param":
		return flagClass{"B", v.Key()}
	}
	for i := 0; i < storeIdx; i++ {
		l := mp.Events[i]
		if l.Kind != "load" || l.Base != ev.Base {
			continue
		}
		if l.Sec != sec && !l.Fresh {
			// a value read in another critical section says nothing about the
			// state at the time of the store
			continue
		}
		if l.Field == t.FlagFld && l.Val.Key() == v.Key() {
			// no flag store in between
			for j := i + 1; j < storeIdx; j++ {
				if mp.Events[j].Kind == "store" && mp.Events[j].Field == t.FlagFld {
					return flagClass{"?", "stale flag value"}
				}
			}
			return flagClass{"OLD", "previous flag"}
		}
		if l.Field == t.PtrFld {
			at, pol := normAtom(v)
			if at.Op == "bin" && at.Name == "==" && at.Args[0].Key() == l.Val.Key() && at.Args[1].IsConst("nil") {
				// the tested pointer must be the final one: no pointer store after the load
				for j := i + 1; j < len(mp.Events); j++ {
					if mp.Events[j].Kind == "store" && mp.Events[j].Field == t.PtrFld {
						return flagClass{"?", "pointer tested before it is replaced"}
					}
				}
				if pol {
					return flagClass{"PTRNIL", "pointer == nil"}
				}
				return flagClass{"PTRNN", "pointer != nil"}
			}
		}
	}
	return flagClass{"?", v.Key()}
}

// flagEqualsParam: the path establishes that the flag as read in section sec
// (and not overwritten since) equals the parameter b.
func flagEqualsParam(t *MwTable, mp *MwPath, sec int, b string) bool {
	for i, l := range mp.Events {
		if l.Kind != "load" || l.Field != t.FlagFld || (sec >= 0 && l.Sec != sec) {
			continue
		}
		over := false
		for j := i + 1; j < len(mp.Events); j++ {
			if mp.Events[j].Kind == "store" && mp.Events[j].Field == t.FlagFld {
				over = true
			}
		}
		if over {
			continue
		}
		if mp.Val("bin:==("+l.Val.Key()+", "+b+")") == 1 || mp.Val("bin:==("+b+", "+l.Val.Key()+")") == 1 {
			return true
		}
	}
	return false
}

// ptrAtom: polarity of "current pointer == nil" on the path (+1 nil, -1 non-nil, 0 untested),
// for a pointer loaded from the same Middleware and not replaced afterwards.
func ptrAtom(t *MwTable, mp *MwPath, sec int) int {
	for i, l := range mp.Events {
		if l.Kind != "load" || l.Field != t.PtrFld || (sec >= 0 && l.Sec != sec) {
			continue
		}
		replaced := false
		for j := i + 1; j < len(mp.Events); j++ {
			if mp.Events[j].Kind == "store" && mp.Events[j].Field == t.PtrFld {
				replaced = true
			}
		}
		if replaced {
			continue
		}
		if v := mp.Val("bin:==(" + l.Val.Key() + ", nil)"); v != 0 {
			return v
		}
	}
	return 0
}

func checkC09(ctx *Ctx) *Result {
	r := newResult("C09")
	r.Explanation = "Decided for every call history, by induction: the three writers of the Middleware's state (creation, Reconfigure, SetDebug) are loop-free; for each of their paths the rule derives the final (pointer, flag) pair as provenance terms and checks (R9.1) that the invariant `debug ⇒ configuration pointer ≠ nil` is preserved, and (R9.2) the documented transition: creation leaves the flag false; SetDebug(b) yields b on a configured middleware and changes nothing on a passthrough one; a successful Reconfigure(non-nil) keeps the flag, Reconfigure(nil) clears it; a failed Reconfigure stores nothing. Since every history is a sequence of such steps the state machine holds for histories of any length. (R9.3) On the request path the debug flag is consulted only on preflight paths, and for every pair of jointly consistent preflight paths differing in the flag: where the debug-off path succeeds the debug-on path is identical except that Allow-Headers may carry the configured list instead of the echo; where it fails, the debug-on path differs only by CORS response headers of the kind a success writes, and by the status."
	r.NotDecided = "nothing structural; the builder returns a non-nil configuration for a non-nil valid Config and nil for a nil Config (checked as R8.3/R4.1 obligations here)"
	r.Trusted = append([]string{}, trustedState...)
	t, ok := mwGuards(ctx, r)
	if !ok {
		return r
	}
	r.rule("R9.1", "invariant debug ⇒ pointer ≠ nil is preserved by every path of every writer", 3)
	r.rule("R9.2", "documented transitions of creation, SetDebug, Reconfigure(nil / non-nil / invalid)", 3)
	r.rule("R9.3", "debug mode is consulted only for preflights and only colours failing ones (status, partial CORS headers, full allowed-header list)", 50)
	r.rule("R9.6", "partial headers are complete: a debug-mode answer carries Access-Control-Allow-Origin whenever the origin step passed and Access-Control-Allow-Methods whenever the method step passed for a non-safelisted method, whatever fails later", 50)
	r.rule("R9.5", "the full allowed-header list: every debug-mode preflight that reaches the header step with names configured (no `*`) carries the configured list as Access-Control-Allow-Headers and never runs the debug-off check of the requested names", 20)
	r.rule("R9.4", "partial headers: every CORS header of a debug-mode answer is granted by a step that passed on that path (its step atoms are valued as on some successful debug-off preflight writing the same header from the same source)", 50)
	r.rule("R8.3", "builder: (nil, nil) for a nil Config; non-nil configuration with a nil error; nil configuration with an error", 1)
	builderRule(ctx, r, "R8.3")
	val := ctx.Validation()
	bname := ""
	if val.Builder != nil {
		bname = funcName(val.Builder)
	}
	writers := 0
	for _, name := range sortedKeys(t.Funcs) {
		mf := t.Funcs[name]
		hasStore := false
		for _, mp := range mf.Paths {
			for _, e := range mp.Events {
				if e.Kind == "store" {
					hasStore = true
				}
			}
		}
		if !hasStore {
			continue
		}
		writers++
		sig := mf.Fn.Signature
		isSetDebug := sig.Recv() != nil && sig.Params().Len() == 1 && types.TypeString(sig.Params().At(0).Type(), nil) == "bool" && sig.Results().Len() == 0
		isReconf := name == "(*cors.Middleware).Reconfigure"
		for _, mp := range mf.Paths {
			desc := mp.describe()
			ptrStore, flagStore := -1, -1
			fresh := false
			var builderCall *Term
			for i, e := range mp.Events {
				if e.Kind == "store" && e.Field == t.PtrFld {
					ptrStore = i
				}
				if e.Kind == "store" && e.Field == t.FlagFld {
					flagStore = i
				}
				if (e.Kind == "store" || e.Kind == "load") && e.Fresh {
					fresh = true
				}
				if e.Kind == "call" && e.Eff.Name == bname {
					builderCall = e.Eff.Res
				}
			}
			fc := flagClass{"NONE", "unchanged"}
			if flagStore >= 0 {
				fc = classifyFlag(t, mp, flagStore)
			}
			// is the stored pointer known non-nil / nil on this path?
			ptrKnown := 0 // +1 non-nil, -1 nil, 0 unknown
			cfgNil := 0
			if ptrStore >= 0 && builderCall != nil && mp.Events[ptrStore].Val.Key() == builderCall.Key()+"#0" &&
				mp.Val("bin:==("+builderCall.Key()+"#1, nil)") == 1 && len(builderCall.Args) == 1 {
				arg := builderCall.Args[0]
				switch {
				case arg.Op == "alloc" || arg.Op == "faddr":
					ptrKnown = 1 // address of a local: non-nil Config
				default:
					cfgNil = mp.Val("bin:==(" + arg.Key() + ", nil)")
					if cfgNil == -1 {
						ptrKnown = 1
					} else if cfgNil == 1 {
						ptrKnown = -1
					}
				}
			}
			if ptrStore >= 0 && mp.Events[ptrStore].Val != nil && mp.Events[ptrStore].Val.IsConst("nil") {
				ptrKnown = -1
			}
			// the section whose reads justify the transition: that of the store;
			// for a path without a store, any one section (the no-op's
			// linearisation point)
			var secs []int
			if flagStore >= 0 {
				secs = []int{mp.Events[flagStore].Sec}
			} else if ptrStore >= 0 {
				secs = []int{mp.Events[ptrStore].Sec}
			} else {
				seenSec := map[int]bool{}
				for _, e := range mp.Events {
					if e.Kind == "load" && !seenSec[e.Sec] {
						seenSec[e.Sec] = true
						secs = append(secs, e.Sec)
					}
				}
				if len(secs) == 0 {
					secs = []int{-1}
				}
			}
			eval := func(sec int) (bool, string, bool, string) {
				// R9.1
				good, detail := true, ""
				switch fc.Kind {
				case "F", "PTRNN":
				case "NONE", "OLD":
					if fresh && fc.Kind == "NONE" {
						break // new Middleware: flag is the zero value
					}
					if ptrStore >= 0 && ptrKnown != 1 {
						good, detail = false, "the flag is kept while the pointer is replaced by a value that may be nil"
					}
				case "B", "T":
					if !(ptrStore < 0 && ptrAtom(t, mp, sec) == -1) && !(ptrStore >= 0 && ptrKnown == 1) {
						good, detail = false, "the flag may become true ("+fc.Text+") on a path that does not establish a non-nil configuration pointer"
					}
				default:
					good, detail = false, "cannot relate the stored flag to the state: "+fc.Text
				}
				g1, d1 := good, detail
				// R9.2
				good, detail = true, ""
				switch {
				case ptrStore < 0 && flagStore < 0 && !isSetDebug:
					// no state change on this path (e.g. rejection: R8.1)
				case fresh:
					if fc.Kind != "NONE" && fc.Kind != "F" {
						good, detail = false, "a new middleware does not start with debug mode off"
					}
					if ptrStore >= 0 && ptrKnown != 1 {
						good, detail = false, "creation stores something other than the builder's accepted configuration"
					}
				case isSetDebug:
					b := mp.Val("param:" + mf.Fn.Params[1].Name())
					if ptrStore >= 0 {
						good, detail = false, "SetDebug replaces the configuration pointer"
					}
					pa := ptrAtom(t, mp, sec)
					// configured middleware: result must equal b
					confOK := false
					switch fc.Kind {
					case "B":
						confOK = true
					case "PTRNN", "T":
						confOK = b == 1
					case "F":
						confOK = b == -1
					case "NONE", "OLD":
						// unchanged: acceptable on the passthrough path, or when the
						// flag already equals b
						confOK = pa == 1 || flagEqualsParam(t, mp, sec, "param:"+mf.Fn.Params[1].Name())
					}
					if pa == 1 {
						confOK = true // path only taken when passthrough
					}
					// passthrough middleware: result must be off / unchanged
					passOK := false
					switch fc.Kind {
					case "F", "NONE", "OLD", "PTRNN":
						passOK = true
					case "B", "T":
						passOK = pa == -1 // path only taken when configured
					}
					if !confOK {
						good, detail = false, fmt.Sprintf("on a configured middleware SetDebug(b) does not set debug mode to b (stores %s with b %+d)", fc.Text, b)
					}
					if !passOK {
						good, detail = false, "on a passthrough middleware SetDebug is not a no-op (stores "+fc.Text+")"
					}
				case isReconf:
					if ptrStore < 0 && flagStore < 0 {
						break // rejection path: checked by R8.1
					}
					switch ptrKnown {
					case 1:
						if fc.Kind != "NONE" && fc.Kind != "OLD" {
							good, detail = false, "a successful Reconfigure to a non-nil Config does not keep debug mode (stores "+fc.Text+")"
						}
					case -1:
						if fc.Kind != "F" {
							good, detail = false, "Reconfigure(nil) does not switch debug mode off (stores "+fc.Text+")"
						}
					default:
						good, detail = false, "Reconfigure stores a pointer whose nil-ness the path does not determine"
					}
				default:
					good, detail = false, "unexpected writer of the Middleware's state"
				}
				return g1, d1, good, detail
			}
			var g1, g2 bool
			var d1, d2 string
			for _, sec := range secs {
				g1, d1, g2, d2 = eval(sec)
				if g1 && g2 {
					break
				}
			}
			r.check(g1, "R9.1", desc, "", d1, 1)
			r.check(g2, "R9.2", desc, "", d2, 1)
			r.sample(map[string]any{"writer": name, "path": mp.AtomString(), "flag": fc.Text, "pointer_replaced": ptrStore >= 0, "pointer_known": ptrKnown})
		}
	}
	if writers != 3 {
		r.undecided("R9.2", "writers", fmt.Sprintf("%d functions store to the Middleware's state, expected 3 (creation, Reconfigure, SetDebug)", writers))
	}
	checkDebugColours(ctx, r)
	// SetDebug/Reconfigure must reach every handler Wrap ever returned
	wrapReturnsClosure(ctx, r, "R11.6")
	// "partial headers": in debug mode too, nothing is granted to an origin that
	// did not pass the origin step
	r.share(checkC03(ctx), map[string]string{
		"R3.2": "(debug-mode paths) ACAO=* only under the allow-all atom; ACAO=echo only under Parse.ok ∧ Contains",
		"R3.4": "(debug-mode paths) no Access-Control-* header on a path without the allowed-origin atoms",
	}, func(o Obligation) bool {
		return strings.Contains(o.Construct, " mw.debug") && !strings.Contains(o.Construct, "!mw.debug")
	})
	// the state machine advances: no method returns holding the lock, and the
	// lock is not held while code that may call back into the middleware runs
	r.share(checkC07(ctx), map[string]string{
		"R7.2": "every lock acquired by Reconfigure, SetDebug, Config and the request closure is released on every path",
		"R7.4": "no interface/dynamic call and no call into module code while the lock is held (a wrapped handler that calls SetDebug or Reconfigure would deadlock)",
	}, nil)
	// where `*` is listed debug mode must not consult the masked discrete state either
	maskedStateRule(ctx, r, "R6.7")
	// "full allowed-header list": what the debug-only value holds
	r.share(checkC04(ctx), map[string]string{"R4.7": "publication on error-free exits of the RequestHeaders validator: the debug-only Allow-Headers value is the sorted, de-duplicated set joined with commas"}, func(o Obligation) bool {
		return strings.Contains(o.Construct, "validateRequestHeaders")
	})
	return r
}

// checkDebugColours implements R9.3 on the request path table.
func checkDebugColours(ctx *Ctx, r *Result) {
	rt, ok := requestTableGuards(ctx, r)
	if !ok {
		return
	}
	var off, on []*ReqPath
	for _, rp := range rt.Paths {
		if rp.A[aDebug] != 0 && !isPreflightPath(rp) {
			r.fail("R9.3", rp.Describe(), "", "debug mode influences a non-preflight path")
			continue
		}
		if !isPreflightPath(rp) {
			continue
		}
		if rp.A[aDebug] != 1 {
			off = append(off, rp)
		}
		if rp.A[aDebug] != -1 {
			on = append(on, rp)
		}
	}
	// value tags a success writes per key
	succ := map[string]map[string]bool{}
	for _, rp := range off {
		if rp.StatusTag == successStatusTag {
			for _, w := range rp.Writes {
				if succ[w.Key] == nil {
					succ[w.Key] = map[string]bool{}
				}
				succ[w.Key][w.Tag] = true
			}
		}
	}
	// R9.4: "partial headers" — a header a debug-mode answer carries is one
	// whose step passed: the path values the atoms of that step like some
	// successful debug-off preflight that writes the same header from the
	// same source
	stepAtoms := map[string][]string{
		hACAM:  {aSafe, aListed, aAnyMethod, aCred},
		hACAPN: {aPNA, aPNTrue, aFoundPN},
		hACAH:  {aAsterisk, aCred, aAllowAuth, aCheck, aNoHdrs, aACRH},
		hACAO:  {aParseOK, aContains, aEmpty, aCred},
		hACAC:  {aParseOK, aContains, aEmpty, aCred},
	}
	// the steps run in this order, and a step is only reached when the ones
	// before it passed: a header is justified by the atoms of its own step and
	// of every earlier one
	stepOrder := []string{hACAO, hACAPN, hACAM, hACAH}
	cumAtoms := func(key string) []string {
		if key == hACAC {
			key = hACAO
		}
		var out []string
		for _, k := range stepOrder {
			out = append(out, stepAtoms[k]...)
			if k == key {
				break
			}
		}
		return out
	}
	for _, b := range on {
		if b.A[aDebug] != 1 {
			continue
		}
		bad := ""
		for _, w := range b.Writes {
			_, has := stepAtoms[w.Key]
			if !has {
				continue
			}
			atoms := cumAtoms(w.Key)
			// the configured list replaces the echo of a debug-off success: it
			// is justified where some successful preflight writes the header at all
			anyTag := w.Key == hACAH && w.Tag == "cfg.acah"
			justified := false
			for _, s := range off {
				if s.StatusTag != successStatusTag {
					continue
				}
				same := false
				for _, ws := range s.WritesTo(w.Key) {
					if ws.Tag == w.Tag || anyTag {
						same = true
					}
				}
				if !same {
					continue
				}
				match := true
				for _, x := range atoms {
					if s.A[x] != 0 && b.A[x] != 0 && s.A[x] != b.A[x] {
						match = false
					}
				}
				if match {
					justified = true
					break
				}
			}
			if !justified {
				bad = fmt.Sprintf("the debug-mode answer carries %s := %s although the step that grants it did not pass: no successful preflight writes it under this path's conditions", w.Key, w.Tag)
			}
		}
		r.check(bad == "", "R9.4", b.Describe(), "", bad, len(b.Writes))
	}
	// R9.6: "partial headers", the other direction — what a passed step grants
	// is in the debug-mode answer even when a later step fails
	for _, b := range on {
		if b.A[aDebug] != 1 || !(b.Is(aParseOK) && (b.Is(aContains) || allowAllPath(ctx, b))) {
			continue
		}
		missing := ""
		if len(b.WritesTo(hACAO)) == 0 {
			missing = hACAO
		}
		pnaFailed := b.Is(aPNTrue) && b.Not(aPNA) && b.Not(aPNANoCors)
		if !pnaFailed && b.Not(aSafe) && (b.Is(aListed) || b.Is(aAnyMethod)) && len(b.WritesTo(hACAM)) == 0 {
			missing = hACAM
		}
		r.check(missing == "", "R9.6", b.Describe(), "", "a debug-mode answer lacks "+missing+" although the step that grants it passed on this path", 1)
	}
	// R9.5: "the full allowed-header list" — a debug-mode preflight that reaches
	// the header step with names configured answers with the configured list,
	// whatever the request's Access-Control-Request-Headers lines look like
	nList := 0
	for _, b := range on {
		if b.A[aDebug] != 1 || b.A[aACRH] != 1 || b.A[aAsterisk] != -1 || b.A[aNoACAH] == 1 {
			continue
		}
		if !(b.Is(aParseOK) && (b.Is(aContains) || allowAllPath(ctx, b))) {
			continue
		}
		if b.Is(aPNTrue) && b.Not(aPNA) && b.Not(aPNANoCors) {
			continue // refused at the private-network step
		}
		if b.Not(aSafe) && b.Not(aAnyMethod) && b.Not(aListed) {
			continue // refused at the method step
		}
		nList++
		list := false
		for _, w := range b.WritesTo(hACAH) {
			if w.Tag == "cfg.acah" {
				list = true
			}
		}
		r.check(list && b.A[aCheck] == 0, "R9.5", b.Describe(), "", "a debug-mode preflight that reaches the header step does not answer with the configured Access-Control-Allow-Headers list (or consults the debug-off check of the requested names)", 1)
	}
	if nList == 0 {
		r.undecided("R9.5", "debug-mode header step", "no debug-mode path reaches the header step")
	}
	allowedKeys := map[string]bool{hACAO: true, hACAC: true, hACAPN: true, hACAM: true, hACAH: true, hACMA: true}
	consistent := func(a, b *ReqPath) bool {
		for n, va := range a.A {
			if n == aDebug {
				continue
			}
			if vb, both := b.A[n]; both && va != vb {
				return false
			}
		}
		// CI-7: under ¬asterisk, acah ≠ nil ⇔ the discrete set is non-empty
		if a.A[aNoHdrs] != 0 && b.A[aNoACAH] != 0 && a.A[aNoHdrs] != b.A[aNoACAH] {
			return false
		}
		if b.A[aNoHdrs] != 0 && a.A[aNoACAH] != 0 && b.A[aNoHdrs] != a.A[aNoACAH] {
			return false
		}
		return true
	}
	strip := func(rp *ReqPath, dropACAH bool) string {
		var ws []string
		for _, w := range rp.Writes {
			if dropACAH && w.Key == hACAH {
				ws = append(ws, w.Op+" "+w.Key)
				continue
			}
			ws = append(ws, w.Op+" "+w.Key+" := "+w.Tag)
		}
		return strings.Join(ws, "; ") + " | " + rp.StatusTag
	}
	for _, a := range off {
		bad := ""
		n := 0
		for _, b := range on {
			if a == b || !consistent(a, b) {
				continue
			}
			n++
			if len(b.Serves) != 0 {
				bad = "debug-on path reaches the wrapped handler"
			}
			if a.StatusTag == successStatusTag {
				if strip(a, true) != strip(b, true) {
					bad = fmt.Sprintf("a preflight that succeeds with debug off is answered differently with debug on: [%s] vs [%s] on %s", strip(a, false), strip(b, false), b.Describe())
				}
				for _, w := range b.WritesTo(hACAH) {
					if w.Tag != "cfg.acah" && !succ[hACAH][w.Tag] {
						bad = "debug-on Allow-Headers value of unexpected provenance: " + w.Tag
					}
				}
				continue
			}
			// debug-off fails: same Vary, only success-like CORS headers in addition
			var va, vb []string
			for _, w := range a.WritesTo(hVary) {
				va = append(va, w.Op+w.Tag)
			}
			for _, w := range b.WritesTo(hVary) {
				vb = append(vb, w.Op+w.Tag)
			}
			if strings.Join(va, ";") != strings.Join(vb, ";") {
				bad = "debug mode changes the Vary header of a failing preflight"
			}
			for _, w := range b.Writes {
				if w.Key == hVary {
					continue
				}
				if !allowedKeys[w.Key] {
					bad = "debug mode adds header " + w.Key + " to a failing preflight"
				} else if !succ[w.Key][w.Tag] && w.Tag != "cfg.acah" {
					bad = fmt.Sprintf("debug mode writes %s := %s, which no successful preflight writes", w.Key, w.Tag)
				}
			}
			if b.StatusTag != successStatusTag && b.StatusTag != a.StatusTag {
				bad = "debug-on failing preflight has status " + b.StatusTag
			}
		}
		if bad != "" {
			r.fail("R9.3", a.Describe(), "", bad)
		} else {
			r.ok("R9.3", a.Describe(), n, "")
		}
	}
}

// ---- C12 ------------------------------------------------------------------

func checkC12(ctx *Ctx) *Result {
	r := newResult("C12")
	r.Explanation = "Decided for every history of requests and adversarial in-place writes, as absence of aliasing and of hidden state: (R12.1) no function of the module other than package initialisation writes a package-level variable, directly or by passing memory derived from one to something that mutates it; (R12.2) the validation path never stores a slice, map or pointer derived from the caller's Config into the configuration it builds (only strings, which are immutable, flow on); (R12.3) every slice placed in the Config returned by Config() is freshly allocated (clone, split, literal, or a module function proved to return fresh memory); (R12.4) shared slices (package-level singletons and the pre-rendered values of the configuration) are installed into a response header map only on paths that never reach the wrapped handler, while on handler paths values reach the map only through Header.Add/Set of a string or as the request's own slice; (R12.5) the request path writes nothing but its locals, its local buffer and the response header map; (R12.6) nothing reachable from Config() writes anything but its own fresh allocations; (R12.7) the internal configuration is written only while it is being validated; (R12.8) the request path consults no map iteration order, clock, random source, environment, atomic cell or other goroutine."
	r.NotDecided = "nothing structural; aliasing introduced by net/http itself is outside the claim"
	r.Trusted = trustedState
	we := ctx.WE()
	r.rule("R12.1", "no write to package-level state outside package initialisation, module-wide", 20)
	r.rule("R12.2", "no slice/map/pointer derived from the caller's Config is retained by the configuration under construction", 5)
	r.rule("R12.3", "every slice stored into the Config returned by Config() is fresh", 3)
	r.rule("R12.4", "shared slices reach a response header map only on handler-free paths", 10)
	r.rule("R12.5", "the request path writes only locals, its buffer map and the response header map", 1)
	r.rule("R12.7", "the fields of the internal configuration are written only on the validation path, before publication (nothing prepared later by SetDebug, Reconfigure or a request: the answers of a configuration do not depend on the calls that preceded it)", 1)
	r.rule("R12.8", "no hidden input on the request path: no range over a map, select, goroutine, clock, random source, environment or atomic cell in module code reachable from the request closure", 1)
	r.rule("R12.6", "Config() is read-only: nothing reachable from Config()/newConfig writes memory of the configuration it renders (later requests are answered as if Config() had not been called)", 1)
	renderingReadOnly(ctx, r, "R12.6")
	// R12.1
	nSites := 0
	for _, fn := range ctx.P.Funcs {
		if fn.Name() == "init" || strings.HasPrefix(fn.Name(), "init#") {
			continue
		}
		r.fn(funcName(fn))
		bad := ""
		for _, s := range we.sites[fn] {
			nSites++
			for _, rt := range s.Roots {
				if rt.Kind == RGlobal {
					bad = fmt.Sprintf("%s writes package-level state: %s targets %s @%s", funcName(fn), s.What, rt, ctx.P.Pos(s.Pos))
				}
			}
		}
		r.check(bad == "", "R12.1", funcName(fn), ctx.P.Pos(fn.Pos()), bad, len(we.sites[fn])+1)
	}
	r.CallSites += nSites
	// R12.2
	val := ctx.Validation()
	if val.Builder == nil {
		r.undecided("R12.2", "builder", "anchor not found")
	} else {
		reach := we.Reach(val.Builder)
		inReach := map[*ssa.Function]bool{}
		for _, f := range reach {
			inReach[f] = true
		}
		for _, f := range reach {
			bad := ""
			n := 0
			check := func(val ssa.Value, what string, pos string) {
				n++
				switch val.Type().Underlying().(type) {
				case *types.Slice, *types.Map, *types.Pointer:
				default:
					return
				}
				for _, rt := range we.roots(val) {
					for _, fr := range we.resolveRoot(f, rt, ctx.Validation().Builder, inReach, map[string]bool{}, 0) {
						if fr.Kind == RParam && fr.Idx == 0 {
							bad = fmt.Sprintf("%s: a %s derived from the caller's Config is retained (%s) @%s", funcName(f), types.TypeString(val.Type(), nil), what, pos)
						}
					}
				}
			}
			for _, b := range f.Blocks {
				for _, ins := range b.Instrs {
					switch x := ins.(type) {
					case *ssa.Store:
						// storing into a local cell is not retention unless the cell is the configuration:
						// be conservative and consider every store whose target is not a plain local variable of scalar use
						if a, ok := x.Addr.(*ssa.Alloc); ok && !a.Heap {
							_ = a
						}
						if _, isFA := x.Addr.(*ssa.FieldAddr); isFA {
							check(x.Val, "stored into a struct field", ctx.P.Pos(x.Pos()))
						}
						if _, isIA := x.Addr.(*ssa.IndexAddr); isIA {
							check(x.Val, "stored into a slice element", ctx.P.Pos(x.Pos()))
						}
					case *ssa.MapUpdate:
						check(x.Value, "stored into a map", ctx.P.Pos(x.Pos()))
					}
				}
			}
			r.check(bad == "", "R12.2", funcName(f), ctx.P.Pos(f.Pos()), bad, n+1)
		}
		// ... nor by the Middleware itself: what NewMiddleware and Reconfigure
		// store into it does not derive from their Config argument
		for _, name := range []string{"NewMiddleware", "(*Middleware).Reconfigure"} {
			f := ctx.P.Func(pkgRoot, name)
			if f == nil {
				continue
			}
			cfgIdx := -1
			for i, q := range f.Params {
				if isNamedPtr(q.Type(), pkgRoot, "Config") {
					cfgIdx = i
				}
			}
			bad := ""
			n := 0
			for _, b := range f.Blocks {
				for _, ins := range b.Instrs {
					st, ok := ins.(*ssa.Store)
					if !ok {
						continue
					}
					fa, isFA := st.Addr.(*ssa.FieldAddr)
					if !isFA || !isNamedPtr(fa.X.Type(), pkgRoot, "Middleware") || !isRefType(st.Val.Type()) {
						continue
					}
					n++
					// what the stored value designates, and — for the address of a
					// local copy — what was copied into it
					rts := we.roots(st.Val)
					var cells func(v ssa.Value, seen map[ssa.Value]bool)
					cells = func(v ssa.Value, seen map[ssa.Value]bool) {
						if v == nil || seen[v] {
							return
						}
						seen[v] = true
						switch x := v.(type) {
						case *ssa.Phi:
							for _, e := range x.Edges {
								cells(e, seen)
							}
						case *ssa.Alloc:
							if x.Referrers() != nil {
								for _, ref := range *x.Referrers() {
									if s2, ok := ref.(*ssa.Store); ok && s2.Addr == x && isRefType(s2.Val.Type()) {
										rts = append(rts, we.roots(s2.Val)...)
									}
								}
							}
						}
					}
					cells(st.Val, map[ssa.Value]bool{})
					for _, rt := range rts {
						if rt.Kind == RParam && rt.Idx == cfgIdx {
							bad = fmt.Sprintf("%s stores into the Middleware a value derived from the caller's Config (the caller can change it afterwards) @%s", funcName(f), ctx.P.Pos(st.Pos()))
						}
					}
				}
			}
			r.check(bad == "", "R12.2", funcName(f)+": the Middleware retains nothing of the caller's Config", ctx.P.Pos(f.Pos()), bad, n+1)
		}
	}
	// R12.3
	nc := ctx.P.Func(pkgRoot, "newConfig")
	if nc == nil {
		r.undecided("R12.3", "newConfig", "anchor not found")
	} else {
		r.fn(funcName(nc))
		stores := 0
		for _, b := range nc.Blocks {
			for _, ins := range b.Instrs {
				st, ok := ins.(*ssa.Store)
				if !ok {
					continue
				}
				if _, isSlice := st.Val.Type().Underlying().(*types.Slice); !isSlice {
					continue
				}
				fa, ok := st.Addr.(*ssa.FieldAddr)
				if !ok {
					continue
				}
				stores++
				fld := fa.X.Type().Underlying().(*types.Pointer).Elem().Underlying().(*types.Struct).Field(fa.Field).Name()
				bad := ""
				for _, rt := range we.roots(st.Val) {
					if rt.Kind != RLocal && rt.Kind != RConst {
						bad = fmt.Sprintf("Config.%s receives memory that is not fresh: derives from %s", fld, rt)
					}
				}
				r.check(bad == "", "R12.3", "newConfig: Config."+fld+" @"+ctx.P.Pos(st.Pos()), ctx.P.Pos(st.Pos()), bad, 1)
			}
		}
		if stores < 4 {
			r.undecided("R12.3", "newConfig", fmt.Sprintf("only %d slice fields are filled, expected ≥4", stores))
		}
		for _, name := range []string{"(*Tree).Elems", "(SortedSet).ToSlice", "(Set).ToSlice"} {
			pkg := pkgOrigins
			if strings.Contains(name, "Set") {
				pkg = pkgUtil
			}
			f := ctx.P.Func(pkg, name)
			if f == nil {
				r.undecided("R12.3", name, "anchor not found")
				continue
			}
			fresh, why := we.ReturnsFresh(f)
			r.check(fresh, "R12.3", funcName(f)+" returns fresh memory", ctx.P.Pos(f.Pos()), "result aliases "+why, 1)
		}
	}
	// R12.3 presupposes that what Config() hands out IS newConfig's result
	r.rule("R6.2", "Config() returns the result of a newConfig call made in this invocation on the snapshot it read (no memoised or post-processed value)", 1)
	configPlumbing(ctx, r, "R6.2")
	// R12.4
	rt, ok := requestTableGuards(ctx, r)
	if ok {
		for _, rp := range rt.Paths {
			if len(rp.Serves) == 0 {
				continue
			}
			bad := ""
			for _, w := range rp.Writes {
				switch {
				case (w.Op == "add" || w.Op == "set") && strings.HasPrefix(w.Tag, "const("):
				case (w.Op == "add" || w.Op == "set") && (w.Tag == "cfg.aceh"): // a string
				case w.Op == "assign" && strings.HasPrefix(w.Tag, "hdr1("):
				case w.Op == "append" && strings.HasPrefix(w.Tag, "append(old("+w.Key+"), const("): // what Header.Add does
				default:
					bad = "a value the wrapped handler could mutate in place is shared: " + w.String()
				}
			}
			r.check(bad == "", "R12.4", rp.Describe(), "", bad, len(rp.Writes)+1)
		}
		checkWrites(ctx, r, we, "R12.5", rt.Closure, func(rt Root) bool {
			return rt.Kind == RLocal || rt.Kind == RConst || (rt.Kind == RCallRes && rt.Name == "invoke http.ResponseWriter.Header")
		}, "keeps state across requests")
		// R12.8: no hidden input — the only sources of non-determinism a
		// request path could consult are map iteration order, time, random
		// numbers, the environment and other goroutines
		bad := 0
		nf := 0
		for _, f := range we.Reach(rt.Closure) {
			if !ctx.P.InModule(f) {
				continue
			}
			nf++
			if _, _, isCopy := mapCopyShape(f); isCopy {
				continue // maps.Copy written out: the result does not depend on the order
			}
			for _, b := range f.Blocks {
				for _, ins := range b.Instrs {
					what := ""
					switch x := ins.(type) {
					case *ssa.Range:
						if _, isMap := x.X.Type().Underlying().(*types.Map); isMap {
							what = "ranges over a map (iteration order is unspecified)"
						}
					case *ssa.Select:
						what = "select statement"
					case *ssa.Go:
						what = "starts a goroutine"
					}
					if what != "" {
						bad++
						r.fail("R12.8", funcName(f)+": "+what, ctx.P.Pos(ins.Pos()), what+" on the request path")
					}
				}
			}
			for _, c := range we.extCalls[f] {
				for _, pre := range []string{"time.", "math/rand", "crypto/rand", "os.", "runtime.", "sync/atomic.", "(*sync/atomic."} {
					if strings.HasPrefix(c, pre) {
						bad++
						r.fail("R12.8", funcName(f)+": call "+c, ctx.P.Pos(f.Pos()), "the request path consults "+c+", an input that is neither the configuration, the debug mode nor the request")
					}
				}
			}
		}
		if bad == 0 {
			r.ok("R12.8", fmt.Sprintf("%d module functions reachable from the request closure", nf), nf, "")
		}
	}
	// R12.7: the published configuration is never written again: no request,
	// SetDebug or Config() call leaves a trace in it
	configFieldOwnership(ctx, r, "R12.7")
	return r
}
