package main

import (
	"encoding/json"
	"fmt"
	"os"
	"sort"
	"strconv"
	"strings"
	"time"
)

type propFunc func(ctx *Ctx) *Result

var registry = map[string]propFunc{}

func seedFromEnv() int64 {
	if s := os.Getenv("VERIF_SEED"); s != "" {
		if n, err := strconv.ParseInt(s, 10, 64); err == nil {
			return n
		}
	}
	return 0
}

func runProperties(dir, verifDir, property, tier string) int {
	if t := os.Getenv("VERIF_TIER"); t != "" && tier == "" {
		tier = t
	}
	if tier != "thorough" {
		tier = "quick"
	}
	var ids []string
	if property == "all" {
		for id := range registry {
			ids = append(ids, id)
		}
		sort.Strings(ids)
	} else if _, ok := registry[property]; ok {
		ids = []string{property}
	} else {
		fmt.Printf("unknown property %q\n", property)
		return 2
	}
	status := 0
	for _, id := range ids {
		started := time.Now()
		rc := runOne(dir, verifDir, id, tier, started)
		if rc != 0 {
			status = 1
		}
	}
	return status
}

func runOne(dir, verifDir, id, tier string, started time.Time) (rc int) {
	p, err := Load(dir, nil, "")
	if err != nil {
		r := newResult(id)
		r.rule("E0", "loader and coverage guard", 0)
		r.undecided("E0", "load", err.Error())
		ctx := &Ctx{P: &Prog{Dir: dir}, Tier: tier, VerifDir: verifDir, cache: map[string]any{}}
		return finish(ctx, r, started, seedFromEnv())
	}
	ctx := &Ctx{P: p, Tier: tier, VerifDir: verifDir, cache: map[string]any{}}
	var r *Result
	func() {
		defer func() {
			if e := recover(); e != nil {
				r = newResult(id)
				r.rule("E0", "analyser integrity", 0)
				r.undecided("E0", "panic", fmt.Sprint(e))
			}
		}()
		r = registry[id](ctx)
	}()
	if tier == "thorough" && r != nil {
		thoroughExtras(ctx, id, r)
	}
	return finish(ctx, r, started, seedFromEnv())
}

// thoroughExtras: (1) the same rules on two further load configurations
// (GOARCH=386, build tag verif) must yield the same obligations with the same
// outcome — a file or branch hidden behind a build constraint would show up
// as a difference; (2) the result of the checker's both-ways self-test
// (variant corpus and seeded changes), produced by tools/thorough.sh, is
// attached to the evidence.
func thoroughExtras(ctx *Ctx, id string, r *Result) {
	r.rule("E0.2", "thorough: identical obligations under GOARCH=386 and under build tag `verif`", 2)
	base := map[string]bool{}
	for _, o := range r.Obls {
		base[o.Key()] = o.OK
	}
	for _, alt := range []struct {
		name string
		env  []string
		tags string
	}{{"GOARCH=386", []string{"GOARCH=386"}, ""}, {"tags=verif", nil, "verif"}} {
		p2, err := Load(ctx.P.Dir, alt.env, alt.tags)
		if err != nil {
			r.undecided("E0.2", alt.name, err.Error())
			continue
		}
		ctx2 := &Ctx{P: p2, Tier: "quick", VerifDir: ctx.VerifDir, cache: map[string]any{}}
		var r2 *Result
		func() {
			defer func() {
				if e := recover(); e != nil {
					r2 = nil
				}
			}()
			r2 = registry[id](ctx2)
		}()
		if r2 == nil {
			r.undecided("E0.2", alt.name, "analysis panicked under this load configuration")
			continue
		}
		diff := ""
		other := map[string]bool{}
		for _, o := range r2.Obls {
			other[o.Key()] = o.OK
			if v, ok := base[o.Key()]; !ok {
				diff = "obligation only under " + alt.name + ": " + o.Key()
			} else if v != o.OK {
				diff = "obligation decided differently under " + alt.name + ": " + o.Key()
			}
		}
		for k := range base {
			if _, ok := other[k]; !ok && !strings.HasPrefix(k, "E0.2") {
				diff = "obligation missing under " + alt.name + ": " + k
			}
		}
		r.check(diff == "", "E0.2", alt.name, "", diff, len(r2.Obls))
	}
	if f := os.Getenv("VERIF_SELFTEST"); f != "" {
		if b, err := os.ReadFile(f); err == nil {
			var v any
			if json.Unmarshal(b, &v) == nil {
				r.Samples = append([]any{map[string]any{"checker_selftest": v}}, r.Samples...)
			}
		}
	}
}
