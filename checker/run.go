package main

import (
	"fmt"
	"os"
	"sort"
	"strconv"
	"time"
)

type propFunc func(ctx *Ctx) *Result

var registry = map[string]propFunc{}

func seedFromEnv() int64 {
	if s := os.Getenv("VERIF_SEED"); s != "" {
		if n, err := strconv.ParseInt(s, 10, 64); err == nil {
			return n
		}
	}
	return 0
}

func runProperties(dir, verifDir, property, tier string) int {
	if t := os.Getenv("VERIF_TIER"); t != "" && tier == "" {
		tier = t
	}
	if tier != "thorough" {
		tier = "quick"
	}
	var ids []string
	if property == "all" {
		for id := range registry {
			ids = append(ids, id)
		}
		sort.Strings(ids)
	} else if _, ok := registry[property]; ok {
		ids = []string{property}
	} else {
		fmt.Printf("unknown property %q\n", property)
		return 2
	}
	status := 0
	for _, id := range ids {
		started := time.Now()
		rc := runOne(dir, verifDir, id, tier, started)
		if rc != 0 {
			status = 1
		}
	}
	return status
}

func runOne(dir, verifDir, id, tier string, started time.Time) (rc int) {
	p, err := Load(dir, nil, "")
	if err != nil {
		r := newResult(id)
		r.rule("E0", "loader and coverage guard", 0)
		r.undecided("E0", "load", err.Error())
		ctx := &Ctx{P: &Prog{Dir: dir}, Tier: tier, VerifDir: verifDir, cache: map[string]any{}}
		return finish(ctx, r, started, seedFromEnv())
	}
	ctx := &Ctx{P: p, Tier: tier, VerifDir: verifDir, cache: map[string]any{}}
	var r *Result
	func() {
		defer func() {
			if e := recover(); e != nil {
				r = newResult(id)
				r.rule("E0", "analyser integrity", 0)
				r.undecided("E0", "panic", fmt.Sprint(e))
			}
		}()
		r = registry[id](ctx)
	}()
	return finish(ctx, r, started, seedFromEnv())
}
