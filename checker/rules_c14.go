package main

import (
	"fmt"
	"strconv"
	"strings"
)

func init() { registry["C14"] = checkC14 }

// linear form of an unsigned/int sum term: returns the constant part and the
// multiset of non-constant addends.
func linearSum(t *Term) (int64, []string, bool) {
	switch {
	case t.Op == "const":
		v, err := strconv.ParseInt(t.Name, 10, 64)
		return v, nil, err == nil
	case t.Op == "bin" && t.Name == "+":
		a, as, ok1 := linearSum(t.Args[0])
		b, bs, ok2 := linearSum(t.Args[1])
		return a + b, append(as, bs...), ok1 && ok2
	case t.Op == "conv" && len(t.Args) == 1:
		return linearSum(t.Args[0])
	}
	return 0, []string{t.Key()}, true
}

func checkC14(ctx *Ctx) *Result {
	r := newResult("C14")
	r.Explanation = "Necessary conditions of `approved ⇔ well-formed sorted list of allowed names`, decided structurally (the equivalence over all byte strings — window and boundary arithmetic — is NOT decided): (R14.1) gating on the request path: with debug off and a discrete set, the request's ACRH lines are reflected only on paths carrying Check(allowed set of the snapshot, these very lines) = true, and Check = false or an empty set leads to the failing answer; (R14.2) per-element table of headers.Check (both loops cut at their headers): an element is obtained by cutting at the first comma within the window and trimming at most MaxOWSBytes of OWS per side; a failed trim rejects; an empty element increments the counter, which is compared with MaxEmptyElements before going on; a non-empty element is looked up with IndexAfter(set, position of the last name, element), a negative result rejects, otherwise the result becomes the new position — no path goes on past a non-empty element without that lookup; `true` is returned only after the last line; after a comma the scan resumes right behind it; (R14.3) the window is 1·MaxLen(set) + c with c ≥ 2·MaxOWSBytes + 1, MaxOWSBytes = 1, MaxEmptyElements = 16; (R14.4) IndexAfter searches elems[n+1:] and returns n+1+index, or -1 when absent or longer than the longest name."
	r.NotDecided = "that the windowed scanner accepts exactly the documented language for every byte string (comma exactly at the window edge, 16 vs 17 empties across lines, whitespace-only elements): arithmetic over runtime values"
	r.Trusted = append([]string{"strings.IndexByte, slices.BinarySearch behave as documented; headers.TrimOWS trims at most n OWS bytes per side (its loops are bounded by n; not re-derived)"}, trustedRequestPath...)
	p := ctx.P
	r.rule("R14.1", "gating: ACRH is reflected (debug off, discrete names) only after Check(snapshot's set, the same lines) succeeded", 20)
	r.rule("R14.2", "per-element decision table of headers.Check", 8)
	r.rule("R14.3", "window = MaxLen(set) + c with c ≥ 2·MaxOWSBytes+1; MaxOWSBytes = 1; MaxEmptyElements = 16", 3)
	r.rule("R14.4", "IndexAfter: search in elems[n+1:], result n+1+i or -1 (a length cut-off, if any, reports -1)", 1)

	// ---- R14.1 ----------------------------------------------------------
	rt, ok := requestTableGuards(ctx, r)
	if ok {
		for _, rp := range rt.Paths {
			if !isPreflightPath(rp) || rp.Is(aDebug) || rp.A[aAsterisk] != -1 || rp.A[aACRH] != 1 {
				continue
			}
			desc := rp.Describe()
			reflected := false
			for _, w := range rp.WritesTo(hACAH) {
				if w.Tag == "hdrs("+hACRH+")" {
					reflected = true
				}
			}
			var bufACAH bool
			for _, w := range rp.BufLeft {
				if w.Key == hACAH {
					bufACAH = true
				}
			}
			good, detail := true, ""
			if (reflected || bufACAH) && !(rp.Is(aCheck) && rp.Not(aNoHdrs)) {
				good, detail = false, "the requested header names are approved without Check(allowed set, requested lines) having succeeded on this path"
			}
			if rp.StatusTag == successStatusTag && !rp.Is(aCheck) {
				good, detail = false, "the preflight succeeds although the header step did not pass Check"
			}
			if (rp.Not(aCheck) || rp.Is(aNoHdrs)) && (rp.StatusTag == successStatusTag || reflected) {
				good, detail = false, "Check failed (or no name is allowed) but the preflight is not refused"
			}
			r.check(good, "R14.1", desc, "", detail, 1)
		}
	}

	// ---- constants ---------------------------------------------------------
	ows, e1 := p.ConstInt(pkgHeaders, "MaxOWSBytes")
	empt, e2 := p.ConstInt(pkgHeaders, "MaxEmptyElements")
	if e1 != nil || e2 != nil {
		r.undecided("R14.3", "constants", fmt.Sprint(e1, e2))
		return r
	}
	r.check(ows == 1, "R14.3", "MaxOWSBytes", "", fmt.Sprintf("MaxOWSBytes = %d, documentation says 1", ows), 1)
	r.check(empt == 16, "R14.3", "MaxEmptyElements", "", fmt.Sprintf("MaxEmptyElements = %d, documentation says 16", empt), 1)

	// ---- R14.2 / R14.3 on headers.Check ---------------------------------------
	fn := p.Func(pkgHeaders, "Check")
	if fn == nil {
		r.undecided("R14.2", "headers.Check", "anchor not found")
		return r
	}
	x := p.NewExec(nil)
	paths := x.Summarize(fn)
	r.Paths += len(paths)
	r.fn(funcName(fn))
	if len(x.Problems) > 0 || len(loopHeaders(fn)) != 2 {
		r.undecided("R14.2", "headers.Check", fmt.Sprintf("expected two nested loops, fully summarised: %d loops, problems %v", len(loopHeaders(fn)), x.Problems))
		return r
	}
	setP, linesP := "param:"+fn.Params[0].Name(), "param:"+fn.Params[1].Name()
	// identify the headers: outer = the one reached from entry
	outer := ""
	for _, pa := range paths {
		if pa.Start == "entry" {
			outer = pa.End
		}
	}
	inner := ""
	for _, pa := range paths {
		if pa.Start == outer && pa.End != "return" && pa.End != outer {
			inner = pa.End
		}
	}
	if outer == "" || inner == "" {
		r.undecided("R14.2", "headers.Check", "cannot identify the line loop and the element loop")
		return r
	}
	// loop-carried names by role
	var linePhi, posPhi, emptyPhi string
	for _, pa := range paths {
		if pa.Start == outer && pa.End == inner {
			for name, v := range pa.Next {
				if v.Op == "load" && v.Args[0].Op == "iaddr" && v.Args[0].Args[0].Key() == linesP {
					linePhi = name
				}
			}
		}
		if pa.Start == "entry" {
			for name, v := range pa.Next {
				if v.IsConst("-1") && name != "rangeindex" {
					posPhi = name
				}
			}
		}
	}
	for _, pa := range paths {
		if pa.Start == inner {
			for name, v := range pa.Next {
				if v.Op == "bin" && v.Name == "+" && v.Args[1].IsConst("1") && v.Args[0].Op == "loopphi" && name != "rangeindex" && name != posPhi {
					emptyPhi = name
				}
			}
		}
	}
	if linePhi == "" || posPhi == "" || emptyPhi == "" {
		r.undecided("R14.2", "headers.Check", fmt.Sprintf("cannot identify the loop-carried values (line %q, position %q, empty counter %q)", linePhi, posPhi, emptyPhi))
		return r
	}
	L := "loopphi:" + linePhi + "@" + inner
	POS := "loopphi:" + posPhi + "@" + inner
	EMP := "loopphi:" + emptyPhi + "@" + inner
	// window
	var window *Term
	for _, pa := range paths {
		for _, a := range pa.Atoms {
			a.T.Mentions(func(s *Term) bool {
				if s.Op == "call" && s.Name == "strings.IndexByte" && len(s.Args) == 2 && s.Args[1].IsConst("44") {
					window = s.Args[0]
				}
				return false
			})
		}
	}
	if window == nil {
		r.fail("R14.2", "headers.Check: comma search", p.Pos(fn.Pos()), "no search for a comma (strings.IndexByte(…, ',')) in the element loop")
		return r
	}
	// window = slice(L, _, int(min(uint(len(L)), maxLen)), _)
	goodW, detailW := true, ""
	var maxLen *Term
	if window.Op != "slice" || window.Args[0].Key() != L || !window.Args[1].IsConst("_") {
		goodW, detailW = false, "the comma is not searched in a leading window of the current line: "+window.Key()
	} else {
		hi := window.Args[2]
		hi.Mentions(func(s *Term) bool {
			if s.Op == "min" && len(s.Args) == 2 {
				for i, a := range s.Args {
					if strings.Contains(a.Key(), "len:builtin.len("+L+")") {
						maxLen = s.Args[1-i]
					}
				}
			}
			return false
		})
		if maxLen == nil {
			goodW, detailW = false, "the window is not min(len(line), bound): "+hi.Key()
		}
	}
	if maxLen != nil {
		c, vars, okLin := linearSum(maxLen)
		want := "call:(util.SortedSet).MaxLen(" + setP + ")"
		if !okLin || len(vars) != 1 || vars[0] != want {
			goodW, detailW = false, "the window bound is not 1·MaxLen(set) + constant: "+maxLen.Key()
		} else if c < 2*ows+1 {
			goodW, detailW = false, fmt.Sprintf("the window bound is MaxLen(set)+%d, smaller than MaxLen + 2·MaxOWSBytes + 1 = MaxLen+%d: a padded longest name followed by a comma no longer fits", c, 2*ows+1)
		}
	}
	r.check(goodW, "R14.3", "headers.Check: window = MaxLen(set) + c, c ≥ 2·MaxOWSBytes+1", p.Pos(fn.Pos()), detailW, 1)

	comma := "call:strings.IndexByte(" + window.Key() + ", 44)"
	found := "bin:<(" + comma + ", 0)" // positive = no comma in the window
	cutYes := "slice(" + L + ", _, " + comma + ", _)"
	after := "slice(" + L + ", bin:+(" + comma + ", 1), _, _)"
	nSteps := 0
	for _, pa := range paths {
		if pa.Start != inner {
			continue
		}
		nSteps++
		desc := "headers.Check element step {" + checkShort(pa, L, comma) + "}"
		good, detail := true, ""
		noComma := pa.Val(found)
		cut := cutYes
		if noComma == 1 {
			cut = L
		}
		trim := "call:headers.TrimOWS(" + cut + ", " + fmt.Sprint(ows) + ")"
		name := trim + "#0"
		lookup := "call:(util.SortedSet).IndexAfter(" + setP + ", " + POS + ", " + name + ")"
		isRetFalse := pa.End == "return" && len(pa.Rets) == 1 && pa.Rets[0].IsConst("false")
		goesOn := pa.End == inner || pa.End == outer
		switch {
		case noComma == 0:
			good, detail = false, "the step does not depend on whether a comma was found in the window"
		case pa.Val(trim+"#1") == 0:
			good, detail = false, "the element is not obtained by TrimOWS(cut at the comma, MaxOWSBytes)"
		case pa.Val(trim+"#1") == -1:
			if !isRetFalse {
				good, detail = false, "an element with too much optional whitespace is not rejected"
			}
		case pa.Val("bin:==("+name+", \"\")") == 1:
			over := pa.Val("bin:<(" + fmt.Sprint(empt) + ", bin:+(" + EMP + ", 1))")
			switch {
			case over == 0:
				good, detail = false, "an empty element is not counted against MaxEmptyElements"
			case over == 1 && !isRetFalse:
				good, detail = false, "more than MaxEmptyElements empty elements are not rejected"
			case over == -1:
				if !goesOn {
					good, detail = false, "a tolerated empty element ends the scan"
				} else if pa.Next[emptyPhi] == nil || pa.Next[emptyPhi].Key() != "bin:+("+EMP+", 1)" {
					good, detail = false, "the empty-element counter is not incremented"
				} else if pa.Next[posPhi] != nil && pa.Next[posPhi].Key() != POS {
					good, detail = false, "an empty element changes the position of the last name seen"
				}
			}
		case pa.Val("bin:==("+name+", \"\")") == -1:
			neg := pa.Val("bin:<(" + lookup + ", 0)")
			switch {
			case neg == 0:
				good, detail = false, "a non-empty element is passed over without IndexAfter(set, position of the last name, element)"
			case neg == 1 && !isRetFalse:
				good, detail = false, "an element that is not an allowed name after the last one seen is not rejected"
			case neg == -1:
				if !goesOn {
					good, detail = false, "an accepted element ends the scan with "+fmt.Sprint(pa.Rets)
				} else if pa.Next[posPhi] == nil || pa.Next[posPhi].Key() != lookup {
					got := "<unchanged>"
					if pa.Next[posPhi] != nil {
						got = pa.Next[posPhi].Key()
					}
					good, detail = false, "the position of the last name seen does not become the element's own position: "+got
				} else if v := pa.Next[emptyPhi]; v != nil && v.Key() != EMP {
					good, detail = false, "a non-empty element changes the empty-element counter (the limit would apply per run of empty elements, not to the whole list): "+v.Key()
				}
			}
		default:
			good, detail = false, "the step does not distinguish empty from non-empty elements"
		}
		if good && goesOn {
			// where the scan resumes
			if noComma == -1 {
				if pa.End != inner || pa.Next[linePhi] == nil || pa.Next[linePhi].Key() != after {
					good, detail = false, "after a comma the scan does not resume right behind it within the same line"
				}
			} else if pa.End != outer {
				good, detail = false, "without a comma in the window the line is not finished"
			}
		}
		if pa.End == "return" && len(pa.Rets) == 1 && pa.Rets[0].IsConst("true") {
			good, detail = false, "`approved` is returned from inside the element loop"
		}
		r.check(good, "R14.2", desc, "", detail, 1)
	}
	if nSteps < 8 {
		r.undecided("R14.2", "headers.Check steps", fmt.Sprintf("only %d element steps found", nSteps))
	}
	// outer loop: true only when lines are exhausted; inner loop starts at the line itself
	badOuter := ""
	for _, pa := range paths {
		if pa.Start != outer {
			continue
		}
		guard := "bin:<(bin:+(loopphi:rangeindex@" + outer + ", 1), len:builtin.len(" + linesP + "))"
		if pa.End == "return" {
			if len(pa.Rets) != 1 || !pa.Rets[0].IsConst("true") || pa.Val(guard) != -1 {
				badOuter = "the line loop returns something other than `true` at exhaustion"
			}
		} else if pa.End == inner {
			if v := pa.Next[linePhi]; v == nil || !(v.Op == "load" && v.Args[0].Op == "iaddr" && v.Args[0].Args[0].Key() == linesP) {
				badOuter = "the element loop does not start on the current field line"
			}
			if v := pa.Next[posPhi]; v != nil && v.Key() != "loopphi:"+posPhi+"@"+outer {
				badOuter = "the position of the last name seen is reset between field lines: " + v.Key()
			}
			if v := pa.Next[emptyPhi]; v != nil && v.Key() != "loopphi:"+emptyPhi+"@"+outer {
				badOuter = "the empty-element counter is reset between field lines: " + v.Key()
			}
		}
	}
	for _, pa := range paths {
		if pa.Start == "entry" && pa.End != "return" {
			if v := pa.Next[emptyPhi]; v != nil && !v.IsConst("0") {
				badOuter = "the empty-element counter does not start at 0: " + v.Key()
			}
		}
	}
	r.check(badOuter == "", "R14.2", "headers.Check: line loop (true only at exhaustion; counters carried across lines)", p.Pos(fn.Pos()), badOuter, 1)

	// ---- R14.4 ------------------------------------------------------------
	ia := p.Func(pkgUtil, "(SortedSet).IndexAfter")
	if ia == nil {
		r.undecided("R14.4", "IndexAfter", "anchor not found")
		return r
	}
	x2 := p.NewExec(nil)
	ps := x2.Summarize(ia)
	r.Paths += len(ps)
	r.fn(funcName(ia))
	bad := strings.Join(x2.Problems, ";")
	if hasLoop(ia) {
		bad = "IndexAfter contains a loop"
	}
	search := "call:slices.BinarySearch(slice(param:set.elems, bin:+(param:n, 1), _, _), param:e)"
	tooLong := "bin:<(param:set.maxLen, conv:uint(len:builtin.len(param:e)))"
	nFound := 0
	for _, pa := range ps {
		if len(pa.Rets) != 1 {
			bad = "arity"
			continue
		}
		ret := pa.Rets[0].Key()
		switch {
		case pa.Val(tooLong) == 1:
			if ret != "-1" {
				bad = "an element longer than the longest name is not reported absent"
			}
		// (the cut-off against the longest name is an optimisation: without it
		// the search simply does not find the over-long element)
		case pa.Val(search+"#1") == -1:
			if ret != "-1" {
				bad = "an absent element is not reported as -1"
			}
		case pa.Val(search+"#1") == 1:
			nFound++
			if ret != "bin:+(bin:+(param:n, 1), "+search+"#0)" {
				bad = "the position returned is not n+1+index within elems[n+1:]: " + ret
			}
		default:
			bad = "IndexAfter does not search elems[n+1:] for the element: " + pa.AtomString()
		}
	}
	if nFound != 1 {
		bad = fmt.Sprintf("%d paths report a found element", nFound)
	}
	r.check(bad == "", "R14.4", funcName(ia), p.Pos(ia.Pos()), bad, len(ps))
	r.sample(map[string]any{"check_segments": len(paths), "element_steps": nSteps, "window_bound": maxLenKey(maxLen)})
	// IndexAfter binary-searches the set: its elements must be kept sorted
	r.rule("R1.10", "binary-searched slices (here: SortedSet.elems) are sorted whenever they are written", 1)
	sortedDiscipline(ctx, r, "R1.10")
	owsTrimmers(ctx, r)
	return r
}

func maxLenKey(t *Term) string {
	if t == nil {
		return ""
	}
	return t.Key()
}

func checkShort(pa *Path, L, comma string) string {
	s := (&Path{Atoms: pa.Atoms[pa.PreAt:]}).AtomString()
	s = strings.ReplaceAll(s, comma, "COMMA")
	s = strings.ReplaceAll(s, L, "LINE")
	s = strings.ReplaceAll(s, "builtin.", "")
	if len(s) > 330 {
		s = s[:330] + "…"
	}
	return s + " → " + pa.End
}
