package main

import (
	"fmt"
	"strconv"
	"strings"
)

func init() { registry["C14"] = checkC14 }

// linear form of an unsigned/int sum term: returns the constant part and the
// multiset of non-constant addends.
func linearSum(t *Term) (int64, []string, bool) {
	switch {
	case t.Op == "const":
		v, err := strconv.ParseInt(t.Name, 10, 64)
		return v, nil, err == nil
	case t.Op == "bin" && t.Name == "+":
		a, as, ok1 := linearSum(t.Args[0])
		b, bs, ok2 := linearSum(t.Args[1])
		return a + b, append(as, bs...), ok1 && ok2
	case t.Op == "conv" && len(t.Args) == 1:
		return linearSum(t.Args[0])
	}
	return 0, []string{t.Key()}, true
}

func checkC14(ctx *Ctx) *Result {
	r := newResult("C14")
	// "approved if …": nothing but the documented reasons refuses a preflight
	// whose header list passes (shared with C01's converse rule)
	defer func() {
		r.share(checkC01(ctx), map[string]string{"R1.13": "no undocumented refusal: a debug-off preflight that passed the origin step fails only where the private-network, method or header step fails for its documented reason (for the header step: no names allowed, or headers.Check refuses the list)"}, nil)
	}()
	r.Explanation = "Necessary conditions of `approved ⇔ well-formed sorted list of allowed names`, decided structurally (the equivalence over all byte strings — window and boundary arithmetic — is NOT decided): (R14.1) gating on the request path: with debug off and a discrete set, the request's ACRH lines are reflected only on paths carrying Check(allowed set of the snapshot, these very lines) = true, and Check = false or an empty set leads to the failing answer; (R14.2) per-element table of headers.Check (both loops cut at their headers): an element is obtained by cutting at the first comma within the window and trimming at most MaxOWSBytes of OWS per side; a failed trim rejects; an empty element increments the counter, which is compared with MaxEmptyElements before going on; a non-empty element is looked up with IndexAfter(set, position of the last name, element), a negative result rejects, otherwise the result becomes the new position — no path goes on past a non-empty element without that lookup; `true` is returned only after the last line; after a comma the scan resumes right behind it; (R14.3) the window is 1·MaxLen(set) + c with c ≥ 2·MaxOWSBytes + 1, MaxOWSBytes = 1, MaxEmptyElements = 16; (R14.4) IndexAfter searches elems[n+1:] and returns n+1+index, or -1 when absent or longer than the longest name."
	r.NotDecided = "that the windowed scanner accepts exactly the documented language for every byte string (comma exactly at the window edge, 16 vs 17 empties across lines, whitespace-only elements): arithmetic over runtime values"
	r.Trusted = append([]string{"strings.IndexByte, slices.BinarySearch behave as documented; headers.TrimOWS trims at most n OWS bytes per side (its loops are bounded by n; not re-derived)"}, trustedRequestPath...)
	p := ctx.P
	r.rule("R14.1", "gating: ACRH is reflected (debug off, discrete names) only after Check(snapshot's set, the same lines) succeeded", 20)
	r.rule("R14.2", "per-element decision table of headers.Check", 8)
	r.rule("R14.3", "window = MaxLen(set) + c with c ≥ 2·MaxOWSBytes+1; MaxOWSBytes = 1; MaxEmptyElements = 16", 3)
	r.rule("R14.4", "IndexAfter: search in elems[n+1:], result n+1+i or -1 (a length cut-off, if any, reports -1)", 1)

	// ---- R14.1 ----------------------------------------------------------
	rt, ok := requestTableGuards(ctx, r)
	if ok {
		for _, rp := range rt.Paths {
			if !isPreflightPath(rp) || rp.Is(aDebug) || rp.A[aAsterisk] == 1 || rp.A[aACRH] != 1 {
				continue
			}
			desc := rp.Describe()
			reflected := false
			for _, w := range rp.WritesTo(hACAH) {
				if w.Tag == "hdrs("+hACRH+")" {
					reflected = true
				}
			}
			var bufACAH bool
			for _, w := range rp.BufLeft {
				if w.Key == hACAH {
					bufACAH = true
				}
			}
			good, detail := true, ""
			if (reflected || bufACAH) && !(rp.Is(aCheck) && rp.Not(aNoHdrs)) {
				good, detail = false, "the requested header names are approved without Check(allowed set, requested lines) having succeeded on this path"
			}
			if rp.StatusTag == successStatusTag && !rp.Is(aCheck) {
				good, detail = false, "the preflight succeeds although the header step did not pass Check"
			}
			if (rp.Not(aCheck) || rp.Is(aNoHdrs)) && (rp.StatusTag == successStatusTag || reflected) {
				good, detail = false, "Check failed (or no name is allowed) but the preflight is not refused"
			}
			r.check(good, "R14.1", desc, "", detail, 1)
		}
	}

	// ---- constants ---------------------------------------------------------
	ows, e1 := p.ConstInt(pkgHeaders, "MaxOWSBytes")
	empt, e2 := p.ConstInt(pkgHeaders, "MaxEmptyElements")
	if e1 != nil || e2 != nil {
		r.undecided("R14.3", "constants", fmt.Sprint(e1, e2))
		return r
	}
	r.check(ows == 1, "R14.3", "MaxOWSBytes", "", fmt.Sprintf("MaxOWSBytes = %d, documentation says 1", ows), 1)
	r.check(empt == 16, "R14.3", "MaxEmptyElements", "", fmt.Sprintf("MaxEmptyElements = %d, documentation says 16", empt), 1)

	// ---- R14.2 / R14.3 on headers.Check ---------------------------------------
	fn := p.Func(pkgHeaders, "Check")
	if fn == nil {
		r.undecided("R14.2", "headers.Check", "anchor not found")
		return r
	}
	x := p.NewExec(nil)
	paths := x.Summarize(fn)
	r.Paths += len(paths)
	r.fn(funcName(fn))
	if len(x.Problems) > 0 || len(loopHeaders(fn)) != 2 {
		r.undecided("R14.2", "headers.Check", fmt.Sprintf("expected two nested loops, fully summarised: %d loops, problems %v", len(loopHeaders(fn)), x.Problems))
		return r
	}
	setP, linesP := "param:"+fn.Params[0].Name(), "param:"+fn.Params[1].Name()
	// identify the headers: outer = the one reached from entry
	outer := ""
	for _, pa := range paths {
		if pa.Start == "entry" {
			outer = pa.End
		}
	}
	inner := ""
	for _, pa := range paths {
		if pa.Start == outer && pa.End != "return" && pa.End != outer {
			inner = pa.End
		}
	}
	if outer == "" || inner == "" {
		r.undecided("R14.2", "headers.Check", "cannot identify the line loop and the element loop")
		return r
	}
	// loop-carried names by role
	var linePhi, posPhi, emptyPhi string
	for _, pa := range paths {
		if pa.Start == outer && pa.End == inner {
			for name, v := range pa.Next {
				if v.Op == "load" && v.Args[0].Op == "iaddr" && v.Args[0].Args[0].Key() == linesP {
					linePhi = name
				}
			}
		}
	}
	// the position of the last name seen: the loop-carried value handed (possibly
	// shifted by a constant) to IndexAfter as its starting point
	var posArg *Term
	posOff := int64(0)
	for _, pa := range paths {
		if pa.Start != inner {
			continue
		}
		for _, a := range pa.Atoms {
			a.T.Mentions(func(s *Term) bool {
				if s.Op == "call" && s.Name == "(util.SortedSet).IndexAfter" && len(s.Args) == 3 && s.Args[0].Key() == setP {
					if b, off := affine(s.Args[1]); b.Op == "loopphi" && strings.HasSuffix(b.Name, "@"+inner) {
						posPhi, posArg, posOff = strings.TrimSuffix(b.Name, "@"+inner), s.Args[1], off
					}
				}
				return false
			})
		}
	}
	for _, pa := range paths {
		if pa.Start == inner {
			for name, v := range pa.Next {
				if v.Op == "bin" && (v.Name == "+" && (v.Args[1].IsConst("1") || v.Args[1].IsConst("-1")) || v.Name == "-" && v.Args[1].IsConst("1")) && v.Args[0].Op == "loopphi" && v.Args[0].Name == name+"@"+inner && name != "rangeindex" && name != posPhi {
					emptyPhi = name
				}
			}
		}
	}
	if linePhi == "" || posPhi == "" || emptyPhi == "" {
		r.undecided("R14.2", "headers.Check", fmt.Sprintf("cannot identify the loop-carried values (line %q, position %q, empty counter %q)", linePhi, posPhi, emptyPhi))
		return r
	}
	L := "loopphi:" + linePhi + "@" + inner
	POS := "loopphi:" + posPhi + "@" + inner
	EMP := "loopphi:" + emptyPhi + "@" + inner
	// the empty-element counter counts up from 0 or down from the limit
	empDown, empDownKey := false, ""
	for _, pa := range paths {
		if pa.Start == inner {
			if v := pa.Next[emptyPhi]; v != nil && (v.Key() == "bin:+("+EMP+", -1)" || v.Key() == "bin:-("+EMP+", 1)") {
				empDown, empDownKey = true, v.Key()
			}
		}
	}
	empStep, empInit := "bin:+("+EMP+", 1)", "0"
	if empDown {
		empStep, empInit = empDownKey, fmt.Sprint(empt)
	}
	// window: per path, the string searched for a comma must be
	// line[:min(len(line), bound)] — written with min, or with a comparison of
	// len(line) against the bound that the path has already decided
	var maxLen *Term
	goodW, detailW := true, ""
	windowOf := func(pa *Path) *Term {
		var window *Term
		for _, a := range pa.Atoms {
			a.T.Mentions(func(s *Term) bool {
				if window == nil && s.Op == "call" && s.Name == "strings.IndexByte" && len(s.Args) == 2 && s.Args[1].IsConst("44") {
					window = s.Args[0]
				}
				return false
			})
		}
		return window
	}
	lenL := "len:builtin.len(" + L + ")"
	checkWindow := func(pa *Path, window *Term) {
		var hi *Term
		switch {
		case window.Key() == L:
		case window.Op == "slice" && window.Args[0].Key() == L && window.Args[1].IsConst("_"):
			if !window.Args[2].IsConst("_") {
				hi = stripConv(window.Args[2])
			}
		default:
			goodW, detailW = false, "the comma is not searched in a leading window of the current line: "+window.Key()
			return
		}
		var bound *Term
		if hi != nil {
			hi.Mentions(func(s *Term) bool {
				if s.Op == "min" && len(s.Args) == 2 {
					for i, a := range s.Args {
						if stripConv(a).Key() == lenL {
							bound = s.Args[1-i]
						}
					}
				}
				return false
			})
		}
		if bound == nil {
			// a comparison between len(line) and the bound decided on this path
			whole := hi == nil || hi.Key() == lenL
			for _, a := range pa.Atoms {
				if a.T.Op != "bin" || a.T.Name != "<" || len(a.T.Args) != 2 {
					continue
				}
				l, rr := stripConv(a.T.Args[0]), stripConv(a.T.Args[1])
				var other *Term
				lenLeq := false // the atom says len(line) ≤ other
				switch {
				case l.Key() == lenL:
					other, lenLeq = a.T.Args[1], a.Pos
				case rr.Key() == lenL:
					other, lenLeq = a.T.Args[0], !a.Pos
				default:
					continue
				}
				if whole && lenLeq || !whole && !lenLeq && stripConv(other).Key() == hi.Key() {
					bound = other
				}
			}
		}
		if bound == nil {
			goodW, detailW = false, "the window is not line[:min(len(line), bound)] on path {"+checkShort(pa, L, "")+"}: "+window.Key()
			return
		}
		if maxLen != nil && stripConv(maxLen).Key() != stripConv(bound).Key() {
			goodW, detailW = false, "the window bound differs between paths: "+maxLen.Key()+" / "+bound.Key()
		}
		maxLen = bound
	}
	anyWindow := false
	for _, pa := range paths {
		if pa.Start != inner {
			continue
		}
		if w := windowOf(pa); w != nil {
			anyWindow = true
			checkWindow(pa, w)
		}
	}
	if !anyWindow {
		r.fail("R14.2", "headers.Check: comma search", p.Pos(fn.Pos()), "no search for a comma (strings.IndexByte(…, ',')) in the element loop")
		return r
	}
	if maxLen != nil {
		c, vars, okLin := linearSum(maxLen)
		want := "call:(util.SortedSet).MaxLen(" + setP + ")"
		if !okLin || len(vars) != 1 || vars[0] != want {
			goodW, detailW = false, "the window bound is not 1·MaxLen(set) + constant: "+maxLen.Key()
		} else if c < 2*ows+1 {
			goodW, detailW = false, fmt.Sprintf("the window bound is MaxLen(set)+%d, smaller than MaxLen + 2·MaxOWSBytes + 1 = MaxLen+%d: a padded longest name followed by a comma no longer fits", c, 2*ows+1)
		}
	}
	r.check(goodW, "R14.3", "headers.Check: window = MaxLen(set) + c, c ≥ 2·MaxOWSBytes+1", p.Pos(fn.Pos()), detailW, 1)

	// an element loop written `for more := true; more; more = commaFound`: a
	// boolean raised on entering the loop, tested first, whose next value
	// decides between the next element and the next line
	flagPhi := ""
	for _, pa := range paths {
		if pa.Start == outer && pa.End == inner {
			for name, v := range pa.Next {
				if v.IsConst("true") && name != linePhi && name != posPhi && name != emptyPhi {
					flagPhi = name
				}
			}
		}
	}
	nSteps := 0
	for _, pa := range paths {
		if pa.Start != inner {
			continue
		}
		end := pa.End
		if flagPhi != "" {
			FLAG := "loopphi:" + flagPhi + "@" + inner
			switch pa.Val(FLAG) {
			case -1:
				// the flag is down: the line is finished, nothing else happens
				bad := ""
				if pa.End != outer {
					bad = "with the continuation flag down the element loop is not left for the next line"
				}
				for _, n := range []string{posPhi, emptyPhi} {
					if v := pa.Next[n]; v != nil && v.Key() != "loopphi:"+n+"@"+inner {
						bad = "leaving the element loop changes " + n
					}
				}
				r.check(bad == "", "R14.2", "headers.Check: element loop left when its continuation flag is down", p.Pos(fn.Pos()), bad, 1)
				continue
			case 0:
				r.fail("R14.2", "headers.Check element step {"+checkShort(pa, L, "")+"}", p.Pos(fn.Pos()), "the element loop's continuation flag is not tested first")
				continue
			}
			if pa.End == inner {
				switch v := pa.Next[flagPhi]; {
				case v != nil && v.IsConst("false"):
					end = outer
				case v != nil && v.IsConst("true"):
				default:
					r.fail("R14.2", "headers.Check element step {"+checkShort(pa, L, "")+"}", p.Pos(fn.Pos()), "the element loop's continuation flag is not decided on this step")
					continue
				}
			}
		}
		nSteps++
		window := windowOf(pa)
		if window == nil {
			r.fail("R14.2", "headers.Check element step {"+checkShort(pa, L, "")+"}", p.Pos(fn.Pos()), "no search for a comma (strings.IndexByte(…, ',')) on this step")
			continue
		}
		comma := "call:strings.IndexByte(" + window.Key() + ", 44)"
		found := "bin:<(" + comma + ", 0)" // positive = no comma in the window
		cutYes := "slice(" + L + ", _, " + comma + ", _)"
		after := "slice(" + L + ", bin:+(" + comma + ", 1), _, _)"
		desc := "headers.Check element step {" + checkShort(pa, L, comma) + "}"
		good, detail := true, ""
		noComma := pa.Val(found)
		cut := cutYes
		if noComma == 1 {
			cut = L
		}
		trim := "call:headers.TrimOWS(" + cut + ", " + fmt.Sprint(ows) + ")"
		name := trim + "#0"
		lookup := "call:(util.SortedSet).IndexAfter(" + setP + ", " + posArg.Key() + ", " + name + ")"
		isRetFalse := pa.End == "return" && len(pa.Rets) == 1 && pa.Rets[0].IsConst("false")
		goesOn := end == inner || end == outer
		switch {
		case noComma == 0:
			good, detail = false, "the step does not depend on whether a comma was found in the window"
		case pa.Val(trim+"#1") == 0:
			good, detail = false, "the element is not obtained by TrimOWS(cut at the comma, MaxOWSBytes)"
		case pa.Val(trim+"#1") == -1:
			if !isRetFalse {
				good, detail = false, "an element with too much optional whitespace is not rejected"
			}
		case pa.Val("bin:==("+name+", \"\")") == 1:
			// the limit is reached: counting up, count+1 > limit; counting
			// down from the limit, nothing left
			over := pa.Val("bin:<(" + fmt.Sprint(empt) + ", bin:+(" + EMP + ", 1))")
			if empDown {
				over = pa.Val("bin:==(" + EMP + ", 0)")
				if over == 0 {
					over = pa.Val("bin:<(" + EMP + ", 1)")
				}
			}
			switch {
			case over == 0:
				good, detail = false, "an empty element is not counted against MaxEmptyElements"
			case over == 1 && !isRetFalse:
				good, detail = false, "more than MaxEmptyElements empty elements are not rejected"
			case over == -1:
				if !goesOn {
					good, detail = false, "a tolerated empty element ends the scan"
				} else if pa.Next[emptyPhi] == nil || pa.Next[emptyPhi].Key() != empStep {
					good, detail = false, "the empty-element counter is not stepped by one"
				} else if pa.Next[posPhi] != nil && pa.Next[posPhi].Key() != POS {
					good, detail = false, "an empty element changes the position of the last name seen"
				}
			}
		case pa.Val("bin:==("+name+", \"\")") == -1:
			neg := pa.Val("bin:<(" + lookup + ", 0)")
			switch {
			case neg == 0:
				good, detail = false, "a non-empty element is passed over without IndexAfter(set, position of the last name, element)"
			case neg == 1 && !isRetFalse:
				good, detail = false, "an element that is not an allowed name after the last one seen is not rejected"
			case neg == -1:
				if !goesOn {
					good, detail = false, "an accepted element ends the scan with "+fmt.Sprint(pa.Rets)
				} else if !affineIs(pa.Next[posPhi], lookup, -posOff) {
					got := "<unchanged>"
					if pa.Next[posPhi] != nil {
						got = pa.Next[posPhi].Key()
					}
					good, detail = false, "the position of the last name seen does not become the element's own position: "+got
				} else if v := pa.Next[emptyPhi]; v != nil && v.Key() != EMP {
					good, detail = false, "a non-empty element changes the empty-element counter (the limit would apply per run of empty elements, not to the whole list): "+v.Key()
				}
			}
		default:
			good, detail = false, "the step does not distinguish empty from non-empty elements"
		}
		if good && goesOn {
			// where the scan resumes
			if noComma == -1 {
				if end != inner || pa.Next[linePhi] == nil || pa.Next[linePhi].Key() != after {
					good, detail = false, "after a comma the scan does not resume right behind it within the same line"
				}
			} else if end != outer {
				good, detail = false, "without a comma in the window the line is not finished"
			}
		}
		if pa.End == "return" && len(pa.Rets) == 1 && pa.Rets[0].IsConst("true") {
			good, detail = false, "`approved` is returned from inside the element loop"
		}
		r.check(good, "R14.2", desc, "", detail, 1)
	}
	if nSteps < 8 {
		r.undecided("R14.2", "headers.Check steps", fmt.Sprintf("only %d element steps found", nSteps))
	}
	// outer loop: true only when lines are exhausted; inner loop starts at the line itself
	badOuter := ""
	// the line loop's guard `index < len(lines)` and its index: a range loop, or
	// an index loop that starts at 0 and is stepped by one per line
	lineGuard, lineIdx := "", ""
	for _, pa := range paths {
		if pa.Start != outer || pa.End != inner {
			continue
		}
		v := pa.Next[linePhi]
		if v == nil || v.Op != "load" || v.Args[0].Op != "iaddr" || len(v.Args[0].Args) < 2 {
			continue
		}
		idx := v.Args[0].Args[1]
		g := "bin:<(" + idx.Key() + ", len:builtin.len(" + linesP + "))"
		if pa.Val(g) == 1 {
			lineGuard, lineIdx = g, idx.Key()
		}
	}
	switch {
	case lineGuard == "":
		badOuter = "the line loop does not read lines[index] under index < len(lines)"
	case lineIdx == "bin:+(loopphi:rangeindex@"+outer+", 1)":
	default:
		// index loop
		name := strings.TrimSuffix(strings.TrimPrefix(lineIdx, "loopphi:"), "@"+outer)
		if !strings.HasPrefix(lineIdx, "loopphi:") || !strings.HasSuffix(lineIdx, "@"+outer) {
			badOuter = "the line loop's index is not a loop counter: " + lineIdx
			break
		}
		for _, pa := range paths {
			v := pa.Next[name]
			switch {
			case pa.End == "return":
			case pa.Start == "entry":
				if v == nil || !v.IsConst("0") {
					badOuter = "the line loop's index does not start at 0"
				}
			case pa.End == outer:
				if !affineIs(v, lineIdx, 1) {
					badOuter = "the line loop's index is not stepped by one per line"
				}
			default:
				if v != nil && v.Key() != "loopphi:"+name+"@"+pa.Start && v.Key() != lineIdx {
					badOuter = "the line loop's index is modified within a line"
				}
			}
		}
	}
	for _, pa := range paths {
		if pa.Start != outer {
			continue
		}
		guard := lineGuard
		if pa.End == "return" {
			if len(pa.Rets) != 1 || !pa.Rets[0].IsConst("true") || pa.Val(guard) != -1 {
				badOuter = "the line loop returns something other than `true` at exhaustion"
			}
		} else if pa.End == inner {
			if v := pa.Next[linePhi]; v == nil || !(v.Op == "load" && v.Args[0].Op == "iaddr" && v.Args[0].Args[0].Key() == linesP) {
				badOuter = "the element loop does not start on the current field line"
			}
			if v := pa.Next[posPhi]; v != nil && v.Key() != "loopphi:"+posPhi+"@"+outer {
				badOuter = "the position of the last name seen is reset between field lines: " + v.Key()
			}
			if v := pa.Next[emptyPhi]; v != nil && v.Key() != "loopphi:"+emptyPhi+"@"+outer {
				badOuter = "the empty-element counter is reset between field lines: " + v.Key()
			}
		} else {
			// from the line loop's head one either returns at exhaustion or
			// starts scanning the current line
			badOuter = "a field line can be passed over without being scanned: the line loop reaches " + pa.End + " on {" + pa.AtomString() + "}"
		}
	}
	for _, pa := range paths {
		if pa.Start == "entry" && pa.End != "return" {
			if v := pa.Next[posPhi]; v == nil || !v.IsConst(fmt.Sprint(-1-posOff)) {
				badOuter = fmt.Sprintf("the position of the last name seen does not start before the first name (IndexAfter would not start at -1): %v", v)
			}
			if v := pa.Next[emptyPhi]; v != nil && !v.IsConst(empInit) {
				badOuter = "the empty-element counter does not start at " + empInit + ": " + v.Key()
			}
		}
	}
	r.check(badOuter == "", "R14.2", "headers.Check: line loop (true only at exhaustion; counters carried across lines)", p.Pos(fn.Pos()), badOuter, 1)

	// ---- R14.4 ------------------------------------------------------------
	ia := p.Func(pkgUtil, "(SortedSet).IndexAfter")
	if ia == nil {
		r.undecided("R14.4", "IndexAfter", "anchor not found")
		return r
	}
	x2 := p.NewExec(nil)
	ps := x2.Summarize(ia)
	r.Paths += len(ps)
	r.fn(funcName(ia))
	bad := strings.Join(x2.Problems, ";")
	if hasLoop(ia) {
		bad = "IndexAfter contains a loop"
	}
	search := "call:slices.BinarySearch(slice(param:set.elems, bin:+(param:n, 1), _, _), param:e)"
	tooLong := "bin:<(param:set.maxLen, conv:uint(len:builtin.len(param:e)))"
	nFound := 0
	for _, pa := range ps {
		if len(pa.Rets) != 1 {
			bad = "arity"
			continue
		}
		ret := pa.Rets[0].Key()
		switch {
		case pa.Val(tooLong) == 1:
			if ret != "-1" {
				bad = "an element longer than the longest name is not reported absent"
			}
		// (the cut-off against the longest name is an optimisation: without it
		// the search simply does not find the over-long element)
		case pa.Val(search+"#1") == -1:
			if ret != "-1" {
				bad = "an absent element is not reported as -1"
			}
		case pa.Val(search+"#1") == 1:
			nFound++
			if ret != "bin:+(bin:+(param:n, 1), "+search+"#0)" {
				bad = "the position returned is not n+1+index within elems[n+1:]: " + ret
			}
		default:
			bad = "IndexAfter does not search elems[n+1:] for the element: " + pa.AtomString()
		}
	}
	if nFound != 1 {
		bad = fmt.Sprintf("%d paths report a found element", nFound)
	}
	r.check(bad == "", "R14.4", funcName(ia), p.Pos(ia.Pos()), bad, len(ps))
	r.sample(map[string]any{"check_segments": len(paths), "element_steps": nSteps, "window_bound": maxLenKey(maxLen)})
	// IndexAfter binary-searches the set: its elements must be kept sorted
	r.rule("R1.10", "binary-searched slices (here: SortedSet.elems) are sorted whenever they are written", 1)
	sortedDiscipline(ctx, r, "R1.10")
	owsTrimmers(ctx, r)
	// "allowed names", "byte-lower-case": what the set holds
	r.rule("R14.6", "the set Check consults holds the configured names byte-lowercased: util.ByteLowercase is strings.ToLower, and the RequestHeaders validator records ByteLowercase(name) for every accepted name (decision table)", 2)
	if _, err := p.caseFolders(); err != nil {
		r.fail("R14.6", "util.ByteLowercase / ByteUppercase", "", err.Error())
	} else {
		r.ok("R14.6", "util.ByteLowercase = strings.ToLower, util.ByteUppercase = strings.ToUpper", 2, "")
	}
	if vf := ctx.ValidationFacts(); len(vf.Problems) > 0 {
		r.undecided("R14.6", "validation-path", strings.Join(vf.Problems, "; "))
	} else {
		sub := &Validation{Lists: map[string]*ValidatorTable{}}
		if t := ctx.Validation().Lists["RequestHeaders"]; t != nil {
			sub.Lists["RequestHeaders"] = t
		}
		reportMismatches(r, "R14.6", sub, vf, func(m mismatch) bool {
			return m.Kind == "missing-effect" || m.Kind == "extra-effect" || m.Kind == "flag"
		}, "a configured header name is not recorded the way Check looks it up")
	}
	return r
}

// affine splits t into base + constant.
func affine(t *Term) (*Term, int64) {
	off := int64(0)
	for t != nil && t.Op == "bin" && len(t.Args) == 2 && (t.Name == "+" || t.Name == "-") && t.Args[1].Op == "const" {
		c, err := strconv.ParseInt(t.Args[1].Name, 10, 64)
		if err != nil {
			break
		}
		if t.Name == "-" {
			c = -c
		}
		off += c
		t = t.Args[0]
	}
	return t, off
}

// affineIs: t is the term with key base, plus off.
func affineIs(t *Term, base string, off int64) bool {
	if t == nil {
		return false
	}
	b, o := affine(t)
	return b.Key() == base && o == off
}

// stripConv removes integer conversions around a term.
func stripConv(t *Term) *Term {
	for t != nil && t.Op == "conv" && len(t.Args) == 1 && (t.Name == "int" || t.Name == "uint") {
		t = t.Args[0]
	}
	return t
}

func maxLenKey(t *Term) string {
	if t == nil {
		return ""
	}
	return t.Key()
}

func checkShort(pa *Path, L, comma string) string {
	s := (&Path{Atoms: pa.Atoms[pa.PreAt:]}).AtomString()
	s = strings.ReplaceAll(s, comma, "COMMA")
	s = strings.ReplaceAll(s, L, "LINE")
	s = strings.ReplaceAll(s, "builtin.", "")
	if len(s) > 330 {
		s = s[:330] + "…"
	}
	return s + " → " + pa.End
}
