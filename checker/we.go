package main

// WE — write-effect, ownership and reachability engine over the module's SSA.
// It answers: which memory may a function write (by the origin of the written
// address), which parameters a function may mutate (fixed point over the
// static call graph), and whether a function returns only fresh memory.

import (
	"fmt"
	"go/constant"
	"go/token"
	"go/types"
	"sort"
	"strings"

	"golang.org/x/tools/go/ssa"
)

type RootKind int

const (
	RLocal   RootKind = iota // allocation made in the function itself (or a callee that returns fresh memory)
	RParam                   // derived from parameter Idx of the function
	RFreeVar                 // derived from a captured variable
	RGlobal                  // derived from a package-level variable
	RCallRes                 // result of a call the engine has no summary for
	RConst                   // constant / nil
	RUnknown
)

type Root struct {
	Kind RootKind
	Idx  int    // parameter index
	Name string // global / callee / freevar name
}

func (r Root) String() string {
	switch r.Kind {
	case RLocal:
		return "local"
	case RParam:
		return fmt.Sprintf("param#%d(%s)", r.Idx, r.Name)
	case RFreeVar:
		return "captured(" + r.Name + ")"
	case RGlobal:
		return "global(" + r.Name + ")"
	case RCallRes:
		return "result-of(" + r.Name + ")"
	case RConst:
		return "const"
	}
	return "unknown"
}

type MutSite struct {
	Fn    *ssa.Function
	Pos   token.Pos
	What  string // store / mapset / append / copy / call <callee> arg i ...
	Roots []Root
}

type WE struct {
	p         *Prog
	callees   map[*ssa.Function][]*ssa.Function
	callers   map[*ssa.Function][]callSite
	sites     map[*ssa.Function][]MutSite
	mutParam  map[*ssa.Function]map[int]bool
	fresh     map[*ssa.Function]int // 0 unknown/in progress, 1 fresh, 2 not fresh
	extCalls  map[*ssa.Function][]string
	rootCache map[ssa.Value][]Root
	resBusy   map[*ssa.Function]bool // functions whose result roots are being computed
}

type callSite struct {
	Caller *ssa.Function
	Call   ssa.CallInstruction
}

// external functions that return fresh memory
var freshExternal = map[string]bool{
	"slices.Clone": true, "strings.Split": true, "strings.Join": true, "strconv.Itoa": true, "errors.Join": true,
	"strings.ToLower": true, "strings.ToUpper": true, "fmt.Sprintf": true, "strings.Fields": true, "strings.SplitN": true,
}

// external functions that mutate their first argument (slice/map/pointer)
var mutatingExternal = map[string][]int{
	"slices.Sort": {0}, "sort.Strings": {0}, "sort.Ints": {0}, "slices.SortFunc": {0}, "sort.Slice": {0}, "slices.Reverse": {0}, "slices.Insert": {0}, "slices.Delete": {0},
	"(http.Header).Add": {0}, "(http.Header).Set": {0}, "(http.Header).Del": {0}, "maps.Copy": {0},
	"(*sync.RWMutex).Lock": {}, "(*sync.RWMutex).Unlock": {}, "(*sync.RWMutex).RLock": {}, "(*sync.RWMutex).RUnlock": {},
	"(*sync.Mutex).Lock": {}, "(*sync.Mutex).Unlock": {},
}

func (ctx *Ctx) WE() *WE {
	if v, ok := ctx.cache["we"]; ok {
		return v.(*WE)
	}
	if ctx.P.we == nil {
		ctx.P.we = newWE(ctx.P)
	}
	w := ctx.P.we
	ctx.cache["we"] = w
	return w
}

func newWE(p *Prog) *WE {
	w := &WE{p: p, callees: map[*ssa.Function][]*ssa.Function{}, callers: map[*ssa.Function][]callSite{},
		sites: map[*ssa.Function][]MutSite{}, mutParam: map[*ssa.Function]map[int]bool{}, fresh: map[*ssa.Function]int{},
		extCalls: map[*ssa.Function][]string{}, rootCache: map[ssa.Value][]Root{}}
	for _, fn := range p.Funcs {
		for _, b := range fn.Blocks {
			for _, ins := range b.Instrs {
				switch v := ins.(type) {
				case ssa.CallInstruction:
					if f := v.Common().StaticCallee(); f != nil {
						if p.InModule(f) && len(f.Blocks) > 0 {
							w.callees[fn] = appendFn(w.callees[fn], f)
							w.callers[f] = append(w.callers[f], callSite{fn, v})
						} else {
							w.extCalls[fn] = appendUnique(w.extCalls[fn], funcName(f))
						}
					} else if v.Common().IsInvoke() {
						w.extCalls[fn] = appendUnique(w.extCalls[fn], "invoke "+short(types.TypeString(v.Common().Value.Type(), nil))+"."+v.Common().Method.Name())
					} else if _, isB := v.Common().Value.(*ssa.Builtin); !isB {
						w.extCalls[fn] = appendUnique(w.extCalls[fn], "dynamic call")
					}
				case *ssa.MakeClosure:
					if f, ok := v.Fn.(*ssa.Function); ok {
						w.callees[fn] = appendFn(w.callees[fn], f)
					}
				}
			}
		}
	}
	// fixed point for mutated parameters
	for changed := true; changed; {
		changed = false
		for _, fn := range p.Funcs {
			sites := w.computeSites(fn)
			w.sites[fn] = sites
			for _, s := range sites {
				for _, r := range s.Roots {
					if r.Kind == RParam {
						if w.mutParam[fn] == nil {
							w.mutParam[fn] = map[int]bool{}
						}
						if !w.mutParam[fn][r.Idx] {
							w.mutParam[fn][r.Idx] = true
							changed = true
						}
					}
				}
			}
		}
	}
	return w
}

// allocBase returns the local cell an address designates a part of.
func allocBase(v ssa.Value) *ssa.Alloc {
	for {
		switch x := v.(type) {
		case *ssa.Alloc:
			return x
		case *ssa.FieldAddr:
			v = x.X
		case *ssa.IndexAddr:
			if _, isPtr := x.X.Type().Underlying().(*types.Pointer); !isPtr {
				return nil // indexing a slice: the elements live elsewhere
			}
			v = x.X
		default:
			return nil
		}
	}
}

func appendFn(s []*ssa.Function, f *ssa.Function) []*ssa.Function {
	for _, g := range s {
		if g == f {
			return s
		}
	}
	return append(s, f)
}

// Reach returns the module functions reachable from the entries through
// static calls and closure creation.
func (w *WE) Reach(entries ...*ssa.Function) []*ssa.Function {
	seen := map[*ssa.Function]bool{}
	var out []*ssa.Function
	var visit func(f *ssa.Function)
	visit = func(f *ssa.Function) {
		if f == nil || seen[f] {
			return
		}
		seen[f] = true
		out = append(out, f)
		for _, c := range w.callees[f] {
			visit(c)
		}
	}
	for _, e := range entries {
		visit(e)
	}
	sort.Slice(out, func(i, j int) bool { return out[i].String() < out[j].String() })
	return out
}

func isRefType(t types.Type) bool {
	switch t.Underlying().(type) {
	case *types.Pointer, *types.Slice, *types.Map, *types.Interface, *types.Chan, *types.Signature:
		return true
	case *types.Struct, *types.Array:
		return true // may contain references
	}
	return false
}

// roots computes where the memory designated by (or reachable through) v
// comes from, relative to v's function.
func (w *WE) roots(v ssa.Value) []Root {
	return w.rootsRec(v, map[ssa.Value]bool{})
}

func (w *WE) rootsRec(v ssa.Value, seen map[ssa.Value]bool) []Root {
	if v == nil || seen[v] {
		return nil
	}
	seen[v] = true
	add := func(rs []Root, more ...Root) []Root {
		for _, m := range more {
			dup := false
			for _, r := range rs {
				if r == m {
					dup = true
				}
			}
			if !dup {
				rs = append(rs, m)
			}
		}
		return rs
	}
	switch x := v.(type) {
	case *ssa.Const:
		return []Root{{Kind: RConst}}
	case *ssa.Global:
		return []Root{{Kind: RGlobal, Name: short(x.Pkg.Pkg.Path() + "." + x.Name())}}
	case *ssa.FreeVar:
		return []Root{{Kind: RFreeVar, Name: x.Name()}}
	case *ssa.Parameter:
		for i, p := range x.Parent().Params {
			if p == x {
				return []Root{{Kind: RParam, Idx: i, Name: x.Name()}}
			}
		}
		return []Root{{Kind: RUnknown}}
	case *ssa.Function:
		return []Root{{Kind: RConst}}
	case *ssa.Alloc:
		// the cell itself is local; what it holds is what was stored into it
		rs := []Root{{Kind: RLocal}}
		return rs
	case *ssa.MakeMap, *ssa.MakeSlice, *ssa.MakeChan, *ssa.MakeClosure:
		return []Root{{Kind: RLocal}}
	case *ssa.FieldAddr:
		return w.rootsRec(x.X, seen)
	case *ssa.IndexAddr:
		return w.rootsRec(x.X, seen)
	case *ssa.Field:
		return w.rootsRec(x.X, seen)
	case *ssa.Index:
		return w.rootsRec(x.X, seen)
	case *ssa.Slice:
		if zeroCapSlice(x) {
			// s[:0:0]: no element is reachable through it and an append to it
			// allocates (the spelled-out slices.Clone)
			return []Root{{Kind: RLocal}}
		}
		return w.rootsRec(x.X, seen)
	case *ssa.ChangeType:
		return w.rootsRec(x.X, seen)
	case *ssa.ChangeInterface:
		return w.rootsRec(x.X, seen)
	case *ssa.MakeInterface:
		return w.rootsRec(x.X, seen)
	case *ssa.TypeAssert:
		return w.rootsRec(x.X, seen)
	case *ssa.Convert:
		if _, ok := x.Type().Underlying().(*types.Basic); ok {
			return []Root{{Kind: RLocal}} // string/number conversion yields a fresh or immutable value
		}
		return w.rootsRec(x.X, seen)
	case *ssa.Extract:
		return w.rootsRec(x.Tuple, seen)
	case *ssa.Lookup:
		return w.rootsRec(x.X, seen)
	case *ssa.Phi:
		var rs []Root
		for _, e := range x.Edges {
			rs = add(rs, w.rootsRec(e, seen)...)
		}
		return rs
	case *ssa.BinOp:
		return []Root{{Kind: RLocal}}
	case *ssa.Range:
		return w.rootsRec(x.X, seen)
	case *ssa.Next:
		return w.rootsRec(x.Iter, seen)
	case *ssa.UnOp:
		if x.Op != token.MUL {
			return []Root{{Kind: RLocal}}
		}
		// load: from a local cell (or a component of it) -> whatever was
		// stored into the cell or any of its components (field-insensitive);
		// from anything else -> memory reachable from that thing
		if a := allocBase(x.X); a != nil {
			var rs []Root
			found := false
			fn := a.Parent()
			for _, b := range fn.Blocks {
				for _, ins := range b.Instrs {
					switch r := ins.(type) {
					case *ssa.Store:
						if allocBase(r.Addr) == a {
							found = true
							if isRefType(r.Val.Type()) {
								rs = add(rs, w.rootsRec(r.Val, seen)...)
							}
						}
					case ssa.CallInstruction:
						// address passed to a callee that may fill the cell
						f := r.Common().StaticCallee()
						if f == nil || !w.p.InModule(f) {
							continue
						}
						for i, arg := range r.Common().Args {
							if allocBase(arg) != a || !w.mutParam[f][i] {
								continue
							}
							found = true
							for _, sr := range w.storedThrough(f, i, map[*ssa.Function]bool{}) {
								if sr.Kind == RParam && sr.Idx == i {
									continue // the cell's own previous content
								}
								if sr.Kind == RParam {
									if sr.Idx < len(r.Common().Args) {
										rs = add(rs, w.rootsRec(r.Common().Args[sr.Idx], seen)...)
									}
									continue
								}
								rs = add(rs, sr)
							}
						}
					}
				}
			}
			if !found || len(rs) == 0 {
				rs = add(rs, Root{Kind: RLocal})
			}
			return rs
		}
		return w.rootsRec(x.X, seen)
	case *ssa.Call:
		c := x.Common()
		if b, ok := c.Value.(*ssa.Builtin); ok {
			switch b.Name() {
			case "append":
				// result aliases the first operand or is fresh
				rs := w.rootsRec(c.Args[0], seen)
				return add(rs, Root{Kind: RLocal})
			case "min", "max", "len", "cap":
				return []Root{{Kind: RConst}}
			}
			return []Root{{Kind: RLocal}}
		}
		if c.IsInvoke() {
			return []Root{{Kind: RCallRes, Name: "invoke " + short(types.TypeString(c.Value.Type(), nil)) + "." + c.Method.Name()}}
		}
		f := c.StaticCallee()
		if f == nil {
			return []Root{{Kind: RCallRes, Name: "dynamic"}}
		}
		name := funcName(f)
		if freshExternal[name] {
			return []Root{{Kind: RLocal}}
		}
		if w.p.InModule(f) && len(f.Blocks) > 0 {
			// map the callee's result roots back to the actuals
			var rs []Root
			for _, rr := range w.resultRoots(f, map[*ssa.Function]bool{}) {
				if rr.Kind == RParam {
					if rr.Idx < len(c.Args) {
						rs = add(rs, w.rootsRec(c.Args[rr.Idx], seen)...)
					}
					continue
				}
				rs = add(rs, rr)
			}
			if len(rs) == 0 {
				rs = []Root{{Kind: RLocal}}
			}
			return rs
		}
		if !isRefType(x.Type()) {
			return []Root{{Kind: RLocal}}
		}
		return []Root{{Kind: RCallRes, Name: name}}
	}
	return []Root{{Kind: RUnknown}}
}

// resultRoots: roots (in f's own terms) of the reference-typed results of f.
func (w *WE) resultRoots(f *ssa.Function, busy map[*ssa.Function]bool) []Root {
	// (a recursive function's own result contributes nothing new to its result)
	if busy[f] || w.resBusy[f] {
		return nil
	}
	busy[f] = true
	defer delete(busy, f)
	if w.resBusy == nil {
		w.resBusy = map[*ssa.Function]bool{}
	}
	w.resBusy[f] = true
	defer delete(w.resBusy, f)
	var rs []Root
	for _, b := range f.Blocks {
		for _, ins := range b.Instrs {
			ret, ok := ins.(*ssa.Return)
			if !ok {
				continue
			}
			for _, res := range ret.Results {
				if !isRefType(res.Type()) {
					continue
				}
				for _, r := range w.roots(res) {
					dup := false
					for _, q := range rs {
						if q == r {
							dup = true
						}
					}
					if !dup {
						rs = append(rs, r)
					}
				}
			}
		}
	}
	return rs
}

// storedThrough: roots (in f's terms) of the values f stores through param i.
func (w *WE) storedThrough(f *ssa.Function, i int, busy map[*ssa.Function]bool) []Root {
	if busy[f] {
		return nil
	}
	busy[f] = true
	defer delete(busy, f)
	var rs []Root
	add := func(more []Root) {
		for _, m := range more {
			dup := false
			for _, r := range rs {
				if r == m {
					dup = true
				}
			}
			if !dup {
				rs = append(rs, m)
			}
		}
	}
	for _, b := range f.Blocks {
		for _, ins := range b.Instrs {
			switch x := ins.(type) {
			case *ssa.Store:
				for _, r := range w.roots(x.Addr) {
					if r.Kind == RParam && r.Idx == i && isRefType(x.Val.Type()) {
						add(w.roots(x.Val))
					}
				}
			case ssa.CallInstruction:
				if g := x.Common().StaticCallee(); g != nil && w.p.InModule(g) {
					for k, arg := range x.Common().Args {
						if !w.mutParam[g][k] {
							continue
						}
						for _, r := range w.roots(arg) {
							if r.Kind == RParam && r.Idx == i {
								for _, sr := range w.storedThrough(g, k, busy) {
									if sr.Kind == RParam {
										if sr.Idx < len(x.Common().Args) {
											add(w.roots(x.Common().Args[sr.Idx]))
										}
									} else {
										add([]Root{sr})
									}
								}
							}
						}
					}
				}
			}
		}
	}
	return rs
}

// computeSites lists the mutation sites of fn with the roots of what they write.
func (w *WE) computeSites(fn *ssa.Function) []MutSite {
	var out []MutSite
	site := func(pos token.Pos, what string, target ssa.Value) {
		out = append(out, MutSite{Fn: fn, Pos: pos, What: what, Roots: w.roots(target)})
	}
	for _, b := range fn.Blocks {
		for _, ins := range b.Instrs {
			switch x := ins.(type) {
			case *ssa.Store:
				site(x.Pos(), "store", x.Addr)
			case *ssa.MapUpdate:
				site(x.Pos(), "map update", x.Map)
			case ssa.CallInstruction:
				c := x.Common()
				if bi, ok := c.Value.(*ssa.Builtin); ok {
					switch bi.Name() {
					case "append", "copy", "clear", "delete":
						if len(c.Args) > 0 {
							site(x.Pos(), "builtin "+bi.Name(), c.Args[0])
						}
					}
					continue
				}
				if c.IsInvoke() {
					continue
				}
				f := c.StaticCallee()
				if f == nil {
					continue
				}
				name := funcName(f)
				if w.p.InModule(f) && len(f.Blocks) > 0 {
					for i := range c.Args {
						if w.mutParam[f][i] {
							site(x.Pos(), fmt.Sprintf("call %s (mutates argument %d)", name, i), c.Args[i])
						}
					}
					continue
				}
				if idx, ok := mutatingExternal[name]; ok {
					for _, i := range idx {
						if i < len(c.Args) {
							site(x.Pos(), "call "+name, c.Args[i])
						}
					}
					continue
				}
				pure := false
				for _, pre := range purePrefixes {
					if strings.HasPrefix(name, pre) {
						pure = true
					}
				}
				if pure {
					continue
				}
				// unknown external: assume every reference argument may be written
				for i, a := range c.Args {
					if isRefType(a.Type()) {
						if _, isStr := a.Type().Underlying().(*types.Basic); !isStr {
							site(x.Pos(), fmt.Sprintf("call %s (unknown external, argument %d)", name, i), a)
						}
					}
				}
			}
		}
	}
	return out
}

// ResolvedSite is a mutation site with its roots expressed in terms of an
// entry function (parameters of intermediate functions substituted by the
// actual arguments along every call chain from the entry).
type ResolvedSite struct {
	MutSite
	Entry *ssa.Function
	Final []Root
	Chain string
}

// ResolveFrom lists the mutation sites of every function reachable from
// entry, resolving parameter roots through the call chains back to entry.
func (w *WE) ResolveFrom(entry *ssa.Function) []ResolvedSite {
	var out []ResolvedSite
	reach := map[*ssa.Function]bool{}
	for _, f := range w.Reach(entry) {
		reach[f] = true
	}
	for f := range reach {
		for _, s := range w.sites[f] {
			rs := ResolvedSite{MutSite: s, Entry: entry}
			for _, r := range s.Roots {
				for _, fr := range w.resolveRoot(f, r, entry, reach, map[string]bool{}, 0) {
					dup := false
					for _, q := range rs.Final {
						if q == fr {
							dup = true
						}
					}
					if !dup {
						rs.Final = append(rs.Final, fr)
					}
				}
			}
			out = append(out, rs)
		}
	}
	sort.Slice(out, func(i, j int) bool { return out[i].Pos < out[j].Pos })
	return out
}

func (w *WE) resolveRoot(f *ssa.Function, r Root, entry *ssa.Function, reach map[*ssa.Function]bool, seen map[string]bool, depth int) []Root {
	if (r.Kind != RParam && r.Kind != RFreeVar) || f == entry || depth > 12 {
		if r.Kind == RParam && f != entry {
			return []Root{{Kind: RUnknown}}
		}
		return []Root{r}
	}
	key := fmt.Sprintf("%p/%v", f, r)
	if seen[key] {
		return nil
	}
	seen[key] = true
	var out []Root
	if r.Kind == RFreeVar {
		// closure: binding made where the closure is created
		if f.Parent() != nil {
			for _, b := range f.Parent().Blocks {
				for _, ins := range b.Instrs {
					if mc, ok := ins.(*ssa.MakeClosure); ok && mc.Fn == f {
						for i, fv := range f.FreeVars {
							if fv.Name() == r.Name && i < len(mc.Bindings) {
								for _, br := range w.roots(mc.Bindings[i]) {
									out = append(out, w.resolveRoot(f.Parent(), br, entry, reach, seen, depth+1)...)
								}
							}
						}
					}
				}
			}
		}
		if len(out) == 0 {
			out = []Root{r}
		}
		return out
	}
	n := 0
	for _, cs := range w.callers[f] {
		if !reach[cs.Caller] {
			continue
		}
		n++
		args := cs.Call.Common().Args
		if r.Idx >= len(args) {
			out = append(out, Root{Kind: RUnknown})
			continue
		}
		for _, ar := range w.roots(args[r.Idx]) {
			out = append(out, w.resolveRoot(cs.Caller, ar, entry, reach, seen, depth+1)...)
		}
	}
	if n == 0 {
		out = append(out, Root{Kind: RUnknown})
	}
	return out
}

// ReturnsFresh reports whether every reference-typed result of f is freshly
// allocated memory (never a parameter, captured variable, global, or memory
// loaded from them).
func (w *WE) ReturnsFresh(f *ssa.Function) (bool, string) {
	for _, r := range w.resultRoots(f, map[*ssa.Function]bool{}) {
		switch r.Kind {
		case RLocal, RConst:
		default:
			return false, r.String()
		}
	}
	return true, ""
}

// FieldsWritten: the fields of the struct pointed to by parameter idx of fn
// that fn (or a module callee it hands the pointer to) may write, including
// memory reachable through those fields. precise=false when the pointee may
// be overwritten as a whole or escapes to code without a summary.
func (w *WE) FieldsWritten(fn *ssa.Function, idx int) (fields []string, precise bool) {
	set := map[string]bool{}
	ok := w.fieldsWritten(fn, idx, set, map[string]bool{})
	for f := range set {
		fields = append(fields, f)
	}
	sort.Strings(fields)
	return fields, ok
}

func (w *WE) fieldsWritten(fn *ssa.Function, idx int, out map[string]bool, busy map[string]bool) bool {
	key := fmt.Sprintf("%p/%d", fn, idx)
	if busy[key] {
		return true
	}
	busy[key] = true
	if idx >= len(fn.Params) || len(fn.Blocks) == 0 {
		return false
	}
	par := fn.Params[idx]
	precise := true
	// fieldOf: which field of *par does the address/value v lead through?
	// returns ("", false) when v does not derive from par, ("", true) when it
	// is par itself (or the whole pointee).
	var fieldOf func(v ssa.Value, seen map[ssa.Value]bool) (string, bool)
	fieldOf = func(v ssa.Value, seen map[ssa.Value]bool) (string, bool) {
		if seen[v] {
			return "", false
		}
		seen[v] = true
		switch x := v.(type) {
		case *ssa.Parameter:
			return "", x == par
		case *ssa.FieldAddr:
			if x.X == ssa.Value(par) {
				st := par.Type().Underlying().(*types.Pointer).Elem().Underlying().(*types.Struct)
				return st.Field(x.Field).Name(), true
			}
			return fieldOf(x.X, seen)
		case *ssa.IndexAddr:
			return fieldOf(x.X, seen)
		case *ssa.Field:
			return fieldOf(x.X, seen)
		case *ssa.Index:
			return fieldOf(x.X, seen)
		case *ssa.Slice:
			return fieldOf(x.X, seen)
		case *ssa.UnOp:
			if x.Op == token.MUL {
				return fieldOf(x.X, seen)
			}
		case *ssa.Phi:
			for _, e := range x.Edges {
				if f, ok := fieldOf(e, seen); ok {
					return f, true
				}
			}
		case *ssa.Call:
			if b, isB := x.Common().Value.(*ssa.Builtin); isB && b.Name() == "append" {
				return fieldOf(x.Common().Args[0], seen)
			}
		case *ssa.ChangeType:
			return fieldOf(x.X, seen)
		}
		return "", false
	}
	note := func(target ssa.Value) {
		f, from := fieldOf(target, map[ssa.Value]bool{})
		if !from {
			return
		}
		if f == "" {
			precise = false
			return
		}
		out[f] = true
	}
	if _, isPtr := par.Type().Underlying().(*types.Pointer); !isPtr {
		return false
	}
	if _, isStruct := par.Type().Underlying().(*types.Pointer).Elem().Underlying().(*types.Struct); !isStruct {
		return false
	}
	for _, b := range fn.Blocks {
		for _, ins := range b.Instrs {
			switch x := ins.(type) {
			case *ssa.Store:
				note(x.Addr)
			case *ssa.MapUpdate:
				note(x.Map)
			case ssa.CallInstruction:
				c := x.Common()
				if bi, ok := c.Value.(*ssa.Builtin); ok {
					switch bi.Name() {
					case "copy", "clear", "delete":
						note(c.Args[0])
					}
					continue
				}
				if c.IsInvoke() {
					for _, a := range c.Args {
						if _, from := fieldOf(a, map[ssa.Value]bool{}); from && isRefType(a.Type()) {
							precise = false
						}
					}
					continue
				}
				f := c.StaticCallee()
				if f == nil {
					for _, a := range c.Args {
						if _, from := fieldOf(a, map[ssa.Value]bool{}); from && isRefType(a.Type()) {
							precise = false
						}
					}
					continue
				}
				name := funcName(f)
				if w.p.InModule(f) && len(f.Blocks) > 0 {
					for k, a := range c.Args {
						fld, from := fieldOf(a, map[ssa.Value]bool{})
						if !from || !w.mutParam[f][k] {
							continue
						}
						if fld != "" {
							out[fld] = true
							continue
						}
						// the pointer itself is passed on
						sub := map[string]bool{}
						if !w.fieldsWritten(f, k, sub, busy) {
							precise = false
						}
						for g := range sub {
							out[g] = true
						}
					}
					continue
				}
				if idxs, ok := mutatingExternal[name]; ok {
					for _, k := range idxs {
						if k < len(c.Args) {
							note(c.Args[k])
						}
					}
					continue
				}
				pure := false
				for _, pre := range purePrefixes {
					if strings.HasPrefix(name, pre) {
						pure = true
					}
				}
				if !pure {
					for _, a := range c.Args {
						if _, from := fieldOf(a, map[ssa.Value]bool{}); from && isRefType(a.Type()) {
							if _, isStr := a.Type().Underlying().(*types.Basic); !isStr {
								precise = false
							}
						}
					}
				}
			}
		}
	}
	return precise
}

// zeroCapSlice: a three-index slice expression whose capacity bound is the
// constant 0.
func zeroCapSlice(x *ssa.Slice) bool {
	c, ok := x.Max.(*ssa.Const)
	if !ok || c.Value == nil {
		return false
	}
	v, exact := constant.Int64Val(constant.ToInt(c.Value))
	return exact && v == 0
}
