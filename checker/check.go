package main

import (
	"bufio"
	"encoding/json"
	"fmt"
	"os"
	"path/filepath"
	"sort"
	"strings"
	"time"
)

// An Obligation is one decided instance of a rule: rule id + construct.
type Obligation struct {
	Rule      string `json:"rule"`
	Construct string `json:"construct"`
	OK        bool   `json:"ok"`
	Kind      string `json:"kind,omitempty"` // violation | undecided (when !OK)
	Detail    string `json:"detail,omitempty"`
	At        string `json:"at,omitempty"`
	Inspected int    `json:"inspected"` // paths / sites / instructions looked at
}

func (o Obligation) Key() string { return o.Rule + " " + o.Construct }

type Result struct {
	Property    string
	Obls        []Obligation
	Samples     []any
	Functions   map[string]bool
	Paths       int
	CallSites   int
	RuleDocs    map[string]string
	MinCount    map[string]int // rule -> minimum instances confirmed by hand
	Explanation string
	NotDecided  string
	Trusted     []string
}

func newResult(id string) *Result {
	return &Result{Property: id, Functions: map[string]bool{}, RuleDocs: map[string]string{}, MinCount: map[string]int{}}
}

func (r *Result) rule(id, doc string, min int) {
	r.RuleDocs[id] = doc
	r.MinCount[id] = min
}

// share copies into r the obligations that another property's check
// discharged under the given rules (the two properties rest on the same
// facts); keep, when set, selects among them.
func (r *Result) share(from *Result, rules map[string]string, keep func(Obligation) bool) {
	for id, doc := range rules {
		if _, known := r.RuleDocs[id]; !known {
			r.rule(id, doc, 1)
		}
	}
	for _, o := range from.Obls {
		if _, ok := rules[o.Rule]; ok && (keep == nil || keep(o)) {
			r.Obls = append(r.Obls, o)
		}
	}
}

func (r *Result) ok(rule, construct string, inspected int, detail string) {
	r.Obls = append(r.Obls, Obligation{Rule: rule, Construct: construct, OK: true, Inspected: inspected, Detail: detail})
}

func (r *Result) fail(rule, construct, at, detail string) {
	r.Obls = append(r.Obls, Obligation{Rule: rule, Construct: construct, OK: false, Kind: "violation", At: at, Detail: detail, Inspected: 1})
}

func (r *Result) undecided(rule, construct, detail string) {
	r.Obls = append(r.Obls, Obligation{Rule: rule, Construct: construct, OK: false, Kind: "undecided", Detail: detail, Inspected: 1})
}

// check records ok or fail depending on cond.
func (r *Result) check(cond bool, rule, construct, at, detail string, inspected int) bool {
	if cond {
		r.ok(rule, construct, inspected, "")
	} else {
		r.fail(rule, construct, at, detail)
	}
	return cond
}

func (r *Result) sample(v any) {
	if len(r.Samples) < 12 {
		r.Samples = append(r.Samples, v)
	}
}

func (r *Result) fn(names ...string) {
	for _, n := range names {
		r.Functions[n] = true
	}
}

// Ctx carries the loaded program and caches shared by the rules.
type Ctx struct {
	P        *Prog
	Tier     string
	VerifDir string
	cache    map[string]any
}

type knownFinding struct {
	Property, Rule, Construct, Text string
}

func loadKnown(verifDir string) ([]knownFinding, error) {
	f, err := os.Open(filepath.Join(verifDir, "KNOWN_FINDINGS.txt"))
	if err != nil {
		if os.IsNotExist(err) {
			return nil, nil
		}
		return nil, err
	}
	defer f.Close()
	var out []knownFinding
	sc := bufio.NewScanner(f)
	for sc.Scan() {
		line := strings.TrimSpace(sc.Text())
		if line == "" || strings.HasPrefix(line, "#") || strings.HasPrefix(line, "fixed:") {
			continue // fixed entries suppress nothing
		}
		// property=Cxx rule=Rn.k construct=<key until ' :: '> :: text
		kf := knownFinding{Text: line}
		head := line
		if i := strings.Index(line, " :: "); i >= 0 {
			head = line[:i]
		}
		for _, fld := range []string{"property=", "rule=", "construct="} {
			i := strings.Index(head, fld)
			if i < 0 {
				continue
			}
			rest := head[i+len(fld):]
			if fld != "construct=" {
				if j := strings.IndexByte(rest, ' '); j >= 0 {
					rest = rest[:j]
				}
			}
			switch fld {
			case "property=":
				kf.Property = rest
			case "rule=":
				kf.Rule = rest
			case "construct=":
				kf.Construct = strings.TrimSpace(rest)
			}
		}
		if kf.Property != "" {
			out = append(out, kf)
		}
	}
	return out, sc.Err()
}

// finish evaluates a result: prints the per-rule summary, writes evidence
// and, on failure, a report; returns the process exit status.
func finish(ctx *Ctx, r *Result, started time.Time, seed int64) int {
	known, err := loadKnown(ctx.VerifDir)
	if err != nil {
		fmt.Println("cannot read KNOWN_FINDINGS.txt:", err)
	}
	// minimum instance counts: a rule that matched fewer constructs than were
	// confirmed by hand fails (no vacuous passes)
	count := map[string]int{}
	for _, o := range r.Obls {
		count[o.Rule]++
	}
	for rule, min := range r.MinCount {
		if count[rule] < min {
			r.Obls = append(r.Obls, Obligation{Rule: rule, Construct: "instance-count", OK: false, Kind: "undecided",
				Detail: fmt.Sprintf("rule matched %d constructs, at least %d expected: the analysis no longer sees what it was written for", count[rule], min), Inspected: 1})
		}
	}
	var bad []Obligation
	knownHit := []string{}
	discharged, inspected := 0, 0
	distinct := map[string]bool{}
	for _, o := range r.Obls {
		inspected += o.Inspected
		if o.Inspected > 0 {
			distinct[o.Key()] = true
		}
		if o.OK {
			discharged++
			continue
		}
		isKnown := false
		for _, k := range known {
			if k.Property == r.Property && k.Rule == o.Rule && k.Construct == o.Construct {
				fmt.Printf("KNOWN-FINDING: property=%s %s: %s\n", r.Property, o.Key(), o.Detail)
				isKnown = true
				knownHit = append(knownHit, o.Key()+": "+o.Detail)
			}
		}
		if !isKnown {
			bad = append(bad, o)
		}
	}
	rules := sortedKeys(r.RuleDocs)
	for _, id := range rules {
		n, okn := 0, 0
		for _, o := range r.Obls {
			if o.Rule == id {
				n++
				if o.OK {
					okn++
				}
			}
		}
		fmt.Printf("%s %-8s %3d/%3d  %s\n", r.Property, id, okn, n, r.RuleDocs[id])
	}
	fns := sortedKeys(r.Functions)
	wall := time.Since(started).Seconds()

	// evidence
	var ruleList []string
	for _, id := range rules {
		ruleList = append(ruleList, id+": "+r.RuleDocs[id])
	}
	var oblSamples []any
	oblSamples = append(oblSamples, r.Samples...)
	for i, o := range r.Obls {
		if len(oblSamples) >= 14 {
			break
		}
		if i%(1+len(r.Obls)/6) == 0 {
			oblSamples = append(oblSamples, o)
		}
	}
	ev := map[string]any{
		"property_id": r.Property,
		"tier":        ctx.Tier,
		"seed":        seed,
		"level":       "other",
		"wall_s":      wall,
		"violations":  len(bad),
		"coverage": map[string]any{
			"explanation":                   r.Explanation,
			"not_decided":                   r.NotDecided,
			"known_findings":                knownHit,
			"obligations":                   len(r.Obls),
			"discharged":                    discharged,
			"evaluations":                   inspected,
			"distinct_nontrivial":           len(distinct),
			"rule":                          "an obligation is one rule instance keyed by rule id + construct (function, path, call site, table); it is non-trivial when deciding it inspected at least one path, site or instruction of /repo's current source; evaluations = paths/sites/instructions inspected",
			"samples":                       oblSamples,
			"functions":                     fns,
			"paths":                         r.Paths,
			"call_sites":                    r.CallSites,
			"rules":                         ruleList,
			"files_analysed":                ctx.P.Files,
			"identifiers_resolved_by_shape": renameStrings(ctx.P.Renames),
			"trusted_base":                  r.Trusted,
			"checker_cmd":                   fmt.Sprintf("bin/corscheck -property %s -tier %s", r.Property, ctx.Tier),
			"exhaustive":                    true,
		},
		"assumptions": r.Trusted,
	}
	_ = os.MkdirAll(filepath.Join(ctx.VerifDir, "evidence"), 0o755)
	b, _ := json.MarshalIndent(ev, "", " ")
	if err := os.WriteFile(filepath.Join(ctx.VerifDir, "evidence", r.Property+".json"), b, 0o644); err != nil {
		fmt.Println("cannot write evidence:", err)
		return 2
	}
	for _, rn := range ctx.P.Renames {
		fmt.Printf("%s note: anchor resolved by shape: %s\n", r.Property, rn)
	}
	if len(bad) == 0 {
		fmt.Printf("%s PASS obligations=%d discharged=%d functions=%d paths=%d wall=%.1fs\n", r.Property, len(r.Obls), discharged, len(fns), r.Paths, wall)
		return 0
	}
	sort.SliceStable(bad, func(i, j int) bool { return bad[i].Key() < bad[j].Key() })
	_ = os.MkdirAll(filepath.Join(ctx.VerifDir, "reports"), 0o755)
	rep := filepath.Join(ctx.VerifDir, "reports", r.Property+".json")
	rb, _ := json.MarshalIndent(map[string]any{"property": r.Property, "failed": bad}, "", " ")
	_ = os.WriteFile(rep, rb, 0o644)
	for _, o := range bad {
		fmt.Printf("%s FAIL [%s] %s @ %s\n    %s\n", r.Property, o.Kind, o.Key(), o.At, o.Detail)
	}
	fmt.Printf("VIOLATION property=%s replay=%s\n", r.Property, rep)
	return 1
}

// CI1 returns "" when configuration invariants CI-1/CI-2 are established on
// the validation path: an accepted configuration whose tree is empty listed
// `*`, and listing `*` with credentialed access or a PNA mode is rejected.
// It relies on the origin validator's decision table (oracle equality), its
// error discipline and publication rule, the builder's error discipline and
// the ownership of internalConfig fields.
func (ctx *Ctx) CI1() string {
	if v, ok := ctx.cache["ci1"]; ok {
		return v.(string)
	}
	res := ""
	scratch := newResult("CI")
	vf := ctx.ValidationFacts()
	val := ctx.Validation()
	if len(vf.Problems) > 0 {
		res = strings.Join(vf.Problems, "; ")
	} else if t := val.Lists["Origins"]; t == nil {
		res = "no origin validator"
	} else {
		l0(ctx, scratch, "CI", t)
		entryRule(ctx, scratch, "CI", t)
		exitStores(ctx, scratch, "CI", t)
		builderRule(ctx, scratch, "CI")
		builderPlumbing(ctx, scratch, "CI")
		configFieldOwnership(ctx, scratch, "CI")
		for _, m := range vf.Mismatches["Origins"] {
			// only what CI-1/CI-2 rest on: the `*` element's errors, and the
			// allow-all flag being set by `*` elements only
			if m.Missing && (m.V["W"] || m.Kind == "flag") {
				scratch.fail("CI", "origin decision table", "", m.Detail)
			}
		}
		for _, o := range scratch.Obls {
			if !o.OK {
				res = o.Key() + ": " + o.Detail
				break
			}
		}
	}
	ctx.cache["ci1"] = res
	return res
}

func renameStrings(rs []Renaming) []string {
	out := []string{}
	for _, r := range rs {
		out = append(out, r.String())
	}
	return out
}
