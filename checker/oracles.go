package main

// Oracles for the validators: the documented decision tables (from the doc
// comments of Config / ExtraConfig / cfgerrors), written independently of the
// code, against which the per-iteration path tables are compared.

import (
	"fmt"
	"go/types"
	"sort"
	"strings"

	"golang.org/x/tools/go/ssa"
)

func errStr(typ string, kv ...string) string {
	var fs []string
	for i := 0; i+1 < len(kv); i += 2 {
		fs = append(fs, kv[i]+"="+kv[i+1])
	}
	sort.Strings(fs)
	return typ + "{" + strings.Join(fs, ",") + "}"
}

const (
	tElem     = "elem"
	tLower    = "util.ByteLowercase(elem)"
	tNorm     = "methods.Normalize(elem)"
	tPattern  = "origins.ParsePattern(elem)#0"
	tParseErr = "origins.ParsePattern(elem)#1"
)

var predWildcard = predDef{"W", eqMatch(tElem, `"*"`)}
var predCred = predDef{"C", tagMatch("cfg.credentialed")}

// roleFlag finds, in the exit segments, the loop-carried boolean that is
// tested positively on the nil-returning path selected by pick.
func (t *ValidatorTable) roleFlag(pick func(pa *Path) bool) string {
	for _, pa := range t.Exit {
		if !pick(pa) {
			continue
		}
		for _, a := range pa.Atoms[pa.PreAt:] {
			if a.T.Op == "loopphi" && a.Pos {
				return strings.SplitN(a.T.Name, "@", 2)[0]
			}
		}
	}
	return ""
}

func (t *ValidatorTable) storesOf(pa *Path) map[string]string {
	out := map[string]string{}
	for _, e := range pa.Effects[pa.PreEff:] {
		if e.Kind == "store" {
			if r := e.Args[0].addrRoot(); r != nil && r.Op == "alloc" {
				continue
			}
			out[t.tag(e.Args[0])] = t.tag(e.Args[1])
		}
	}
	return out
}

func originsOracle(ctx *Ctx, t *ValidatorTable) (*iterOracle, error) {
	kind, err := ctx.P.ConstInt(pkgOrigins, "PatternKindSubdomains")
	if err != nil {
		return nil, err
	}
	anyFlag := t.roleFlag(func(pa *Path) bool {
		_, stores := t.storesOf(pa)["&cfg.tree"]
		return !stores && len(pa.Rets) == 1 && pa.Rets[0].IsConst("nil")
	})
	if anyFlag == "" {
		return nil, fmt.Errorf("cannot identify the allow-all flag of the origin validator (no exit path returns nil without storing the tree under a loop-carried boolean)")
	}
	insert := "(*origins.Tree).Insert(local<origins.Tree>,&" + tPattern + ")"
	o := &iterOracle{
		Preds: []predDef{
			predWildcard, predCred,
			{"P1", tagMatch("cfg.privateNetworkAccess")},
			{"P2", tagMatch("cfg.privateNetworkAccessNoCors")},
			{"PARSED", eqMatch(tParseErr, "nil")},
			{"INSECURE", tagMatch("(*origins.Pattern).IsDeemedInsecure(&" + tPattern + ")")},
			{"TOLINSEC", tagMatch("cfg.insecureOrigins")},
			{"SUBS", eqMatch(tPattern+".HostPattern.Kind", fmt.Sprint(kind))},
			{"TOLSUBS", tagMatch("cfg.subsOfPublicSuffixes")},
			{"ETLD", tagMatch("(*origins.Pattern).HostIsEffectiveTLD(&" + tPattern + ")#1")},
		},
		Expect: func(v map[string]bool) expectation {
			var e expectation
			pna := v["P1"] || v["P2"]
			switch {
			case v["W"]:
				if v["C"] {
					e.Errs = append(e.Errs, errStr("IncompatibleOriginPatternError", "Value", `"*"`, "Reason", `"credentialed"`))
				}
				if pna {
					e.Errs = append(e.Errs, errStr("IncompatibleOriginPatternError", "Value", `"*"`, "Reason", `"pna"`))
				}
				e.MustNext = map[string]string{anyFlag: "true"}
			case !v["PARSED"]:
				e.Errs = []string{"propagate(" + tParseErr + ")"}
			default:
				if v["INSECURE"] && !v["TOLINSEC"] {
					if v["C"] {
						e.Errs = append(e.Errs, errStr("IncompatibleOriginPatternError", "Value", tElem, "Reason", `"credentialed"`))
					}
					if pna {
						e.Errs = append(e.Errs, errStr("IncompatibleOriginPatternError", "Value", tElem, "Reason", `"pna"`))
					}
				}
				if v["SUBS"] && !v["TOLSUBS"] && v["ETLD"] {
					e.Errs = append(e.Errs, errStr("IncompatibleOriginPatternError", "Value", tElem, "Reason", `"psl"`))
				}
				e.MustCall = []string{insert}
				e.MustNext = map[string]string{anyFlag: "carried:" + anyFlag}
			}
			return e
		},
	}
	return o, nil
}

func methodsOracle(ctx *Ctx, t *ValidatorTable) (*iterOracle, error) {
	add := "(*util.Set).Add(local<util.Set>," + tNorm + ")"
	forbid, err := ctx.P.SetTable(pkgMethods, "byteUppercasedForbiddenMethods")
	if err != nil {
		return nil, err
	}
	norm, err := ctx.P.SetTable(pkgMethods, "browserNormalizedMethods")
	if err != nil {
		return nil, err
	}
	safe, err := ctx.P.SetTable(pkgMethods, "safelistedMethods")
	if err != nil {
		return nil, err
	}
	// audited equivalence (R5.3a): Normalize is the identity on forbidden
	// methods iff no forbidden method is browser-normalised
	normIsIdentityOnForbidden := !intersects(upperAll(forbid), upperAll(norm))
	safeForbidDisjoint := !intersects(upperAll(forbid), upperAll(safe))
	o := &iterOracle{
		Preds: []predDef{
			predWildcard,
			{"VALID", tagMatch("methods.IsValid(elem)")},
			{"SAFE", tagMatch("methods.IsSafelisted(" + tNorm + ")")},
			{"FORB", func(t *ValidatorTable, x *Term) bool {
				g := t.tag(x)
				return g == "methods.IsForbidden("+tNorm+")" || g == "methods.IsForbidden(elem)"
			}},
		},
		Feasible: func(v map[string]bool) bool {
			return !(safeForbidDisjoint && v["SAFE"] && v["FORB"])
		},
		Expect: func(v map[string]bool) expectation {
			var e expectation
			switch {
			case v["W"]:
				e.MustStore = map[string]string{"&cfg.allowAnyMethod": "true"}
			case !v["VALID"]:
				e.Errs = []string{errStr("UnacceptableMethodError", "Value", tElem, "Reason", `"invalid"`)}
			case v["FORB"]:
				e.Errs = []string{errStr("UnacceptableMethodError", "Value", tElem, "Reason", `"forbidden"`)}
				if normIsIdentityOnForbidden {
					e.AltErrs = [][]string{{errStr("UnacceptableMethodError", "Value", tNorm, "Reason", `"forbidden"`)}}
				}
			case v["SAFE"]:
				e.MayCall = []string{add}
			default:
				e.MustCall = []string{add}
			}
			return e
		},
	}
	return o, nil
}

func upperAll(s []string) []string {
	var out []string
	for _, x := range s {
		out = append(out, strings.ToUpper(x))
	}
	return out
}

func intersects(a, b []string) bool {
	m := map[string]bool{}
	for _, x := range a {
		m[x] = true
	}
	for _, y := range b {
		if m[y] {
			return true
		}
	}
	return false
}

func reqHeadersOracle(ctx *Ctx, t *ValidatorTable) (*iterOracle, error) {
	add := "(*util.SortedSet).Add(local<util.SortedSet>," + tLower + ")"
	forb, err := ctx.P.SetTable(pkgHeaders, "discreteForbiddenRequestHeaderNames")
	if err != nil {
		return nil, err
	}
	proh, err := ctx.P.SetTable(pkgHeaders, "prohibitedRequestHeaderNames")
	if err != nil {
		return nil, err
	}
	disjoint := !intersects(forb, proh)
	for _, n := range proh {
		if strings.HasPrefix(n, "proxy-") || strings.HasPrefix(n, "sec-") {
			disjoint = false
		}
	}
	o := &iterOracle{
		Preds: []predDef{
			predWildcard, predCred,
			{"VALID", tagMatch("headers.IsValid(elem)")},
			{"AUTH", eqMatch(tLower, `"authorization"`)},
			{"SEENAUTH", tagMatch("cfg.allowAuthorization")},
			{"SEENSTAR", tagMatch("cfg.asteriskReqHdrs")},
			{"FORB", tagMatch("headers.IsForbiddenRequestHeaderName(" + tLower + ")")},
			{"PROH", tagMatch("headers.IsProhibitedRequestHeaderName(" + tLower + ")")},
		},
		Feasible: func(v map[string]bool) bool {
			if disjoint && v["FORB"] && v["PROH"] {
				return false
			}
			return true
		},
		Expect: func(v map[string]bool) expectation {
			var e expectation
			switch {
			case v["W"]:
				e.MustStore = map[string]string{"&cfg.asteriskReqHdrs": "true"}
			case !v["VALID"]:
				e.Errs = []string{errStr("UnacceptableHeaderNameError", "Value", tElem, "Type", `"request"`, "Reason", `"invalid"`)}
			case v["AUTH"]:
				// permitted; must be remembered; must be in the discrete set
				// unless the wildcard has been seen (then the set is never
				// consulted: R15.2β)
				if v["SEENAUTH"] {
					e.MayStore = map[string]string{"&cfg.allowAuthorization": "true"}
					e.MayCall = []string{add}
				} else {
					e.MustStore = map[string]string{"&cfg.allowAuthorization": "true"}
					if v["SEENSTAR"] {
						e.MayCall = []string{add}
					} else {
						e.MustCall = []string{add}
					}
				}
			case v["FORB"]:
				e.Errs = []string{errStr("UnacceptableHeaderNameError", "Value", tElem, "Type", `"request"`, "Reason", `"forbidden"`)}
			case v["PROH"]:
				e.Errs = []string{errStr("UnacceptableHeaderNameError", "Value", tElem, "Type", `"request"`, "Reason", `"prohibited"`)}
			default:
				e.MustCall = []string{add}
			}
			return e
		},
	}
	return o, nil
}

func resHeadersOracle(ctx *Ctx, t *ValidatorTable) (*iterOracle, error) {
	add := "(*util.Set).Add(local<util.Set>," + tLower + ")"
	forb, err := ctx.P.SetTable(pkgHeaders, "forbiddenResponseHeaderNames")
	if err != nil {
		return nil, err
	}
	proh, err := ctx.P.SetTable(pkgHeaders, "prohibitedResponseHeaderNames")
	if err != nil {
		return nil, err
	}
	safe, err := ctx.P.SetTable(pkgHeaders, "safelistedResponseHeaderNames")
	if err != nil {
		return nil, err
	}
	dFP, dFS, dPS := !intersects(forb, proh), !intersects(forb, safe), !intersects(proh, safe)
	allFlag := t.roleFlag(func(pa *Path) bool {
		return t.storesOf(pa)["&cfg.aceh"] == `"*"`
	})
	if allFlag == "" {
		return nil, fmt.Errorf("cannot identify the expose-all flag of the response-header validator")
	}
	o := &iterOracle{
		Preds: []predDef{
			predWildcard, predCred,
			{"VALID", tagMatch("headers.IsValid(elem)")},
			{"FORB", tagMatch("headers.IsForbiddenResponseHeaderName(" + tLower + ")")},
			{"PROH", tagMatch("headers.IsProhibitedResponseHeaderName(" + tLower + ")")},
			{"SAFE", tagMatch("headers.IsSafelistedResponseHeaderName(" + tLower + ")")},
		},
		Feasible: func(v map[string]bool) bool {
			return !(dFP && v["FORB"] && v["PROH"]) && !(dFS && v["FORB"] && v["SAFE"]) && !(dPS && v["PROH"] && v["SAFE"])
		},
		Expect: func(v map[string]bool) expectation {
			var e expectation
			switch {
			case v["W"]:
				if v["C"] {
					e.Errs = []string{errStr("IncompatibleWildcardResponseHeaderNameError")}
				}
				e.MustNext = map[string]string{allFlag: "true"}
			case !v["VALID"]:
				e.Errs = []string{errStr("UnacceptableHeaderNameError", "Value", tElem, "Type", `"response"`, "Reason", `"invalid"`)}
			case v["FORB"]:
				e.Errs = []string{errStr("UnacceptableHeaderNameError", "Value", tElem, "Type", `"response"`, "Reason", `"forbidden"`)}
			case v["PROH"]:
				e.Errs = []string{errStr("UnacceptableHeaderNameError", "Value", tElem, "Type", `"response"`, "Reason", `"prohibited"`)}
			case v["SAFE"]:
				e.MayCall = []string{add}
				e.MustNext = map[string]string{allFlag: "carried:" + allFlag}
			default:
				e.MustCall = []string{add}
				e.MustNext = map[string]string{allFlag: "carried:" + allFlag}
			}
			return e
		},
	}
	return o, nil
}

func oracleFor(ctx *Ctx, t *ValidatorTable) (*iterOracle, error) {
	switch t.Field {
	case "Origins":
		return originsOracle(ctx, t)
	case "Methods":
		return methodsOracle(ctx, t)
	case "RequestHeaders":
		return reqHeadersOracle(ctx, t)
	case "ResponseHeaders":
		return resHeadersOracle(ctx, t)
	}
	return nil, fmt.Errorf("no documented decision table for Config field %s", t.Field)
}

// ValidationFacts: the comparison results shared by C04, C05, C15 and the
// configuration invariants.
type ValidationFacts struct {
	Mismatches map[string][]mismatch // by Config field
	Problems   []string
	IterCount  map[string]int
	Oracles    map[string]*iterOracle
}

func (ctx *Ctx) ValidationFacts() *ValidationFacts {
	if v, ok := ctx.cache["vfacts"]; ok {
		return v.(*ValidationFacts)
	}
	vf := &ValidationFacts{Mismatches: map[string][]mismatch{}, IterCount: map[string]int{}, Oracles: map[string]*iterOracle{}}
	val := ctx.Validation()
	vf.Problems = append(vf.Problems, val.Problems...)
	for _, want := range []string{"Origins", "Methods", "RequestHeaders", "ResponseHeaders"} {
		if val.Lists[want] == nil {
			vf.Problems = append(vf.Problems, "no list validator found for Config."+want)
		}
	}
	for _, f := range sortedKeys(val.Lists) {
		t := val.Lists[f]
		if len(t.Problems) > 0 {
			vf.Problems = append(vf.Problems, fmt.Sprintf("%s: %s", funcName(t.Fn), strings.Join(t.Problems, "; ")))
			continue
		}
		o, err := oracleFor(ctx, t)
		if err != nil {
			vf.Problems = append(vf.Problems, fmt.Sprintf("%s: %v", funcName(t.Fn), err))
			continue
		}
		vf.Oracles[f] = o
		for _, ip := range t.Iter {
			t.valuation(o, ip)
			vf.Mismatches[f] = append(vf.Mismatches[f], t.compare(o, ip)...)
			vf.IterCount[f]++
		}
	}
	ctx.cache["vfacts"] = vf
	return vf
}

// fieldWriters lists, per field of the named struct type of package pkg, the
// module functions containing a store to that field (through any pointer).
func (p *Prog) fieldWriters(pkg, typ string) map[string][]string {
	out := map[string][]string{}
	for _, fn := range p.Funcs {
		for _, b := range fn.Blocks {
			for _, ins := range b.Instrs {
				st, ok := ins.(*ssa.Store)
				if !ok {
					continue
				}
				addr := st.Addr
				// *p = v on a whole value of typ overwrites every field
				// (assigning a local variable its value is not an overwrite)
				if pt, ok := addr.Type().Underlying().(*types.Pointer); ok && isNamed(pt.Elem(), pkg, typ) {
					if _, local := addr.(*ssa.Alloc); !local {
						out["(whole value)"] = appendUnique(out["(whole value)"], funcName(fn))
					}
				}
				// &x.f, possibly nested: attribute to the outermost field of typ
				for {
					fa, ok := addr.(*ssa.FieldAddr)
					if !ok {
						break
					}
					pt := fa.X.Type().Underlying().(*types.Pointer)
					if isNamed(pt.Elem(), pkg, typ) {
						name := pt.Elem().Underlying().(*types.Struct).Field(fa.Field).Name()
						out[name] = appendUnique(out[name], funcName(fn))
					}
					addr = fa.X
				}
			}
		}
	}
	return out
}

func appendUnique(s []string, x string) []string {
	for _, y := range s {
		if y == x {
			return s
		}
	}
	return append(s, x)
}
