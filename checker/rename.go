package main

// ALPHA — anchor resolution under renaming. The rules name the module's
// unexported functions, types, constants and fields (node.add, icfg.tree, …).
// Renaming such an identifier changes no behaviour, so it must not turn a
// check red. Before analysis the loader compares the unexported identifiers of
// each package with a reference inventory (name, kind, shape) taken from the
// tree the rules were written against. An identifier of the inventory that is
// absent, together with exactly one new identifier of the same kind and shape
// (signature / underlying type / constant value / owner, type and position of
// a field), is taken to be a renaming; the program is then analysed through a
// go/packages overlay in which every reference to the object is spelled with
// its inventory name (an α-renaming: binding structure is checked, the files
// on disk are untouched). Anything ambiguous is left alone — the rule that
// needs the anchor then reports it as unresolved, as before.

import (
	_ "embed"
	"encoding/json"
	"fmt"
	"go/ast"
	"go/types"
	"os"
	"sort"
	"strings"

	"golang.org/x/tools/go/packages"
)

//go:embed idents_ref.json
var identsRefJSON []byte

// identInfo describes one unexported identifier.
type identInfo struct {
	Kind  string `json:"kind"`  // type const var func method field
	Owner string `json:"owner"` // method: receiver type; field: struct type
	Name  string `json:"name"`
	Shape string `json:"shape"`
	Index int    `json:"index"`          // field: position in the struct
	Ptr   bool   `json:"ptr,omitempty"`  // method: pointer receiver
	Init  string `json:"init,omitempty"` // var: its initialiser as written (tie-break between same-typed variables)
}

func (i identInfo) key() string {
	if i.Owner != "" {
		return i.Kind + " " + i.Owner + "." + i.Name
	}
	return i.Kind + " " + i.Name
}

type identEntry struct {
	identInfo
	obj types.Object
}

// shapeOf prints a type with the module's unexported named types spelled by
// canon (their inventory name, or "?" when unknown).
func shapeOf(t types.Type, canon func(*types.TypeName) string, depth int) string {
	if depth > 6 {
		return "…"
	}
	switch t := t.(type) {
	case *types.Basic:
		return t.Name()
	case *types.Named:
		o := t.Obj()
		s := o.Name()
		if o.Pkg() != nil {
			if strings.HasPrefix(o.Pkg().Path(), modPath) && renamable(o) {
				s = canon(o)
			}
			s = o.Pkg().Path() + "." + s
		}
		if ta := t.TypeArgs(); ta != nil && ta.Len() > 0 {
			var as []string
			for i := 0; i < ta.Len(); i++ {
				as = append(as, shapeOf(ta.At(i), canon, depth+1))
			}
			s += "[" + strings.Join(as, ",") + "]"
		}
		return s
	case *types.Alias:
		return shapeOf(types.Unalias(t), canon, depth)
	case *types.Pointer:
		return "*" + shapeOf(t.Elem(), canon, depth+1)
	case *types.Slice:
		return "[]" + shapeOf(t.Elem(), canon, depth+1)
	case *types.Array:
		return fmt.Sprintf("[%d]%s", t.Len(), shapeOf(t.Elem(), canon, depth+1))
	case *types.Map:
		return "map[" + shapeOf(t.Key(), canon, depth+1) + "]" + shapeOf(t.Elem(), canon, depth+1)
	case *types.Chan:
		return "chan " + shapeOf(t.Elem(), canon, depth+1)
	case *types.Tuple:
		var as []string
		for i := 0; i < t.Len(); i++ {
			as = append(as, shapeOf(t.At(i).Type(), canon, depth+1))
		}
		return "(" + strings.Join(as, ",") + ")"
	case *types.Signature:
		s := "func" + shapeOf(t.Params(), canon, depth+1) + shapeOf(t.Results(), canon, depth+1)
		if t.Variadic() {
			s += "…"
		}
		return s
	case *types.Struct:
		var fs []string
		for i := 0; i < t.NumFields(); i++ {
			f := t.Field(i)
			n := "_"
			if !renamable(f) {
				n = f.Name()
			}
			fs = append(fs, n+" "+shapeOf(f.Type(), canon, depth+1))
		}
		return "struct{" + strings.Join(fs, ";") + "}"
	case *types.Interface:
		var ms []string
		for i := 0; i < t.NumMethods(); i++ {
			m := t.Method(i)
			ms = append(ms, m.Name()+shapeOf(m.Type(), canon, depth+1))
		}
		return "interface{" + strings.Join(ms, ";") + "}"
	case *types.TypeParam:
		return "T" + fmt.Sprint(t.Index())
	}
	return t.String()
}

// renamable: identifiers outside the module's public API — unexported ones,
// and everything declared in an internal package.
func renamable(o types.Object) bool {
	if o == nil || o.Pkg() == nil {
		return false
	}
	return !o.Exported() || strings.Contains(o.Pkg().Path()+"/", "/internal/")
}

// inventory lists the renamable identifiers of a package.
func inventory(pk *packages.Package, canon func(*types.TypeName) string) []identEntry {
	var out []identEntry
	scope := pk.Types.Scope()
	names := scope.Names()
	sort.Strings(names)
	add := func(e identEntry) { out = append(out, e) }
	for _, n := range names {
		o := scope.Lookup(n)
		switch o := o.(type) {
		case *types.TypeName:
			if o.IsAlias() {
				continue
			}
			tname := o.Name()
			if renamable(o) {
				tname = canon(o)
				self := o
				selfCanon := func(t *types.TypeName) string {
					if t == self {
						return "·self"
					}
					return canon(t)
				}
				add(identEntry{identInfo{Kind: "type", Name: o.Name(), Shape: shapeOf(o.Type().Underlying(), selfCanon, 0)}, o})
			}
			if named, ok := o.Type().(*types.Named); ok {
				for i := 0; i < named.NumMethods(); i++ {
					m := named.Method(i)
					if renamable(m) {
						_, isPtr := m.Type().(*types.Signature).Recv().Type().(*types.Pointer)
						add(identEntry{identInfo{Kind: "method", Owner: tname, Name: m.Name(), Shape: shapeOf(m.Type(), canon, 0), Ptr: isPtr}, m})
					}
				}
				if st, ok := named.Underlying().(*types.Struct); ok {
					for i := 0; i < st.NumFields(); i++ {
						f := st.Field(i)
						if renamable(f) && !f.Embedded() {
							add(identEntry{identInfo{Kind: "field", Owner: tname, Name: f.Name(), Shape: shapeOf(f.Type(), canon, 0), Index: i}, f})
						}
					}
				}
			}
		case *types.Const:
			if renamable(o) {
				add(identEntry{identInfo{Kind: "const", Name: o.Name(), Shape: shapeOf(o.Type(), canon, 0) + "=" + o.Val().ExactString()}, o})
			}
		case *types.Var:
			if renamable(o) {
				add(identEntry{identInfo{Kind: "var", Name: o.Name(), Shape: shapeOf(o.Type(), canon, 0), Init: varInit(pk, o)}, o})
			}
		case *types.Func:
			if renamable(o) {
				add(identEntry{identInfo{Kind: "func", Name: o.Name(), Shape: shapeOf(o.Type(), canon, 0)}, o})
			}
		}
	}
	return out
}

// varInit returns the initialiser of a package-level variable as written.
func varInit(pk *packages.Package, o *types.Var) string {
	for _, f := range pk.Syntax {
		for _, d := range f.Decls {
			gd, ok := d.(*ast.GenDecl)
			if !ok {
				continue
			}
			for _, sp := range gd.Specs {
				vs, ok := sp.(*ast.ValueSpec)
				if !ok {
					continue
				}
				for i, n := range vs.Names {
					if pk.TypesInfo.Defs[n] == o && len(vs.Values) == len(vs.Names) {
						return types.ExprString(vs.Values[i])
					}
				}
			}
		}
	}
	return ""
}

// dumpInventory writes the reference inventory of the loaded program.
func dumpInventory(pkgs map[string]*packages.Package) []byte {
	ref := map[string][]identInfo{}
	for path, pk := range pkgs {
		for _, e := range inventory(pk, func(o *types.TypeName) string { return o.Name() }) {
			ref[path] = append(ref[path], e.identInfo)
		}
	}
	b, _ := json.MarshalIndent(ref, "", " ")
	return b
}

type Renaming struct {
	Pkg, Kind, Owner, From, To string
}

func (r Renaming) String() string {
	if r.Kind == "receiver" {
		return r.To
	}
	o := ""
	if r.Owner != "" {
		o = r.Owner + "."
	}
	return fmt.Sprintf("%s %s %s%s (named %s in the current tree)", strings.TrimPrefix(r.Pkg, modPath+"/"), r.Kind, o, r.To, r.From)
}

// detectRenamings matches absent inventory identifiers with new ones of the
// same kind and shape.
func detectRenamings(pkgs []*packages.Package) (map[types.Object]string, []Renaming) {
	var ref map[string][]identInfo
	if err := json.Unmarshal(identsRefJSON, &ref); err != nil {
		return nil, nil
	}
	mapping := map[types.Object]string{}
	var log []Renaming
	// internal packages first: the shapes of their importers mention their types
	ordered := append([]*packages.Package(nil), pkgs...)
	sort.SliceStable(ordered, func(i, j int) bool {
		return strings.Contains(ordered[i].PkgPath, "/internal/") && !strings.Contains(ordered[j].PkgPath, "/internal/")
	})
	for _, pk := range ordered {
		want := ref[pk.PkgPath]
		if len(want) == 0 {
			continue
		}
		refTypeNames := map[string]bool{}
		for _, w := range want {
			if w.Kind == "type" {
				refTypeNames[w.Name] = true
			}
		}
		canon := func(o *types.TypeName) string {
			if n, ok := mapping[o]; ok {
				return n
			}
			if o.Pkg() == pk.Types && !refTypeNames[o.Name()] {
				return "?"
			}
			return o.Name()
		}
		for round := 0; round < 4; round++ {
			cur := inventory(pk, canon)
			have := map[string]bool{}
			for _, c := range cur {
				ci := c.identInfo
				if n, ok := mapping[c.obj]; ok {
					ci.Name = n
				}
				have[ci.key()] = true
			}
			refKeys := map[string]bool{}
			for _, w := range want {
				refKeys[w.key()] = true
			}
			var missing []identInfo
			for _, w := range want {
				if !have[w.key()] {
					missing = append(missing, w)
				}
			}
			var extra []identEntry
			for _, c := range cur {
				if _, done := mapping[c.obj]; !done && !refKeys[c.key()] {
					extra = append(extra, c)
				}
			}
			if len(missing) == 0 || len(extra) == 0 {
				break
			}
			// candidates
			cands := map[int][]int{} // missing index -> extra indices
			uses := map[int]int{}
			for i, m := range missing {
				for j, e := range extra {
					if e.Kind != m.Kind || e.Owner != m.Owner || e.Shape != m.Shape {
						continue
					}
					cands[i] = append(cands[i], j)
				}
				// several variables of one type: the initialiser decides
				if m.Kind == "var" && len(cands[i]) > 1 && m.Init != "" {
					var same []int
					for _, j := range cands[i] {
						if extra[j].Init == m.Init {
							same = append(same, j)
						}
					}
					cands[i] = same
				}
				// several fields of one type: the position decides
				if m.Kind == "field" && len(cands[i]) > 1 {
					var same []int
					for _, j := range cands[i] {
						if extra[j].Index == m.Index {
							same = append(same, j)
						}
					}
					cands[i] = same
				}
				for _, j := range cands[i] {
					uses[j]++
				}
			}
			progress := false
			for i, m := range missing {
				if len(cands[i]) != 1 || uses[cands[i][0]] != 1 {
					continue
				}
				e := extra[cands[i][0]]
				mapping[e.obj] = m.Name
				log = append(log, Renaming{Pkg: pk.PkgPath, Kind: m.Kind, Owner: m.Owner, From: e.Name, To: m.Name})
				progress = true
			}
			if !progress {
				break
			}
		}
	}
	if os.Getenv("CORSCHECK_ALPHA_DEBUG") != "" {
		for _, l := range log {
			fmt.Fprintln(os.Stderr, "ALPHA:", l)
		}
	}
	return mapping, log
}

// renameOverlay spells every reference to a renamed object with its
// inventory name; it refuses (returns an error) when the inventory name would
// be captured by another declaration in scope.
func renameOverlay(pkgs []*packages.Package, mapping map[types.Object]string) (map[string][]byte, error) {
	type edit struct {
		off, end int
		text     string
	}
	edits := map[string][]edit{}
	for _, pk := range pkgs {
		for _, f := range pk.Syntax {
			fname := pk.Fset.Position(f.Pos()).Filename
			var err error
			ast.Inspect(f, func(n ast.Node) bool {
				id, ok := n.(*ast.Ident)
				if !ok {
					return true
				}
				o := pk.TypesInfo.Uses[id]
				if o == nil {
					o = pk.TypesInfo.Defs[id]
				}
				if o == nil {
					return true
				}
				// instantiated methods/fields of generic types point at their origin
				switch oo := o.(type) {
				case *types.Func:
					o = oo.Origin()
				case *types.Var:
					o = oo.Origin()
				}
				to, ok := mapping[o]
				if !ok {
					return true
				}
				// capture check for package-level objects referenced by bare name
				if _, isField := o.(*types.Var); !(isField && o.(*types.Var).IsField()) {
					if fn, isFn := o.(*types.Func); !isFn || fn.Type().(*types.Signature).Recv() == nil {
						if inner := pk.Types.Scope().Innermost(id.Pos()); inner != nil && o.Pkg() == pk.Types {
							if _, other := inner.LookupParent(to, id.Pos()); other != nil && other != o && other.Parent() != types.Universe {
								if _, renamedToo := mapping[other]; !renamedToo {
									err = fmt.Errorf("%s: the inventory name %q is taken by another declaration in scope", pk.Fset.Position(id.Pos()), to)
								}
							}
						}
					}
				}
				p0 := pk.Fset.Position(id.Pos())
				edits[fname] = append(edits[fname], edit{p0.Offset, p0.Offset + len(id.Name), to})
				return true
			})
			if err != nil {
				return nil, err
			}
		}
	}
	overlay := map[string][]byte{}
	for fname, es := range edits {
		src, err := os.ReadFile(fname)
		if err != nil {
			return nil, err
		}
		sort.Slice(es, func(i, j int) bool { return es[i].off < es[j].off })
		var out []byte
		last := 0
		for _, e := range es {
			if e.off < last {
				continue
			}
			out = append(out, src[last:e.off]...)
			out = append(out, e.text...)
			last = e.end
		}
		out = append(out, src[last:]...)
		overlay[fname] = out
	}
	return overlay, nil
}

// detectReceiverFlips fills recvCanon/recvFlip: methods present in the
// inventory under the same owner and name whose receiver kind changed.
func detectReceiverFlips(pkgs []*packages.Package) []string {
	recvCanon, recvFlip = map[string]string{}, map[string]string{}
	var ref map[string][]identInfo
	if err := json.Unmarshal(identsRefJSON, &ref); err != nil {
		return nil
	}
	var log []string
	for _, pk := range pkgs {
		want := map[string]identInfo{}
		for _, w := range ref[pk.PkgPath] {
			if w.Kind == "method" {
				want[w.Owner+"."+w.Name] = w
			}
		}
		for _, c := range inventory(pk, func(o *types.TypeName) string { return o.Name() }) {
			w, ok := want[c.Owner+"."+c.Name]
			if c.Kind != "method" || !ok || w.Ptr == c.Ptr || w.Shape != c.Shape {
				continue
			}
			q := short(pk.PkgPath + "." + c.Owner)
			if i := strings.LastIndex(q, "/"); i >= 0 {
				q = q[i+1:]
			}
			val, ptr := "("+q+")."+c.Name, "(*"+q+")."+c.Name
			if c.Ptr {
				recvCanon[ptr] = val
				recvFlip[val] = "deref"
				log = append(log, fmt.Sprintf("method %s.%s has a pointer receiver in the current tree (value receiver in the inventory)", c.Owner, c.Name))
			} else {
				recvCanon[val] = ptr
				recvFlip[ptr] = "addr"
				log = append(log, fmt.Sprintf("method %s.%s has a value receiver in the current tree (pointer receiver in the inventory)", c.Owner, c.Name))
			}
		}
	}
	return log
}
