package main

import (
	"fmt"
	"sort"
	"strconv"
	"strings"

	"golang.org/x/tools/go/ssa"
)

func init() {
	registry["C04"] = checkC04
}

var trustedValidation = []string{
	"Go type checker and go/ssa construction (x/tools v0.29.0)",
	"the path-summary engine (per-iteration summaries: loop cut at its header, loop-carried values symbolic, memory unknown at iteration start)",
	"axioms on primitives: origins.ParsePattern accepts exactly the documented grammar (C13); IsDeemedInsecure / HostIsEffectiveTLD / methods.* / headers.Is* mean what their names say (their tables and structure are checked by R4.4/R4.6); util.Set / SortedSet are sets",
	"errors.Join returns a non-nil error iff at least one operand is non-nil; x/net publicsuffix, idna, httpguts and net/netip behave as documented",
	"the documented decision tables transcribed in the checker (oracles.go) from the doc comments of Config, ExtraConfig and package cfgerrors",
}

// emptyErrsAtom reports the polarity of the "no error accumulated" test on an
// exit path: +1 errs is empty, -1 errs is non-empty, 0 not tested.
func (t *ValidatorTable) emptyErrsAtom(pa *Path) int {
	for _, a := range pa.Atoms[pa.PreAt:] {
		g := t.tag(a.T)
		// (errors.Join(errs...) == nil is the same test: only non-nil errors are
		// ever appended — checked above — and Join is nil iff all operands are)
		if g == "bin:==(len:builtin.len(carried:"+t.ErrsPhi+"),0)" || g == "bin:==(carried:"+t.ErrsPhi+",nil)" || g == "bin:==(errors.Join(carried:"+t.ErrsPhi+"),nil)" {
			if a.Pos {
				return 1
			}
			return -1
		}
		if g == "bin:<(0,len:builtin.len(carried:"+t.ErrsPhi+"))" {
			if a.Pos {
				return -1
			}
			return 1
		}
	}
	return 0
}

// l0 checks the error discipline of one list validator (lemma L0).
func l0(ctx *Ctx, r *Result, rule string, t *ValidatorTable) bool {
	ok := true
	name := funcName(t.Fn)
	// errs starts empty
	for _, pa := range t.Entry {
		if pa.End != t.Hdr {
			continue
		}
		init := pa.Next[t.ErrsPhi]
		good := init != nil && isEmptySliceTerm(init)
		ok = r.check(good, rule, name+": errs starts empty", ctx.P.Pos(t.Fn.Pos()), "the accumulated error list does not start empty: "+init.Key(), 1) && ok
	}
	// monotone: every iteration passes errs on unchanged or appended with non-nil errors
	bad := 0
	for _, ip := range t.Iter {
		if !ip.ErrsOK {
			bad++
			ok = false
			r.fail(rule, name+": errs monotone", ip.Atoms[len(ip.Atoms)-1].At, "an iteration replaces or truncates the accumulated error list: flows on as "+t.tag(ip.Next[t.ErrsPhi]))
		}
		for _, e := range ip.Errs {
			if e.Type == "" && !ip.hasAtomTag(t, "bin:==("+e.Prop+",nil)", false) {
				bad++
				ok = false
				r.fail(rule, name+": errs monotone", ip.Atoms[len(ip.Atoms)-1].At, "a possibly-nil error value is appended: "+e.Prop)
			}
		}
		if ip.Stale != "" {
			bad++
			ok = false
			r.fail(rule, name+": errs monotone", ip.Atoms[len(ip.Atoms)-1].At, "the error appended in an iteration is not allocated in that iteration ("+ip.Stale+" exists before it): the same object is appended again and overwritten by later iterations, so earlier violations are lost")
		}
		if len(ip.Other) > 0 {
			bad++
			ok = false
			r.fail(rule, name+": iteration effects", ip.Atoms[len(ip.Atoms)-1].At, "effect without a transfer function inside the validator loop: "+ip.Other[0])
		}
	}
	if bad == 0 {
		r.ok(rule, name+": errs monotone", len(t.Iter), "")
	}
	// decisive: exits
	for _, pa := range t.Exit {
		desc := name + ": exit{" + t.exitDesc(pa) + "}"
		if pa.End == "panic" {
			r.fail(rule, desc, "", "validator can panic")
			ok = false
			continue
		}
		if len(pa.Rets) != 1 {
			r.undecided(rule, desc, "unexpected result arity")
			ok = false
			continue
		}
		ret := t.tag(pa.Rets[0])
		stores := t.storesOf(pa)
		switch t.emptyErrsAtom(pa) {
		case -1:
			good := ret == "errors.Join(carried:"+t.ErrsPhi+")" && len(stores) == 0
			ok = r.check(good, rule, desc, "", fmt.Sprintf("errors were accumulated but the exit returns %s and stores %v", ret, stores), 1) && ok
		case 1:
			ok = r.check(ret == "nil", rule, desc, "", "no error accumulated but the exit returns "+ret, 1) && ok
		default:
			good := ret == "errors.Join(carried:"+t.ErrsPhi+")" && len(stores) == 0
			ok = r.check(good, rule, desc, "", fmt.Sprintf("exit does not test the accumulated errors, returns %s and stores %v", ret, stores), 1) && ok
		}
	}
	// no early exit from inside the loop: returns are reached only from the loop exit
	for _, pa := range t.Exit {
		guard := false
		for _, a := range pa.Atoms[pa.PreAt:] {
			if t.isGuardTag(t.tag(a.T)) && !a.Pos {
				guard = true
			}
		}
		if !guard {
			r.fail(rule, name+": no early exit", "", "a return is reachable from inside the loop body (validation stops at the first problem): "+t.exitDesc(pa))
			ok = false
		}
	}
	return ok
}

func (ip *IterPath) hasAtomTag(t *ValidatorTable, tag string, pos bool) bool {
	for _, a := range ip.Atoms {
		if a.Pos == pos && t.tag(a.T) == tag {
			return true
		}
	}
	return false
}

func (t *ValidatorTable) exitDesc(pa *Path) string {
	var s []string
	for _, a := range pa.Atoms[pa.PreAt:] {
		g := t.tag(a.T)
		if t.isGuardTag(g) {
			continue
		}
		if !a.Pos {
			g = "!" + g
		}
		s = append(s, g)
	}
	return strings.Join(s, " ∧ ")
}

// exitStores checks what each validator publishes into the configuration on
// its error-free exits (CI-1/CI-2/CI-7 and the rendered header values).
func exitStores(ctx *Ctx, r *Result, rule string, t *ValidatorTable) bool {
	ok := true
	name := funcName(t.Fn)
	for _, pa := range t.Exit {
		if t.emptyErrsAtom(pa) != 1 || pa.End != "return" {
			continue
		}
		st := t.storesOf(pa)
		desc := name + ": publish{" + t.exitDesc(pa) + "}"
		has := func(tag string) int {
			for _, a := range pa.Atoms[pa.PreAt:] {
				if t.tag(a.T) == tag {
					if a.Pos {
						return 1
					}
					return -1
				}
			}
			return 0
		}
		switch t.Field {
		case "Origins":
			flag := t.roleFlag(func(p *Path) bool {
				_, s := t.storesOf(p)["&cfg.tree"]
				return !s && len(p.Rets) == 1 && p.Rets[0].IsConst("nil")
			})
			allowAll := has("carried:" + flag)
			want := map[string]string{}
			if allowAll != 1 {
				want["&cfg.tree"] = "*local<origins.Tree>"
			}
			good := sameStores(st, want)
			if allowAll == 0 {
				good = false
			}
			ok = r.check(good, rule, desc, "", fmt.Sprintf("origin validator publishes %v, expected %v (the tree must be kept iff `*` was not listed)", st, want), 1) && ok
		case "Methods":
			any := has("cfg.allowAnyMethod")
			good := true
			detail := ""
			if any != 1 && st["&cfg.allowedMethods"] != "*local<util.Set>" {
				good, detail = false, "allowed methods not published although `*` was not listed"
			}
			for k, v := range st {
				if k != "&cfg.allowedMethods" || v != "*local<util.Set>" {
					good, detail = false, "unexpected store "+k+" := "+v
				}
			}
			ok = r.check(good, rule, desc, "", detail, 1) && ok
		case "RequestHeaders":
			star := has("cfg.asteriskReqHdrs")
			size0 := has("bin:==((util.SortedSet).Size(*local<util.SortedSet>),0)")
			if size0 == 0 {
				if g := has("bin:<(0,(util.SortedSet).Size(*local<util.SortedSet>))"); g != 0 {
					size0 = -g
				}
			}
			joined := "[strings.Join((util.SortedSet).ToSlice(*local<util.SortedSet>),\",\")]"
			good := true
			detail := ""
			_, hasSet := st["&cfg.allowedReqHdrs"]
			_, hasACAH := st["&cfg.acah"]
			switch {
			case star == 1:
				// never consulted under the wildcard (R15.2β): anything consistent is fine
			case size0 == -1:
				if st["&cfg.allowedReqHdrs"] != "*local<util.SortedSet>" || st["&cfg.acah"] != joined {
					good, detail = false, fmt.Sprintf("discrete request-header names not published consistently (CI-7): stores %v", st)
				}
			case size0 == 1:
				if hasACAH {
					good, detail = false, "ACAH value rendered although no discrete request-header name is allowed (CI-7)"
				}
			default:
				// neither `*` nor the emptiness of the collected set is known
				// on this error-free exit: whatever it does is wrong for one of
				// the cases (names collected and lost, or an empty set published)
				good, detail = false, "an error-free exit neither knows that `*` was listed nor tests whether discrete names were collected: collected names would be lost (or an empty list published)"
			}
			if hasSet && st["&cfg.allowedReqHdrs"] != "*local<util.SortedSet>" {
				good, detail = false, "allowedReqHdrs published from "+st["&cfg.allowedReqHdrs"]
			}
			if hasACAH && st["&cfg.acah"] != joined {
				good, detail = false, "acah is not the comma-join of the published set: "+st["&cfg.acah"]
			}
			for k := range st {
				if k != "&cfg.allowedReqHdrs" && k != "&cfg.acah" && !strings.HasPrefix(k, "&local") {
					good, detail = false, "unexpected store "+k
				}
			}
			ok = r.check(good, rule, desc, "", detail, 1) && ok
		case "ResponseHeaders":
			flag := t.roleFlag(func(p *Path) bool { return t.storesOf(p)["&cfg.aceh"] == `"*"` })
			all := has("carried:" + flag)
			nonEmpty := has("bin:<(0,(util.Set).Size(*local<util.Set>))")
			if nonEmpty == 0 {
				if g := has("bin:==((util.Set).Size(*local<util.Set>),0)"); g != 0 {
					nonEmpty = -g
				}
			}
			want := map[string]string{}
			switch {
			case all == 1:
				want["&cfg.aceh"] = `"*"`
			case nonEmpty == 1:
				want["&cfg.aceh"] = "strings.Join((util.Set).ToSlice(*local<util.Set>),\",\")"
			}
			good := sameStores(st, want) && all != 0 && (all == 1 || nonEmpty != 0)
			ok = r.check(good, rule, desc, "", fmt.Sprintf("response-header validator publishes %v, expected %v", st, want), 1) && ok
		}
	}
	return ok
}

func sameStores(a, b map[string]string) bool {
	if len(a) != len(b) {
		return false
	}
	for k, v := range a {
		if b[k] != v {
			return false
		}
	}
	return true
}

// entryRule: behaviour on the empty list.
func entryRule(ctx *Ctx, r *Result, rule string, t *ValidatorTable) bool {
	ok := true
	name := funcName(t.Fn)
	n := 0
	for _, pa := range t.Entry {
		if pa.End != "return" {
			continue
		}
		n++
		// the path is taken by empty lists only: len(list) == 0 is entailed
		// (whatever its spelling: == 0, < 1, …), or the list is nil
		empty := pa.Val("bin:==(len:builtin.len(param:"+t.List+"), 0)") == 1 || pa.Val("bin:==(param:"+t.List+", nil)") == 1
		ret := ""
		if len(pa.Rets) == 1 {
			ret = t.tag(pa.Rets[0])
		}
		st := t.storesOf(pa)
		if t.Field == "Origins" {
			good := empty && strings.HasPrefix(ret, "iface:*cfgerrors.UnacceptableOriginPatternError(")
			reason := ""
			for k, e := range pa.Mem {
				if strings.HasSuffix(k, ".Reason") {
					reason = t.tag(e.Val)
				}
			}
			good = good && reason == `"missing"` && len(st) == 0
			ok = r.check(good, rule, name+": empty list", "", fmt.Sprintf("an empty origin list must be rejected with Reason \"missing\": returns %s (Reason=%s)", ret, reason), 1) && ok
		} else {
			ok = r.check(empty && ret == "nil" && len(st) == 0, rule, name+": empty list", "", fmt.Sprintf("early return not guarded by the empty list, or with effects: returns %s, stores %v", ret, st), 1) && ok
		}
	}
	if t.Field == "Origins" && n == 0 {
		r.fail(rule, name+": empty list", ctx.P.Pos(t.Fn.Pos()), "no early rejection of an empty origin list")
		ok = false
	}
	if t.Field == "Origins" {
		// the converse: the element loop is entered only with a non-empty
		// list — an empty but non-nil list must not slip through (it would
		// publish an empty tree, i.e. allow every origin)
		for _, pa := range t.Entry {
			if pa.End == "return" || pa.End == "panic" {
				continue
			}
			nonEmpty := pa.Val("bin:==(len:builtin.len(param:"+t.List+"), 0)") == -1
			ok = r.check(nonEmpty, rule, name+": the loop is entered only with a non-empty list {"+t.exitDesc(pa)+"}", "",
				"the origin list can be empty (for instance empty but non-nil) when the element loop is entered: no origin is required and an empty tree — allow all — is published", 1) && ok
		}
	}
	return ok
}

// builderRule: error propagation and publication in the top-level builder.
func builderRule(ctx *Ctx, r *Result, rule string) bool {
	v := ctx.Validation()
	ok := true
	if v.Builder == nil {
		r.undecided(rule, "builder", strings.Join(v.Problems, "; "))
		return false
	}
	name := funcName(v.Builder)
	r.fn(name)
	r.Paths += len(v.BuilderTab)
	validators := map[string]bool{}
	for _, t := range v.Lists {
		validators[funcName(t.Fn)] = true
	}
	for _, f := range v.Ints {
		validators[funcName(f)] = true
	}
	nNil, nOK, nErr := 0, 0, 0
	var firstBad string
	bad := func(pa *Path, msg string) {
		ok = false
		if firstBad == "" {
			firstBad = msg + " on path {" + pa.AtomString() + "}"
		}
	}
	for _, pa := range v.BuilderTab {
		if pa.End != "return" || len(pa.Rets) != 2 {
			bad(pa, "builder path does not return (config, error)")
			continue
		}
		if pa.Has("bin:==(param:"+v.Builder.Params[0].Name()+", nil)", true) {
			nNil++
			if !pa.Rets[0].IsConst("nil") || !pa.Rets[1].IsConst("nil") {
				bad(pa, "nil Config must yield (nil, nil)")
			}
			continue
		}
		// all validators consulted
		seen := map[string]bool{}
		for _, e := range pa.Effects {
			if (e.Kind == "call" || e.Kind == "enter") && validators[e.Name] {
				seen[e.Name] = true
			}
		}
		for vn := range validators {
			if !seen[vn] {
				bad(pa, "validator "+vn+" is skipped (validation stops early)")
			}
		}
		// errors that must be reported on this path
		var must []*Term
		for _, a := range pa.Atoms {
			if a.T.Op == "bin" && a.T.Name == "==" && a.T.Args[1].IsConst("nil") && a.T.Args[0].Op == "call" && validators[a.T.Args[0].Name] && !a.Pos {
				must = append(must, a.T.Args[0])
			}
		}
		for _, e := range pa.Effects {
			for _, a := range e.Args {
				a.Mentions(func(s *Term) bool {
					if s.Op == "alloc" && isCfgErrPtr(s) {
						dup := false
						for _, m := range must {
							if m.Key() == s.Key() {
								dup = true
							}
						}
						if !dup {
							must = append(must, s)
						}
					}
					return false
				})
			}
		}
		ret1 := pa.Rets[1]
		if len(must) == 0 {
			if ret1.IsConst("nil") {
				nOK++
				if pa.Rets[0].Op != "alloc" {
					bad(pa, "error-free path does not return the freshly built configuration: "+pa.Rets[0].Key())
				}
			} else if ret1.Op == "call" && ret1.Name == "errors.Join" {
				// joining only nil/empty operands would be nil; the engine folds
				// len() of literal chains, so reaching here means an unknown operand
				bad(pa, "error-free path returns "+ret1.Key())
			} else {
				bad(pa, "error-free path returns a non-nil error: "+ret1.Key())
			}
			continue
		}
		nErr++
		if !pa.Rets[0].IsConst("nil") {
			bad(pa, "a configuration is returned although a violation was detected")
		}
		for _, m := range must {
			if !ret1.MentionsKey(m.Key()) {
				bad(pa, "detected violation "+m.Key()+" is not part of the returned error")
			}
		}
	}
	r.check(ok, rule, name+": error discipline", ctx.P.Pos(v.Builder.Pos()), firstBad, len(v.BuilderTab))
	if nOK == 0 || nErr == 0 || nNil == 0 {
		r.undecided(rule, name+": path classes", fmt.Sprintf("builder paths: %d nil-config, %d accepting, %d rejecting; all three classes expected", nNil, nOK, nErr))
		ok = false
	}
	return ok
}

func isCfgErrPtr(t *Term) bool {
	return t != nil && t.Type != nil && strings.Contains(t.Type.String(), "cfgerrors.")
}

// builderPlumbing: the switches read by the validators are copied from the
// Config before the validators run; both PNA modes together are an error.
func builderPlumbing(ctx *Ctx, r *Result, rule string) bool {
	v := ctx.Validation()
	if v.Builder == nil {
		return false
	}
	ok := true
	name := funcName(v.Builder)
	want := map[string]string{
		"credentialed":               "Credentialed",
		"privateNetworkAccess":       "PrivateNetworkAccess",
		"privateNetworkAccessNoCors": "PrivateNetworkAccessInNoCORSModeOnly",
		"insecureOrigins":            "DangerouslyTolerateInsecureOrigins",
		"subsOfPublicSuffixes":       "DangerouslyTolerateSubdomainsOfPublicSuffixes",
	}
	// which validator reads which switch
	reads := map[string][]string{}
	for _, t := range v.Lists {
		for _, pa := range t.All {
			for _, a := range pa.Atoms {
				a.T.Mentions(func(s *Term) bool {
					if s.Op == "load" && s.Args[0].Op == "faddr" && s.Args[0].Args[0].Key() == "param:"+t.Recv {
						if _, isSwitch := want[s.Args[0].Name]; isSwitch {
							reads[s.Args[0].Name] = appendUnique(reads[s.Args[0].Name], funcName(t.Fn))
						}
					}
					return false
				})
			}
		}
	}
	var firstBad string
	for _, pa := range v.BuilderTab {
		if len(pa.Rets) == 2 && pa.Rets[0].IsConst("nil") && pa.Rets[1].IsConst("nil") {
			continue
		}
		stored := map[string]int{}
		for i, e := range pa.Effects {
			if e.Kind == "store" && e.Args[0].Op == "faddr" && e.Args[0].Args[0].Op == "alloc" {
				f := e.Args[0].Name
				if src, isSwitch := want[f]; isSwitch {
					val := e.Args[1]
					if !(val.Op == "load" && val.Args[0].Op == "faddr" && val.Args[0].Name == src && val.Root().Op == "param") {
						ok = false
						firstBad = fmt.Sprintf("switch %s is not copied from Config.%s: %s", f, src, val.Key())
					}
					stored[f] = i
				}
			}
			if e.Kind == "call" {
				for f, rs := range reads {
					for _, rn := range rs {
						if rn == e.Name {
							if _, done := stored[f]; !done {
								ok = false
								firstBad = fmt.Sprintf("%s reads switch %s before the builder sets it", rn, f)
							}
						}
					}
				}
			}
		}
		for f := range want {
			if _, done := stored[f]; !done {
				ok = false
				firstBad = "switch " + f + " never set on a builder path"
			}
		}
		// CI-3: both PNA modes ⇒ error
		p1 := pa.Val("param:" + v.Builder.Params[0].Name() + ".ExtraConfig.PrivateNetworkAccess")
		p2 := pa.Val("param:" + v.Builder.Params[0].Name() + ".ExtraConfig.PrivateNetworkAccessInNoCORSModeOnly")
		hasErr := pa.Rets[1].Mentions(func(s *Term) bool {
			return s.Op == "iface" && s.Name == "*cfgerrors.IncompatiblePrivateNetworkAccessModesError"
		})
		if p1 == 1 && p2 == 1 && !hasErr {
			ok = false
			firstBad = "both PNA modes set but no IncompatiblePrivateNetworkAccessModesError is returned"
		}
		if (p1 == -1 || (p1 == 1 && p2 == -1)) && hasErr {
			ok = false
			firstBad = "IncompatiblePrivateNetworkAccessModesError although at most one PNA mode is set"
		}
		if p1 == 0 || (p1 == 1 && p2 == 0) {
			ok = false
			firstBad = "builder path does not test both PNA switches"
		}
	}
	r.check(ok, rule, name+": switches set before use; PNA modes exclusive (CI-3)", ctx.P.Pos(v.Builder.Pos()), firstBad, len(v.BuilderTab))
	if len(reads) < 4 {
		r.undecided(rule, name+": switch readers", fmt.Sprintf("only %d switches are read by validators, expected ≥4: %v", len(reads), reads))
		ok = false
	}
	return ok
}

// intRule: exact accepted sets and outputs of the two integer validators.
type intSpec struct {
	field    string
	accepted func(x int64) bool
	output   func(x int64) map[string]string // expected stores (receiver field -> tag with "x" for the parameter)
	errType  string
	errFlds  map[string]string
	points   []int64
}

func intRule(ctx *Ctx, r *Result, rule string) bool {
	v := ctx.Validation()
	ok := true
	specs := []intSpec{
		{
			field:    "MaxAgeInSeconds",
			accepted: func(x int64) bool { return -1 <= x && x <= 86400 },
			output: func(x int64) map[string]string {
				switch {
				case x == -1:
					return map[string]string{"acma": `["0"]`}
				case x == 0:
					return map[string]string{}
				}
				return map[string]string{"acma": "[strconv.Itoa(x)]"}
			},
			errType: "MaxAgeOutOfBoundsError",
			errFlds: map[string]string{"Value": "x", "Default": "5", "Max": "86400", "Disable": "-1"},
			points:  []int64{-2, -1, 0, 1, 5, 86399, 86400, 86401},
		},
		{
			field:    "PreflightSuccessStatus",
			accepted: func(x int64) bool { return x == 0 || (200 <= x && x <= 299) },
			output: func(x int64) map[string]string {
				if x == 0 {
					return map[string]string{"preflightStatusMinus200": "4"}
				}
				return map[string]string{"preflightStatusMinus200": "conv:uint8(bin:-(x,200))"}
			},
			errType: "PreflightSuccessStatusOutOfBoundsError",
			errFlds: map[string]string{"Value": "x", "Default": "204", "Min": "200", "Max": "299"},
			points:  []int64{-1, 0, 1, 199, 200, 201, 204, 298, 299, 300},
		},
	}
	for _, sp := range specs {
		fn := v.Ints[sp.field]
		if fn == nil {
			r.undecided(rule, "Config."+sp.field, "no integer validator found")
			ok = false
			continue
		}
		name := funcName(fn)
		r.fn(name)
		if hasLoop(fn) || len(fn.Params) != 2 {
			r.undecided(rule, name, "integer validator is not a loop-free function of (receiver, value)")
			ok = false
			continue
		}
		recv, par := fn.Params[0].Name(), fn.Params[1].Name()
		x := ctx.P.NewExec(nil)
		paths := x.Summarize(fn)
		r.Paths += len(paths)
		tagI := func(t *Term) string {
			return strings.ReplaceAll(intTag(t, recv), "param:"+par, "x")
		}
		// critical points: the oracle's and every constant the code compares with
		pts := map[int64]bool{}
		for _, p := range sp.points {
			pts[p] = true
		}
		type cons struct {
			op  string
			c   int64
			rev bool
			pos bool
		}
		pathCons := make([][]cons, len(paths))
		undec := ""
		for i, pa := range paths {
			for _, a := range pa.Atoms {
				t := a.T
				if t.Op != "bin" || (t.Name != "<" && t.Name != "==") {
					undec = "unsupported branch condition " + t.Key()
					continue
				}
				l, rr := t.Args[0], t.Args[1]
				switch {
				case l.Op == "const" && rr.Op == "const":
					// both sides known (the value was replaced by a constant on
					// this path): the comparison decides itself
					lc, e1 := strconv.ParseInt(l.Name, 10, 64)
					rc, e2 := strconv.ParseInt(rr.Name, 10, 64)
					if e1 != nil || e2 != nil {
						undec = "non-integer constants in " + t.Key()
						break
					}
					val := lc == rc
					if t.Name == "<" {
						val = lc < rc
					}
					if val != a.Pos {
						// contradictory path: satisfied by no value
						pathCons[i] = append(pathCons[i], cons{"==", 1 << 50, false, true})
					}
				case l.Key() == "param:"+par && rr.Op == "const":
					c, err := strconv.ParseInt(rr.Name, 10, 64)
					if err != nil {
						undec = "non-integer constant " + rr.Name
					}
					pathCons[i] = append(pathCons[i], cons{t.Name, c, false, a.Pos})
					pts[c-1], pts[c], pts[c+1] = true, true, true
				case rr.Key() == "param:"+par && l.Op == "const":
					c, err := strconv.ParseInt(l.Name, 10, 64)
					if err != nil {
						undec = "non-integer constant " + l.Name
					}
					pathCons[i] = append(pathCons[i], cons{t.Name, c, true, a.Pos})
					pts[c-1], pts[c], pts[c+1] = true, true, true
				default:
					undec = "branch condition not over the validated value: " + t.Key()
				}
			}
		}
		if undec != "" || len(x.Problems) > 0 {
			r.undecided(rule, name, undec+strings.Join(x.Problems, ";"))
			ok = false
			continue
		}
		var points []int64
		for p := range pts {
			points = append(points, p)
		}
		points = append(points, -1<<40, 1<<40)
		sort.Slice(points, func(i, j int) bool { return points[i] < points[j] })
		good := true
		detail := ""
		for _, pt := range points {
			matches := 0
			for i, pa := range paths {
				sat := true
				for _, c := range pathCons[i] {
					var val bool
					switch {
					case c.op == "==":
						val = pt == c.c
					case c.rev:
						val = c.c < pt
					default:
						val = pt < c.c
					}
					if val != c.pos {
						sat = false
					}
				}
				if !sat {
					continue
				}
				matches++
				if len(pa.Rets) != 1 {
					good, detail = false, "unexpected arity"
					continue
				}
				acc := pa.Rets[0].IsConst("nil")
				if acc != sp.accepted(pt) {
					good = false
					detail = fmt.Sprintf("value %d: accepted=%v, documented accepted=%v", pt, acc, sp.accepted(pt))
				}
				stores := map[string]string{}
				for _, e := range pa.Effects {
					if e.Kind == "store" && e.Args[0].Op == "faddr" && e.Args[0].Args[0].Key() == "param:"+recv {
						stores[e.Args[0].Name] = tagI(e.Args[1])
					}
				}
				if acc {
					if want := sp.output(pt); !sameStores(stores, want) {
						good = false
						detail = fmt.Sprintf("value %d: stores %v, expected %v", pt, stores, want)
					}
				} else {
					if len(stores) != 0 {
						good, detail = false, fmt.Sprintf("value %d rejected but configuration written: %v", pt, stores)
					}
					ret := pa.Rets[0]
					if ret.Op != "iface" || ret.Name != "*cfgerrors."+sp.errType {
						good, detail = false, fmt.Sprintf("value %d: rejection is not a %s: %s", pt, sp.errType, ret.Key())
					} else {
						pre := "&" + ret.Args[0].Key() + "."
						flds := map[string]string{}
						for k, e := range pa.Mem {
							if strings.HasPrefix(k, pre) {
								flds[strings.TrimPrefix(k, pre)] = tagI(e.Val)
							}
						}
						if !sameStores(flds, sp.errFlds) {
							good, detail = false, fmt.Sprintf("value %d: error fields %v, documented %v", pt, flds, sp.errFlds)
						}
					}
				}
			}
			if matches != 1 {
				good, detail = false, fmt.Sprintf("value %d is handled by %d paths (expected exactly 1)", pt, matches)
			}
		}
		ok = r.check(good, rule, name+": accepted set and outputs", ctx.P.Pos(fn.Pos()), detail, len(points)) && ok
		r.sample(map[string]any{"validator": name, "points_examined": points, "paths": len(paths)})
	}
	return ok
}

func intTag(t *Term, recv string) string {
	switch t.Op {
	case "const":
		return t.Name
	case "param":
		return "param:" + t.Name
	case "lit":
		var as []string
		for _, a := range t.Args {
			as = append(as, intTag(a, recv))
		}
		return "[" + strings.Join(as, ",") + "]"
	case "call", "bin", "conv", "un":
		// an integer conversion of a small non-negative constant is that constant
		if t.Op == "conv" && len(t.Args) == 1 && t.Args[0].Op == "const" {
			if c, err := strconv.ParseInt(t.Args[0].Name, 10, 64); err == nil && c >= 0 && c < 128 {
				return t.Args[0].Name
			}
		}
		var as []string
		for _, a := range t.Args {
			as = append(as, intTag(a, recv))
		}
		return strings.TrimPrefix(t.Op+":", "call:") + t.Name + "(" + strings.Join(as, ",") + ")"
	}
	return "?" + t.Key()
}

// denyTables: the module's deny lists contain the specification's lists.
func denyTables(ctx *Ctx, r *Result, rule string) bool {
	ok := true
	// "valid name": the token production of RFC 9110 — httpguts'
	// ValidHeaderFieldName, or a scan over a byte table that is exactly tchar
	for _, pk := range []string{pkgHeaders, pkgMethods} {
		fn := ctx.P.Func(pk, "IsValid")
		if fn == nil || len(fn.Params) != 1 {
			r.undecided(rule, short(pk)+".IsValid", "anchor not found")
			ok = false
			continue
		}
		name := funcName(fn)
		arg := "param:" + fn.Params[0].Name()
		viaLib := false
		if !hasLoop(fn) {
			ps := ctx.P.NewExec(nil).Summarize(fn)
			viaLib = len(ps) == 1 && len(ps[0].Rets) == 1 && ps[0].Rets[0].Key() == "call:golang.org/x/net/http/httpguts.ValidHeaderFieldName("+arg+")"
		}
		if viaLib {
			r.ok(rule, name+" = httpguts.ValidHeaderFieldName", 1, "")
			continue
		}
		// a hand-written scan: every ASCIISet table the function consults must be tchar
		const tchar = "!#$%&'*+-.0123456789ABCDEFGHIJKLMNOPQRSTUVWXYZ^_`abcdefghijklmnopqrstuvwxyz|~"
		tables := 0
		bad := ""
		for _, b := range fn.Blocks {
			for _, ins := range b.Instrs {
				g, isG := ins.(*ssa.UnOp)
				_ = g
				if !isG {
					continue
				}
				gl, isGlobal := g.X.(*ssa.Global)
				if !isGlobal {
					continue
				}
				got, err := ctx.P.ASCIISetTable(gl.Pkg.Pkg.Path(), gl.Name())
				if err != nil {
					continue
				}
				tables++
				bs := []byte(got)
				sort.Slice(bs, func(i, j int) bool { return bs[i] < bs[j] })
				if string(bs) != tchar {
					bad = fmt.Sprintf("%s scans with the byte table %s = %q, which is not the token alphabet of RFC 9110 (%q)", name, gl.Name(), string(bs), tchar)
				}
			}
		}
		if tables == 0 {
			bad = name + " is neither httpguts.ValidHeaderFieldName nor a scan over a byte table the checker can read"
		}
		ok = r.check(bad == "", rule, name+": the token alphabet", ctx.P.Pos(fn.Pos()), bad, 1) && ok
	}
	type tbl struct {
		pkg, name string
		must      []string
		upper     bool
	}
	// Fetch standard, https://fetch.spec.whatwg.org/#forbidden-method
	// https://fetch.spec.whatwg.org/#forbidden-request-header (discrete names)
	// PNA draft https://wicg.github.io/private-network-access/#forbidden-header-names
	// https://fetch.spec.whatwg.org/#forbidden-response-header-name
	tables := []tbl{
		{pkgMethods, "byteUppercasedForbiddenMethods", []string{"CONNECT", "TRACE", "TRACK"}, true},
		{pkgHeaders, "discreteForbiddenRequestHeaderNames", []string{
			"accept-charset", "accept-encoding", "access-control-request-headers", "access-control-request-method",
			"access-control-request-private-network", "connection", "content-length", "cookie", "cookie2", "date", "dnt",
			"expect", "host", "keep-alive", "origin", "referer", "set-cookie", "te", "trailer", "transfer-encoding",
			"upgrade", "via"}, false},
		{pkgHeaders, "prohibitedRequestHeaderNames", []string{
			"access-control-allow-credentials", "access-control-allow-headers", "access-control-allow-methods",
			"access-control-allow-origin", "access-control-allow-private-network", "access-control-expose-headers",
			"access-control-max-age"}, false},
		{pkgHeaders, "forbiddenResponseHeaderNames", []string{"set-cookie", "set-cookie2"}, false},
		{pkgHeaders, "prohibitedResponseHeaderNames", []string{
			"access-control-request-headers", "access-control-request-method", "access-control-request-private-network", "origin"}, false},
	}
	for _, tb := range tables {
		got, err := ctx.P.SetTable(tb.pkg, tb.name)
		if err != nil {
			r.undecided(rule, tb.name, err.Error())
			ok = false
			continue
		}
		have := map[string]bool{}
		caseOK := true
		for _, g := range got {
			have[g] = true
			if tb.upper && g != strings.ToUpper(g) || !tb.upper && g != strings.ToLower(g) {
				caseOK = false
			}
		}
		var missing []string
		for _, m := range tb.must {
			if !have[m] {
				missing = append(missing, m)
			}
		}
		detail := ""
		if len(missing) > 0 {
			detail = fmt.Sprintf("entries required by the specification/documentation are missing: %v", missing)
		} else if !caseOK {
			detail = "an entry is not in the letter case used by the lookup"
		}
		ok = r.check(detail == "", rule, tb.name, "", detail, len(got)) && ok
	}
	// prefix tests of the forbidden request-header predicate
	fn := ctx.P.Func(pkgHeaders, "IsForbiddenRequestHeaderName")
	if fn == nil {
		r.undecided(rule, "IsForbiddenRequestHeaderName", "anchor not found")
		return false
	}
	x := ctx.P.NewExec(nil)
	paths := x.Summarize(fn)
	r.Paths += len(paths)
	r.fn(funcName(fn))
	good := len(x.Problems) == 0 && !hasLoop(fn)
	detail := ""
	need := []string{
		"call:(util.Set).Contains(*global:headers.discreteForbiddenRequestHeaderNames, param:name)",
		`call:strings.HasPrefix(param:name, "proxy-")`,
		`call:strings.HasPrefix(param:name, "sec-")`,
	}
	for _, pa := range paths {
		if len(pa.Rets) != 1 {
			good = false
			continue
		}
		ret := pa.Rets[0]
		switch {
		case ret.IsConst("true"):
			any := false
			for _, n := range need {
				if pa.Has(n, true) {
					any = true
				}
			}
			if !any {
				good, detail = false, "returns true without a table hit or a documented prefix: "+pa.AtomString()
			}
		case ret.IsConst("false"):
			for _, n := range need {
				if !pa.Has(n, false) {
					good, detail = false, "returns false without having excluded "+n
				}
			}
		default:
			// result is the last test: all earlier ones must be negative
			k := ret.Key()
			found := false
			for _, n := range need {
				if n == k {
					found = true
				} else if !pa.Has(n, false) {
					good, detail = false, "result "+k+" returned without having excluded "+n
				}
			}
			if !found {
				good, detail = false, "unexpected result "+k
			}
		}
	}
	ok = r.check(good, rule, "IsForbiddenRequestHeaderName: table ∨ proxy- ∨ sec-", ctx.P.Pos(fn.Pos()), detail, len(paths)) && ok
	// the four other predicates are plain table lookups; IsForbidden(method) upper-cases
	for _, pr := range []struct{ pkg, fn, want string }{
		{pkgHeaders, "IsProhibitedRequestHeaderName", "call:(util.Set).Contains(*global:headers.prohibitedRequestHeaderNames, param:name)"},
		{pkgHeaders, "IsForbiddenResponseHeaderName", "call:(util.Set).Contains(*global:headers.forbiddenResponseHeaderNames, param:name)"},
		{pkgHeaders, "IsProhibitedResponseHeaderName", "call:(util.Set).Contains(*global:headers.prohibitedResponseHeaderNames, param:name)"},
		{pkgHeaders, "IsSafelistedResponseHeaderName", "call:(util.Set).Contains(*global:headers.safelistedResponseHeaderNames, param:name)"},
		{pkgMethods, "IsForbidden", "call:(util.Set).Contains(*global:methods.byteUppercasedForbiddenMethods, call:util.ByteUppercase(param:name))"},
		{pkgMethods, "IsSafelisted", "call:(util.Set).Contains(*global:methods.safelistedMethods, param:name)"},
	} {
		f := ctx.P.Func(pr.pkg, pr.fn)
		if f == nil {
			r.undecided(rule, pr.fn, "anchor not found")
			ok = false
			continue
		}
		x := ctx.P.NewExec(nil)
		ps := x.Summarize(f)
		r.Paths += len(ps)
		r.fn(funcName(f))
		g := len(ps) == 1 && len(ps[0].Rets) == 1 && ps[0].Rets[0].Key() == pr.want && len(ps[0].Effects) == 0
		d := ""
		if !g && len(ps) > 0 && len(ps[0].Rets) == 1 {
			d = "predicate is not the plain table lookup " + pr.want + ": returns " + ps[0].Rets[0].Key()
		}
		ok = r.check(g, rule, funcName(f)+": table lookup", ctx.P.Pos(f.Pos()), d, len(ps)) && ok
	}
	return ok
}

// patternPredicates: structure of IsDeemedInsecure and HostIsEffectiveTLD (R4.6).
func patternPredicates(ctx *Ctx, r *Result, rule string) bool {
	ok := true
	fn := ctx.P.Func(pkgOrigins, "(*Pattern).IsDeemedInsecure")
	if fn == nil {
		r.undecided(rule, "IsDeemedInsecure", "anchor not found")
		return false
	}
	x := ctx.P.NewExec(ctx.P.InlineAllPolicy)
	paths := x.Summarize(fn)
	r.Paths += len(paths)
	r.fn(funcName(fn))
	loop, err := ctx.P.ConstInt(pkgOrigins, "PatternKindLoopbackIP")
	subs, err2 := ctx.P.ConstInt(pkgOrigins, "PatternKindSubdomains")
	if err != nil || err2 != nil || len(x.Problems) > 0 {
		r.undecided(rule, "IsDeemedInsecure", fmt.Sprint(err, err2, x.Problems))
		return false
	}
	// conjunction of: scheme != "https", kind != loopback, hostOnly != "localhost";
	// decided on the truth table of the result (a returned comparison counts
	// as a branch on it), so the way the expression is written does not matter
	aScheme := `bin:==(param:p.Scheme, "https")`
	aKind := fmt.Sprintf("bin:==(param:p.HostPattern.Kind, %d)", loop)
	good := true
	detail := ""
	nTrue := 0
	for _, pa := range ExpandBoolRet(paths, 0) {
		if len(pa.Rets) != 1 {
			good = false
			continue
		}
		ret := pa.Rets[0]
		hostEq := pa.Val(`bin:==(param:p.HostPattern.Value, "localhost")`)
		if pa.Val(fmt.Sprintf("bin:==(param:p.HostPattern.Kind, %d)", subs)) == 1 {
			hostEq = pa.Val(`bin:==(slice(param:p.HostPattern.Value, 2, _, _), "localhost")`)
		}
		switch {
		case ret.IsConst("false"):
			if !(pa.Has(aScheme, true) || pa.Has(aKind, true) || hostEq == 1) {
				good, detail = false, "deemed secure without https scheme, loopback kind or the host localhost (wildcard-free): "+pa.AtomString()
			}
		case ret.IsConst("true"):
			nTrue++
			if !pa.Has(aScheme, false) || !pa.Has(aKind, false) {
				good, detail = false, "deemed insecure without excluding https and loopback: "+pa.AtomString()
			} else if hostEq != -1 {
				good, detail = false, "deemed insecure without `host != \"localhost\"` on the wildcard-free host: "+pa.AtomString()
			}
		default:
			good, detail = false, "result is not a boolean combination of comparisons: "+ret.Key()
		}
	}
	if nTrue == 0 {
		good, detail = false, "no path deems a pattern insecure"
	}
	ok = r.check(good, rule, "IsDeemedInsecure: scheme≠https ∧ kind≠loopback ∧ host≠localhost", ctx.P.Pos(fn.Pos()), detail, len(paths)) && ok

	fn2 := ctx.P.Func(pkgOrigins, "(*Pattern).HostIsEffectiveTLD")
	if fn2 == nil {
		r.undecided(rule, "HostIsEffectiveTLD", "anchor not found")
		return false
	}
	x2 := ctx.P.NewExec(ctx.P.InlineAllPolicy)
	p2 := x2.Summarize(fn2)
	r.Paths += len(p2)
	r.fn(funcName(fn2))
	good, detail = len(x2.Problems) == 0, strings.Join(x2.Problems, ";")
	nPos := 0
	for _, pa := range p2 {
		if len(pa.Rets) != 2 {
			good = false
			continue
		}
		// find the comparison atom: PublicSuffix(TrimSuffix(host, "."))#0 == TrimSuffix(host, ".")
		var cmp *Atom
		for i := range pa.Atoms {
			a := pa.Atoms[i]
			if a.T.Op == "bin" && a.T.Name == "==" && strings.Contains(a.T.Key(), "publicsuffix.PublicSuffix") {
				cmp = &pa.Atoms[i]
			}
		}
		if cmp == nil {
			good, detail = false, "no comparison with the public-suffix lookup on path "+pa.AtomString()
			continue
		}
		l, rr := cmp.T.Args[0], cmp.T.Args[1]
		if l.Op != "ext" || l.Idx != 0 || l.Args[0].Op != "call" || l.Args[0].Name != "golang.org/x/net/publicsuffix.PublicSuffix" {
			l, rr = rr, l
		}
		if l.Op != "ext" || l.Args[0].Op != "call" || len(l.Args[0].Args) != 1 {
			good, detail = false, "unexpected comparison "+cmp.T.Key()
			continue
		}
		arg := l.Args[0].Args[0]
		if arg.Key() != rr.Key() {
			good, detail = false, "lookup result compared with something other than the looked-up host: "+cmp.T.Key()
		}
		if arg.Op != "call" || arg.Name != "strings.TrimSuffix" || !arg.Args[1].IsConst(`"."`) {
			good, detail = false, "the trailing dot is not trimmed before the public-suffix lookup: "+arg.Key()
		} else {
			h := arg.Args[0].Key()
			isSubs := pa.Val(fmt.Sprintf("bin:==(param:p.HostPattern.Kind, %d)", subs))
			if !(isSubs == 1 && h == "slice(param:p.HostPattern.Value, 2, _, _)") && !(isSubs == -1 && h == "param:p.HostPattern.Value") {
				good, detail = false, "public-suffix lookup on something other than the wildcard-free host: "+h
			}
		}
		if cmp.Pos {
			nPos++
			if !pa.Rets[1].IsConst("true") {
				good, detail = false, "host equals its public suffix but the result is not true"
			}
		} else if !pa.Rets[1].IsConst("false") {
			good, detail = false, "host differs from its public suffix but the result is not false"
		}
	}
	if nPos == 0 {
		good, detail = false, "no positive path"
	}
	ok = r.check(good, rule, "HostIsEffectiveTLD: trim dot, lookup, compare with trimmed host", ctx.P.Pos(fn2.Pos()), detail, len(p2)) && ok
	return ok
}

// configFieldOwnership: every field of internalConfig is written only on the
// validation path (builder + validators).
func configFieldOwnership(ctx *Ctx, r *Result, rule string) bool {
	v := ctx.Validation()
	allowed := map[string]bool{}
	if v.Builder != nil {
		allowed[funcName(v.Builder)] = true
	}
	for _, t := range v.Lists {
		allowed[funcName(t.Fn)] = true
	}
	for _, f := range v.Ints {
		allowed[funcName(f)] = true
	}
	// helpers of the validation path: module functions reachable from the
	// builder, all of whose callers are themselves on the validation path (a
	// per-element helper split out of a validator's loop, say)
	if v.Builder != nil {
		we := ctx.WE()
		reach := we.Reach(v.Builder)
		changed := true
		for changed {
			changed = false
			for _, f := range reach {
				name := funcName(f)
				if allowed[name] || len(we.callers[f]) == 0 {
					continue
				}
				all := true
				for _, cs := range we.callers[f] {
					if !allowed[funcName(cs.Caller)] {
						all = false
					}
				}
				if all {
					allowed[name] = true
					changed = true
				}
			}
		}
	}
	w := ctx.P.fieldWriters(pkgRoot, "internalConfig")
	ok := true
	for _, f := range sortedKeys(w) {
		for _, fn := range w[f] {
			if !allowed[fn] {
				r.fail(rule, "internalConfig."+f, "", "field written outside the validation path, by "+fn)
				ok = false
			}
		}
	}
	if ok {
		r.ok(rule, "internalConfig fields written only by the builder and its validators", len(w), fmt.Sprint(w))
	}
	if len(w) < 10 {
		r.undecided(rule, "internalConfig writers", fmt.Sprintf("only %d fields have writers", len(w)))
		ok = false
	}
	return ok
}

var _ = ssa.BasicBlock{}

// validationCore runs the rules shared by C04 and C05 and returns the facts.
func validationCore(ctx *Ctx, r *Result, missingOnly bool) *ValidationFacts {
	vf := ctx.ValidationFacts()
	val := ctx.Validation()
	r.rule("R4.0", "validation path fully summarised: builder loop-free, one single-pass fold per list, documented table available", 1)
	if len(vf.Problems) > 0 {
		r.undecided("R4.0", "validation-path", strings.Join(vf.Problems, "; "))
		return vf
	}
	n := 0
	for _, t := range val.Lists {
		r.fn(funcName(t.Fn))
		r.Paths += len(t.All)
		n += len(t.All)
	}
	r.ok("R4.0", "validation-path", n, "")
	return vf
}

func reportMismatches(r *Result, rule string, val *Validation, vf *ValidationFacts, want func(mismatch) bool, what string) {
	for _, f := range sortedKeys(val.Lists) {
		t := val.Lists[f]
		name := funcName(t.Fn)
		bad := map[*IterPath]bool{}
		for _, m := range vf.Mismatches[f] {
			if !want(m) {
				continue
			}
			bad[m.Path] = true
			at := ""
			if n := len(m.Path.Atoms); n > 0 {
				at = m.Path.Atoms[n-1].At
			}
			r.fail(rule, name+": "+m.Kind+" {"+t.iterDesc(m.Path)+"}", at, what+": "+m.Detail)
		}
		for _, ip := range t.Iter {
			if !bad[ip] {
				r.ok(rule, name+": {"+t.iterDesc(ip)+"}", 1, "")
			}
		}
	}
}

func (t *ValidatorTable) iterDesc(ip *IterPath) string {
	var s []string
	for _, a := range ip.Atoms {
		g := t.tag(a.T)
		if t.isGuardTag(g) || strings.HasPrefix(g, "bin:==(len:builtin.len(param:") {
			continue
		}
		if !a.Pos {
			g = "!" + g
		}
		s = append(s, g)
	}
	return strings.Join(s, " ∧ ")
}

func checkC04(ctx *Ctx) *Result {
	r := newResult("C04")
	r.Explanation = "Decided for every Config value: (1) error discipline — in the builder and in each list validator the accumulated error list starts empty, only grows by non-nil errors, every exit that has accumulated an error returns their join and publishes nothing, the builder consults every validator, returns a nil configuration whenever any violation was detected and includes each detected violation in the returned error; (2) prohibition tables — the per-element decision table of each validator (all paths of the loop body, loop-carried state symbolic) is compared with the documented table under every valuation of the documented predicates, so that no prohibited element passes without the documented error whatever the other elements, switches or positions; (3) the integer validators accept exactly [-1,86400] and {0}∪[200,299] (decided on every region between the constants they compare with); (4) deny tables contain the Fetch/PNA lists in the case the lookup uses, lookups receive the byte-lowercased name; (5) IsDeemedInsecure and HostIsEffectiveTLD have the documented structure; (6) configuration invariants CI-1..CI-6 follow."
	r.NotDecided = "the pattern grammar inside origins.ParsePattern (C13) and the behaviour of publicsuffix, idna, netip and httpguts are axioms"
	r.Trusted = trustedValidation
	vf := validationCore(ctx, r, true)
	if len(vf.Problems) > 0 {
		return r
	}
	val := ctx.Validation()
	r.rule("R4.1", "error discipline (L0): errs starts empty, only grows by non-nil errors, decides every exit; builder joins every detected violation and returns a nil configuration with it", 12)
	r.rule("R4.2", "prohibition table: every documented prohibition yields its documented error on every path of the per-element decision table (no missing error, accepted elements are recorded)", 60)
	r.rule("R4.3", "integer ranges: accepted sets are exactly [-1,86400] and {0}∪[200,299], outputs and error fields as documented", 2)
	r.rule("R4.4", "deny tables ⊇ specification lists, in lookup case; predicates are table lookups (+ proxy-/sec- prefixes)", 10)
	r.rule("R4.6", "IsDeemedInsecure is the documented conjunction; HostIsEffectiveTLD trims the trailing dot, looks up and compares the same host", 2)
	r.rule("R4.7", "publication: each validator stores into the configuration only on error-free exits and exactly what the documentation implies (tree unless `*`; CI-1, CI-2, CI-5, CI-7)", 8)
	r.rule("R4.8", "switches are copied from Config before the validators that read them run; both PNA modes together are rejected (CI-3)", 1)
	r.rule("R4.9", "internalConfig fields are written only on the validation path", 1)
	for _, f := range sortedKeys(val.Lists) {
		t := val.Lists[f]
		l0(ctx, r, "R4.1", t)
		entryRule(ctx, r, "R4.2", t)
		exitStores(ctx, r, "R4.7", t)
	}
	builderRule(ctx, r, "R4.1")
	reportMismatches(r, "R4.2", val, vf, func(m mismatch) bool { return m.Missing }, "an element the documentation prohibits (or an accepted element) is not handled as documented")
	intRule(ctx, r, "R4.3")
	denyTables(ctx, r, "R4.4")
	patternPredicates(ctx, r, "R4.6")
	builderPlumbing(ctx, r, "R4.8")
	configFieldOwnership(ctx, r, "R4.9")
	// "no malformed pattern": the guards every accepted pattern has passed
	r.share(checkC13(ctx), map[string]string{
		"R13.4": "every accepting path of ParsePattern has passed each documented guard (scheme, host alphabet, IDNA profile, IP canonical form, https never with an IP, port range, no default port)",
		"R13.1": "documented limits are the constants in use; the lexers' loops are bounded by them (a scheme, host or port beyond the documented maximum is not accepted)",
		"R13.7": "the host lexer's steps are the documented grammar's (label bytes, separators, the IPv4 assumption, lengths): a host outside it is not accepted",
		"R13.8": "the IDNA profile used for domain hosts is idna.New(BidiRule, ValidateLabels(true), StrictDomainName(true), VerifyDNSLength(true))",
	}, nil)
	// the error the caller sees is the builder's: Reconfigure consults it on every path
	r.share(checkC08(ctx), map[string]string{"R7.0": "every function touching the Middleware's state is loop-free and fully summarised; state fields identified by role (mutex, configuration pointer, debug flag)", "R8.1": "Reconfigure: every path calls the builder (or is Reconfigure(nil)); the rejecting path returns the builder's error and nothing is stored unless that error is nil"}, nil)
	for _, f := range sortedKeys(val.Lists) {
		t := val.Lists[f]
		for i, ip := range t.Iter {
			if i%9 == 0 {
				r.sample(map[string]any{"validator": funcName(t.Fn), "element_class": t.iterDesc(ip), "errors": fmt.Sprint(ip.Errs), "calls": ip.Calls, "stores": ip.Stores})
			}
		}
	}
	return r
}
