package main

import (
	"fmt"
	"sort"
	"strings"
)

func init() { registry["C02"] = checkC02 }

// The abstract browser (Appendix C of DESIGN.md): a transcription, on
// provenance classes instead of bytes, of
//   - Fetch "CORS-preflight fetch" step 7 (https://fetch.spec.whatwg.org/#cors-preflight-fetch-0)
//   - Fetch "CORS check" (https://fetch.spec.whatwg.org/#concept-cors-check)
//   - PNA preflight check (https://wicg.github.io/private-network-access/#cors-preflight)

type intent struct {
	contains bool   // the origin is denoted by a listed pattern
	include  bool   // credentials mode "include" (else omit)
	method   string // safe | listed | unlisted
	hdrs     string // none | subset | notsubset  (relative to the discrete allowed set)
	auth     bool   // authorization among the unsafe header names
	pna      string // no | nottrue | yes
}

type cfgClass struct {
	E, C, AM, AS, AA, P1, P2, Z, noACMA bool
}

func (c cfgClass) feasible() bool {
	if c.E && (c.C || c.P1 || c.P2) {
		return false // CI-1, CI-2
	}
	if c.P1 && c.P2 {
		return false // CI-3
	}
	if !c.AS && c.AA && c.Z {
		return false // CI-8: authorization listed ⇒ it is in the discrete set
	}
	return true
}

func (q intent) feasible(c cfgClass) bool {
	if q.hdrs == "none" && q.auth {
		return false
	}
	if !c.AS {
		if q.hdrs == "subset" && c.Z {
			return false // a non-empty H cannot be a subset of the empty set
		}
		if q.hdrs == "subset" && q.auth && !c.AA {
			return false // authorization ∈ H ⊆ S ⇒ authorization listed
		}
		if q.hdrs == "notsubset" && q.auth && c.AA && false {
			return false
		}
	}
	return true
}

// permit: the documented meaning of the configuration for the intent.
func permit(c cfgClass, q intent) bool {
	originOK := c.E || q.contains
	methodOK := q.method == "safe" || c.AM || q.method == "listed"
	var headersOK bool
	switch {
	case q.hdrs == "none":
		headersOK = true
	case c.AS:
		headersOK = !q.auth || c.C || c.AA
	default:
		headersOK = q.hdrs == "subset"
	}
	pnaOK := q.pna != "yes" || c.P1
	return !c.P2 && originOK && (!q.include || c.C) && methodOK && headersOK && pnaOK
}

func bval(b bool) int {
	if b {
		return 1
	}
	return -1
}

// corsCheck: Fetch CORS check on a response's ACAO/ACAC writes.
func corsCheck(ctx *Ctx, rp *ReqPath, include bool) (bool, string) {
	acao := rp.WritesTo(hACAO)
	if len(acao) == 0 {
		return false, "no ACAO"
	}
	w := acao[len(acao)-1]
	if c, isConst := ctx.tagContent(w.Tag); isConst {
		if len(c) == 1 && c[0] == "*" {
			if include {
				return false, "ACAO * with credentials mode include"
			}
			return true, ""
		}
		return false, "ACAO is a constant other than *"
	}
	if w.Tag != "hdr1(Origin)" {
		return false, "ACAO does not match the request origin: " + w.Tag
	}
	if !include {
		return true, ""
	}
	for _, a := range rp.WritesTo(hACAC) {
		if c, isConst := ctx.tagContent(a.Tag); isConst && len(c) == 1 && c[0] == "true" {
			return true, ""
		}
	}
	return false, "credentials mode include without ACAC: true"
}

// preflightCheck: Fetch CORS-preflight fetch, steps 7.x, plus the PNA check.
func preflightCheck(ctx *Ctx, rp *ReqPath, c cfgClass, q intent) (bool, string) {
	if ok, why := corsCheck(ctx, rp, q.include); !ok {
		return false, why
	}
	if rp.StatusTag != successStatusTag { // ok status by CI-4
		return false, "status is not an ok status: " + rp.StatusTag
	}
	// methods
	if q.method != "safe" {
		ok := false
		for _, w := range rp.WritesTo(hACAM) {
			if w.Tag == "hdr1("+hACRM+")" {
				ok = true
			}
			if v, isConst := ctx.tagContent(w.Tag); isConst && len(v) == 1 && v[0] == "*" && !q.include {
				ok = true
			}
		}
		if !ok {
			return false, "method not covered by Access-Control-Allow-Methods"
		}
	}
	// header names
	if q.hdrs != "none" {
		acah := rp.WritesTo(hACAH)
		if len(acah) == 0 {
			return false, "unsafe header names but no Access-Control-Allow-Headers"
		}
		w := acah[len(acah)-1]
		switch {
		case w.Tag == "hdrs("+hACRH+")":
			// every requested name is listed
		case w.Tag == "cfg.acah":
			// the configured discrete list (CI-7: the join of exactly S)
			if q.hdrs != "subset" {
				return false, "a requested header name is not in the listed set"
			}
		default:
			v, isConst := ctx.tagContent(w.Tag)
			if !isConst || len(v) != 1 {
				return false, "Access-Control-Allow-Headers of unknown provenance"
			}
			names := strings.Split(v[0], ",")
			hasStar, hasAuth := false, false
			for _, n := range names {
				switch strings.ToLower(strings.TrimSpace(n)) {
				case "*":
					hasStar = true
				case "authorization":
					hasAuth = true
				}
			}
			// CORS non-wildcard request-header name: must be listed explicitly
			if q.auth && !hasAuth {
				return false, "authorization requested but not listed explicitly"
			}
			// the other unsafe names: covered by * only without credentials
			if !(hasStar && !q.include) {
				return false, "header names neither listed nor covered by a usable *"
			}
		}
	}
	// PNA
	if q.pna == "yes" {
		ok := false
		for _, w := range rp.WritesTo(hACAPN) {
			if v, isConst := ctx.tagContent(w.Tag); isConst && len(v) == 1 && v[0] == "true" {
				ok = true
			}
		}
		if !ok {
			return false, "private-network request without Access-Control-Allow-Private-Network: true"
		}
	}
	return true, ""
}

func checkC02(ctx *Ctx) *Result {
	r := newResult("C02")
	r.Explanation = "Decided over the full finite product of configuration classes × browser intents × credentials modes × debug modes: the preflight and actual-request path tables of the request closure (every execution follows one path) are composed with a transcription of the browser's side (Fetch CORS-preflight fetch step 7, CORS check, PNA check) that operates on the provenance classes of the written values (echo of this request's Origin / ACRM / ACRH lines, the constants *, true, *,authorization, the configured header list, the status term). For every feasible cell (feasibility = the configuration invariants CI-1..CI-8, discharged on the validation path) every path consistent with the cell must lead the abstract browser to the verdict the documentation gives the configuration: origin allowed ∧ (include ⇒ credentialed) ∧ method safelisted/listed/* ∧ header names listed or covered by * (Authorization only when credentialed or listed) ∧ (PNA ⇒ enabled) ∧ ¬no-cors-only mode. Also decided: the method-normalisation and safelist tables are exactly Fetch's, and Normalize has the documented structure."
	r.NotDecided = "primitives are axioms: Contains means `a listed pattern denotes the origin` (C01), Check(S, lines) ⇔ requested ⊆ S for browser-formed lists (C14), Set.Contains is membership; the tolerated ACRH perturbations (OWS, empty elements, split lines) live inside Check and are not decided here"
	r.Trusted = append(append([]string{}, trustedRequestPath...), "the transcription of the Fetch/PNA browser-side algorithms in rules_c02.go (≈100 lines, clause by clause)")
	rt, ok := requestTableGuards(ctx, r)
	if !ok {
		return r
	}
	r.rule("R2.1", "abstract browser verdict = documented meaning, for every feasible cell of configuration × intent × credentials mode × debug mode", 2)
	r.rule("R2.2", "normalisation tables: browser-normalised methods and safelisted methods are exactly Fetch's; Normalize upper-cases exactly those", 3)
	r.rule("CI", "configuration invariants used for feasibility are discharged on the validation path (CI-1/2/3, CI-7)", 2)
	if ci := ctx.CI1(); ci != "" {
		r.fail("CI", "CI-1/CI-2", "", ci)
	} else {
		r.ok("CI", "CI-1/CI-2", 1, "")
	}
	scratch := newResult("CI")
	val := ctx.Validation()
	if t := val.Lists["RequestHeaders"]; t != nil && len(t.Problems) == 0 {
		exitStores(ctx, scratch, "CI", t)
	} else {
		scratch.undecided("CI", "request-header validator", "not available")
	}
	builderPlumbing(ctx, scratch, "CI")
	ci7 := ""
	for _, o := range scratch.Obls {
		if !o.OK {
			ci7 = o.Key() + ": " + o.Detail
		}
	}
	r.check(ci7 == "", "CI", "CI-3/CI-7", "", ci7, len(scratch.Obls))

	var preAll, actAll []*ReqPath
	for _, rp := range rt.Paths {
		if rp.Is(aPass) {
			continue
		}
		if isPreflightPath(rp) {
			preAll = append(preAll, rp)
		} else if rp.Is(aFoundO) {
			actAll = append(actAll, rp)
		}
	}
	consistent := func(rp *ReqPath, v map[string]int) bool {
		for n, pv := range rp.A {
			if cv, known := v[n]; known && cv != pv {
				return false
			}
		}
		return true
	}
	bools := []bool{false, true}
	cells, checked := 0, 0
	failures := map[string]string{}
	var sampleCells []any
	for _, E := range bools {
		for _, C := range bools {
			for _, AM := range bools {
				for _, AS := range bools {
					for _, AA := range bools {
						for _, P1 := range bools {
							for _, P2 := range bools {
								for _, Z := range bools {
									c := cfgClass{E, C, AM, AS, AA, P1, P2, Z, false}
									if !c.feasible() {
										continue
									}
									cfgV := map[string]int{
										aPass: -1, aFoundO: 1, aParseOK: 1,
										aEmpty: bval(E), aCred: bval(C), aAnyMethod: bval(AM), aAsterisk: bval(AS), aAllowAuth: bval(AA),
										aPNA: bval(P1), aPNANoCors: bval(P2), aNoHdrs: bval(Z),
									}
									if !AS {
										cfgV[aNoACAH] = bval(Z) // CI-7
									}
									for _, K := range bools {
										// actual request outcome (non-OPTIONS method, and OPTIONS used as an actual method)
										av := map[string]int{}
										for k, v := range cfgV {
											av[k] = v
										}
										av[aContains] = bval(K)
										// pre-filter the path tables by the configuration class
										kv := map[string]int{aOPTIONS: 1, aFoundACRM: 1, aContains: bval(K)}
										for k, v := range cfgV {
											kv[k] = v
										}
										var pre, act []*ReqPath
										for _, pp := range preAll {
											if consistent(pp, kv) {
												pre = append(pre, pp)
											}
										}
										for _, ap := range actAll {
											if consistent(ap, av) {
												act = append(act, ap)
											}
										}
										for _, include := range bools {
											for _, method := range []string{"safe", "listed", "unlisted"} {
												for _, hdrs := range []string{"none", "subset", "notsubset"} {
													for _, auth := range bools {
														for _, pna := range []string{"no", "nottrue", "yes"} {
															q := intent{K, include, method, hdrs, auth, pna}
															if !q.feasible(c) {
																continue
															}
															want := permit(c, q)
															for _, debug := range bools {
																cells++
																pv := map[string]int{}
																for k, v := range cfgV {
																	pv[k] = v
																}
																pv[aOPTIONS], pv[aFoundACRM] = 1, 1
																pv[aContains] = bval(K)
																pv[aDebug] = bval(debug)
																pv[aSafe] = bval(method == "safe")
																if method != "safe" {
																	pv[aListed] = bval(method == "listed")
																}
																pv[aACRH] = bval(hdrs != "none")
																if hdrs != "none" {
																	pv[aCheck] = bval(hdrs == "subset")
																}
																// (an absent header reads as "" — R3.1 — hence not as `true`)
																pv[aFoundPN] = bval(pna != "no")
																pv[aPNTrue] = bval(pna == "yes")
																needPre := method != "safe" || hdrs != "none" || pna == "yes"
																// actual request: its method is never OPTIONS here; the
																// OPTIONS-without-ACRM variant is compared separately below
																av[aOPTIONS] = -1
																nAct := 0
																for _, ap := range act {
																	if !consistent(ap, av) {
																		continue
																	}
																	nAct++
																	actOK, whyA := corsCheck(ctx, ap, include)
																	nPre := 0
																	verdicts := []struct {
																		ok  bool
																		why string
																		pp  *ReqPath
																	}{}
																	if needPre {
																		for _, pp := range pre {
																			if !consistent(pp, pv) {
																				continue
																			}
																			nPre++
																			okP, whyP := preflightCheck(ctx, pp, c, q)
																			verdicts = append(verdicts, struct {
																				ok  bool
																				why string
																				pp  *ReqPath
																			}{okP, whyP, pp})
																		}
																		if nPre == 0 {
																			failures[fmt.Sprintf("no preflight path for cfg%+v intent%+v debug=%v", c, q, debug)] = "the preflight path table is not exhaustive"
																		}
																	} else {
																		verdicts = append(verdicts, struct {
																			ok  bool
																			why string
																			pp  *ReqPath
																		}{true, "", nil})
																	}
																	for _, vd := range verdicts {
																		checked++
																		got := vd.ok && actOK
																		if got != want {
																			why := vd.why
																			if why == "" {
																				why = whyA
																			}
																			ppd := "(no preflight needed)"
																			if vd.pp != nil {
																				ppd = vd.pp.Describe()
																			}
																			key := fmt.Sprintf("cfg{allowAll:%v cred:%v anyMethod:%v asterisk:%v allowAuth:%v pna:%v pnaNoCors:%v noDiscreteHdrs:%v} intent{originListed:%v include:%v method:%s headers:%s authorization:%v pna:%s} debug=%v",
																				E, C, AM, AS, AA, P1, P2, Z, K, include, method, hdrs, auth, pna, debug)
																			if _, dup := failures[key]; !dup {
																				failures[key] = fmt.Sprintf("browser verdict %v (%s) but the configuration means %v; preflight %s; actual %s", got, why, want, ppd, ap.Describe())
																			}
																		}
																	}
																}
																if nAct == 0 {
																	failures[fmt.Sprintf("no actual path for cfg%+v K=%v", c, K)] = "the actual-request path table is not exhaustive"
																}
																if len(sampleCells) < 6 && cells%9973 == 1 {
																	sampleCells = append(sampleCells, map[string]any{"config": fmt.Sprintf("%+v", c), "intent": fmt.Sprintf("%+v", q), "debug": debug, "documented_verdict": want})
																}
															}
														}
													}
												}
											}
										}
									}
								}
							}
						}
					}
				}
			}
		}
	}
	keys := make([]string, 0, len(failures))
	for k := range failures {
		keys = append(keys, k)
	}
	sort.Strings(keys)
	for i, k := range keys {
		if i >= 25 {
			r.fail("R2.1", fmt.Sprintf("… and %d more cells", len(keys)-25), "", "")
			break
		}
		r.fail("R2.1", k, "", failures[k])
	}
	r.Obls = append(r.Obls, Obligation{Rule: "R2.1", Construct: fmt.Sprintf("%d cells, %d (cell, path pair) verdicts", cells, checked), OK: len(failures) == 0, Kind: "violation", Inspected: checked,
		Detail: fmt.Sprintf("%d cells disagree", len(failures))})
	// OPTIONS used as an actual method must get the same ACAO/ACAC as any other method
	sig := func(rp *ReqPath) string {
		var s []string
		for _, w := range rp.Writes {
			if w.Key == hACAO || w.Key == hACAC {
				s = append(s, w.Key+":="+w.Tag)
			}
		}
		return strings.Join(s, ";")
	}
	bad := ""
	n := 0
	for _, a := range actAll {
		if !a.Is(aOPTIONS) {
			continue
		}
		for _, b := range actAll {
			if b.Is(aOPTIONS) || !b.Not(aOPTIONS) {
				continue
			}
			same := true
			for k, va := range a.A {
				if k == aOPTIONS || k == aFoundACRM {
					continue
				}
				if vb, both := b.A[k]; both && va != vb {
					same = false
				}
			}
			if same {
				n++
				if sig(a) != sig(b) {
					bad = fmt.Sprintf("OPTIONS used as an actual method is answered with [%s], other methods with [%s]", sig(a), sig(b))
				}
			}
		}
	}
	r.check(bad == "", "R2.1", "OPTIONS as an actual method", "", bad, n)
	if cells < 20000 || checked < 20000 {
		r.undecided("R2.1", "cell-count", fmt.Sprintf("only %d cells / %d verdicts examined; the enumeration no longer covers the product it was written for", cells, checked))
	}
	for _, s := range sampleCells {
		r.sample(s)
	}
	r.sample(map[string]any{"cells": cells, "verdicts_compared": checked, "preflight_paths": len(preAll), "actual_paths": len(actAll)})
	r.CallSites = checked
	normalisationTables(ctx, r, "R2.2")
	// "origin allowed" rests on the origin tree: its structural necessary conditions
	treeRules(ctx, r)
	// "method listed after Fetch normalisation / header name listed
	// case-insensitively": what validation stores is what the request-time
	// lookups compare the browser's spelling with
	r.rule("R2.3", "configured methods are stored Fetch-normalised and header names byte-lowercased (decision tables of the Methods and RequestHeaders validators)", 10)
	if vf := ctx.ValidationFacts(); len(vf.Problems) > 0 {
		r.undecided("R2.3", "validation-path", strings.Join(vf.Problems, "; "))
	} else {
		v := ctx.Validation()
		sub := &Validation{Lists: map[string]*ValidatorTable{}}
		for _, f := range []string{"Methods", "RequestHeaders"} {
			if t := v.Lists[f]; t != nil {
				sub.Lists[f] = t
			}
		}
		reportMismatches(r, "R2.3", sub, vf, func(m mismatch) bool {
			return m.Kind == "missing-effect" || m.Kind == "extra-effect" || m.Kind == "flag"
		}, "a configured name is not recorded the way the request-time lookup expects")
	}
	return r
}

func normalisationTables(ctx *Ctx, r *Result, rule string) {
	for _, tb := range []struct {
		name string
		want []string
	}{
		{"browserNormalizedMethods", []string{"DELETE", "GET", "HEAD", "OPTIONS", "POST", "PUT"}},
		{"safelistedMethods", []string{"GET", "HEAD", "POST"}},
	} {
		got, err := ctx.P.SetTable(pkgMethods, tb.name)
		if err != nil {
			r.undecided(rule, tb.name, err.Error())
			continue
		}
		g := append([]string{}, got...)
		sort.Strings(g)
		r.check(strings.Join(g, ",") == strings.Join(tb.want, ","), rule, tb.name, "", fmt.Sprintf("table is %v, Fetch says %v", g, tb.want), len(g))
	}
	fn := ctx.P.Func(pkgMethods, "Normalize")
	if fn == nil {
		r.undecided(rule, "Normalize", "anchor not found")
		return
	}
	x := ctx.P.NewExec(nil)
	paths := x.Summarize(fn)
	r.Paths += len(paths)
	r.fn(funcName(fn))
	bad := strings.Join(x.Problems, ";")
	const member = "call:(util.Set).Contains(*global:methods.browserNormalizedMethods, call:util.ByteUppercase(param:method))"
	for _, pa := range paths {
		if len(pa.Rets) != 1 {
			bad = "arity"
			continue
		}
		switch pa.Val(member) {
		case 1:
			if pa.Rets[0].Key() != "call:util.ByteUppercase(param:method)" {
				bad = "a browser-normalised method is not returned upper-cased: " + pa.Rets[0].Key()
			}
		case -1:
			if pa.Rets[0].Key() != "param:method" {
				bad = "a method that browsers do not normalise is altered: " + pa.Rets[0].Key()
			}
		default:
			bad = "Normalize does not test membership of the upper-cased method in the browser-normalised set"
		}
	}
	r.check(bad == "", rule, "methods.Normalize", ctx.P.Pos(fn.Pos()), bad, len(paths))
}
