package main

import (
	"fmt"
	"go/ast"
	"go/token"
	"go/types"
	"strings"

	"golang.org/x/tools/go/cfg"
	"golang.org/x/tools/go/ssa"
)

func init() { registry["C19"] = checkC19 }

// yieldSite is one call of the iterator's yield function.
type yieldSite struct {
	Call     *ast.CallExpr
	Block    *cfg.Block
	Returned bool // push idiom: the call is the operand of a return statement
	IsCond   bool // the call is (up to ! and parentheses) the whole condition ending its block
	Negate   bool // condition is !yield(...)
}

func checkC19(ctx *Ctx) *Result { return checkC19x(ctx, true) }

// checkC19x: withC05 is false when C05 itself asks for the traversal rules
// (C19 shares C05's decision tables; the share graph must stay acyclic).
func checkC19x(ctx *Ctx, withC05 bool) *Result {
	r := newResult("C19")
	r.Explanation = "Decided for every error tree and every break position, on the control-flow graph (go/cfg, where range-over-func bodies are ordinary loop bodies and `return` leaves the literal) and the type-checked syntax of the function literal returned by cfgerrors.All: (R19.1, typestate) every call of yield is the condition of a branch whose `yield returned false` edge reaches the literal's exit without passing another yield, a recursive All or a loop head — so no value is produced after the consumer stopped, at any nesting depth, by induction on the recursion; (R19.2) yield is applied either to the error being flattened itself, outside any loop and only when it is not a join (type-switch default), or to the iteration variable of a range over All(child) where child is the iteration value of a range over the join's Unwrap(); in the innermost body around each yield every path from the body's entry to its end passes exactly one yield, and the join/leaf dispatch sends every error to exactly one of the two; (R19.3) the module defines no Unwrap() error method and never wraps errors (fmt.Errorf, %w), and nil is never appended to a joined list (L0), so the leaves of the tree are exactly the constructed violations."
	r.NotDecided = "runtime behaviour of errors.Join and of range-over-func is taken from the language/library specification; stack depth on absurdly deep trees"
	r.Trusted = []string{"Go type checker, go/cfg (x/tools v0.29.0)", "language semantics of range-over-func: `return` inside the loop body makes the iterator's yield return false and ends the enclosing function", "errors.Join keeps its non-nil operands, Unwrap() []error returns them in order"}
	r.rule("R19.1", "yield typestate: each yield is a branch condition; after `false` the literal exits without another yield/loop head/recursive call", 2)
	r.rule("R19.2", "yield arguments and multiplicity: leaf yielded once outside loops; join children flattened by one range over Unwrap() × one range over All(child), one yield per element", 4)
	r.rule("R19.3", "only joins are produced: no Unwrap() error method, no error wrapping in the module; nil is never appended to a joined list", 3)

	p := ctx.P
	pk := p.Pkgs[pkgErrs]
	if pk == nil {
		r.undecided("R19.1", "cfgerrors", "package not loaded")
		return r
	}
	info := pk.TypesInfo
	var all *ast.FuncDecl
	for _, f := range pk.Syntax {
		for _, d := range f.Decls {
			if fd, ok := d.(*ast.FuncDecl); ok && fd.Recv == nil && fd.Name.Name == "All" {
				all = fd
			}
		}
	}
	if all == nil || all.Body == nil {
		r.undecided("R19.1", "cfgerrors.All", "anchor not found")
		return r
	}
	r.fn("cfgerrors.All")
	allObj := info.Defs[all.Name]
	var errParam types.Object
	if all.Type.Params != nil && len(all.Type.Params.List) == 1 && len(all.Type.Params.List[0].Names) == 1 {
		errParam = info.Defs[all.Type.Params.List[0].Names[0]]
	}
	// the function literal returned
	var lit *ast.FuncLit
	ast.Inspect(all.Body, func(n ast.Node) bool {
		if fl, ok := n.(*ast.FuncLit); ok && lit == nil {
			lit = fl
			return false
		}
		return true
	})
	if lit == nil || errParam == nil || len(lit.Type.Params.List) != 1 || len(lit.Type.Params.List[0].Names) != 1 {
		r.undecided("R19.1", "cfgerrors.All", "All does not return a one-parameter function literal")
		return r
	}
	yieldObj := info.Defs[lit.Type.Params.List[0].Names[0]]
	isYield := func(c *ast.CallExpr) bool {
		id, ok := c.Fun.(*ast.Ident)
		return ok && info.Uses[id] == yieldObj
	}
	isAllCall := func(c *ast.CallExpr) bool {
		id, ok := c.Fun.(*ast.Ident)
		return ok && info.Uses[id] == allObj
	}
	// The producer: the literal itself, or — the "push" idiom — a package-level
	// helper W(err error, yield func(error) bool) bool to which the literal
	// hands its argument and its yield, and which recurses on the children
	// instead of ranging over All(child). W's result means "go on".
	prodBody := lit.Body
	var walkObj types.Object
	var walkDecl *ast.FuncDecl
	if len(lit.Body.List) == 1 {
		var call *ast.CallExpr
		ast.Inspect(lit.Body.List[0], func(n ast.Node) bool {
			if c, ok := n.(*ast.CallExpr); ok && call == nil {
				call = c
				return false
			}
			return true
		})
		if call != nil && len(call.Args) == 2 {
			id, _ := call.Fun.(*ast.Ident)
			a0, _ := call.Args[0].(*ast.Ident)
			a1, _ := call.Args[1].(*ast.Ident)
			if id != nil && a0 != nil && a1 != nil && info.Uses[a0] == errParam && info.Uses[a1] == yieldObj {
				for _, f := range pk.Syntax {
					for _, d := range f.Decls {
						fd, ok := d.(*ast.FuncDecl)
						if !ok || fd.Recv != nil || fd.Body == nil || info.Defs[fd.Name] != info.Uses[id] {
							continue
						}
						sig, _ := info.Defs[fd.Name].Type().(*types.Signature)
						if sig == nil || sig.Params().Len() != 2 || sig.Results().Len() != 1 ||
							types.TypeString(sig.Params().At(0).Type(), nil) != "error" ||
							types.TypeString(sig.Params().At(1).Type().Underlying(), nil) != "func(error) bool" ||
							types.TypeString(sig.Results().At(0).Type(), nil) != "bool" {
							continue
						}
						walkDecl, walkObj = fd, info.Defs[fd.Name]
					}
				}
			}
		}
	}
	modeB := walkDecl != nil
	isWalkCall := func(c *ast.CallExpr) bool {
		id, ok := c.Fun.(*ast.Ident)
		if !ok || walkObj == nil || info.Uses[id] != walkObj || len(c.Args) != 2 {
			return false
		}
		y, ok := c.Args[1].(*ast.Ident)
		return ok && info.Uses[y] == yieldObj
	}
	if modeB {
		r.fn("cfgerrors." + walkDecl.Name.Name)
		// the literal does nothing but start the helper on its own argument
		r.ok("R19.1", "All's literal hands its argument and its yield to "+walkDecl.Name.Name, 1, "")
		var names []*ast.Ident
		for _, f := range walkDecl.Type.Params.List {
			names = append(names, f.Names...)
		}
		if len(names) != 2 {
			r.undecided("R19.1", "cfgerrors."+walkDecl.Name.Name, "unnamed parameters")
			return r
		}
		errParam, yieldObj = info.Defs[names[0]], info.Defs[names[1]]
		prodBody = walkDecl.Body
		// in the helper a recursive call plays the part of `range All(child)`
		isAllCall = isWalkCall
	}
	// a producing call: yield itself or (push idiom) the helper handed the same yield
	isProduce := func(c *ast.CallExpr) bool { return isYield(c) || (modeB && isWalkCall(c)) }
	// yield must not escape (passed on, stored): every use is a call
	escapes := false
	ast.Inspect(prodBody, func(n ast.Node) bool {
		if id, ok := n.(*ast.Ident); ok && info.Uses[id] == yieldObj {
			escapes = true
		}
		if c, ok := n.(*ast.CallExpr); ok && modeB && isWalkCall(c) {
			// yield handed on unchanged to the helper: seen
			ast.Inspect(c.Args[0], func(m ast.Node) bool {
				if id, ok := m.(*ast.Ident); ok && info.Uses[id] == yieldObj {
					escapes = true
				}
				return true
			})
			return false
		}
		if c, ok := n.(*ast.CallExpr); ok && isYield(c) {
			for _, a := range c.Args {
				ast.Inspect(a, func(m ast.Node) bool {
					if id, ok := m.(*ast.Ident); ok && info.Uses[id] == yieldObj {
						escapes = true
					}
					return true
				})
			}
			// the Fun ident itself is fine: skip it by not descending
			return false
		}
		return true
	})
	r.check(!escapes, "R19.1", "yield is only ever called", p.Pos(lit.Pos()), "yield is passed on or stored; its calls cannot all be seen", 1)

	g := cfg.New(prodBody, func(*ast.CallExpr) bool { return true })
	containsYield := func(b *cfg.Block) (n int) {
		for _, nd := range b.Nodes {
			ast.Inspect(nd, func(m ast.Node) bool {
				if _, isLit := m.(*ast.FuncLit); isLit {
					return false
				}
				if c, ok := m.(*ast.CallExpr); ok && isProduce(c) {
					n++
				}
				return true
			})
		}
		return
	}
	producesMore := func(b *cfg.Block) string {
		if containsYield(b) > 0 {
			return "another yield"
		}
		if b.Kind == cfg.KindRangeLoop || b.Kind == cfg.KindForLoop {
			return "a loop head"
		}
		for _, nd := range b.Nodes {
			found := ""
			ast.Inspect(nd, func(m ast.Node) bool {
				if c, ok := m.(*ast.CallExpr); ok && isAllCall(c) {
					found = "a recursive call of All"
				}
				return true
			})
			if found != "" {
				return found
			}
		}
		return ""
	}
	var sites []yieldSite
	for _, b := range g.Blocks {
		if !b.Live {
			continue
		}
		for i, nd := range b.Nodes {
			ast.Inspect(nd, func(m ast.Node) bool {
				if _, isLit := m.(*ast.FuncLit); isLit {
					return false
				}
				c, ok := m.(*ast.CallExpr)
				if !ok || !isProduce(c) {
					return true
				}
				ys := yieldSite{Call: c, Block: b}
				if rs, isRet := nd.(*ast.ReturnStmt); isRet && modeB && len(rs.Results) == 1 && rs.Results[0] == ast.Expr(c) {
					ys.Returned = true // `return yield(x)`: the verdict is passed up unchanged
				}
				// the verdict as a branch condition: the call itself — possibly
				// negated or compared with true/false — or a variable it was just
				// assigned to (`ok := yield(x); if !ok {…}`)
				strip := func(e ast.Expr) (ast.Expr, bool) {
					neg := false
					for {
						switch x := e.(type) {
						case *ast.ParenExpr:
							e = x.X
							continue
						case *ast.UnaryExpr:
							if x.Op == token.NOT {
								neg = !neg
								e = x.X
								continue
							}
						case *ast.BinaryExpr:
							if x.Op == token.EQL || x.Op == token.NEQ {
								lit, other := x.Y, x.X
								if id, ok := x.X.(*ast.Ident); ok && (id.Name == "true" || id.Name == "false") {
									lit, other = x.X, x.Y
								}
								if id, ok := lit.(*ast.Ident); ok && (id.Name == "true" || id.Name == "false") {
									if _, isConst := info.Uses[id].(*types.Const); isConst {
										if (id.Name == "false") != (x.Op == token.NEQ) {
											neg = !neg
										}
										e = other
										continue
									}
								}
							}
						}
						break
					}
					return e, neg
				}
				if len(b.Succs) == 2 && len(b.Nodes) > 0 {
					if cond, isExpr := b.Nodes[len(b.Nodes)-1].(ast.Expr); isExpr {
						base, neg := strip(cond)
						switch {
						case i == len(b.Nodes)-1 && base == ast.Expr(c):
							ys.IsCond, ys.Negate = true, neg
						case i == len(b.Nodes)-2:
							// nd assigns the call's result to a variable the condition tests
							var lhs *ast.Ident
							switch st := nd.(type) {
							case *ast.AssignStmt:
								if len(st.Lhs) == 1 && len(st.Rhs) == 1 && st.Rhs[0] == ast.Expr(c) {
									lhs, _ = st.Lhs[0].(*ast.Ident)
								}
							case *ast.ValueSpec:
								if len(st.Names) == 1 && len(st.Values) == 1 && st.Values[0] == ast.Expr(c) {
									lhs = st.Names[0]
								}
							case *ast.DeclStmt:
								if gd, ok := st.Decl.(*ast.GenDecl); ok && len(gd.Specs) == 1 {
									if vs, ok := gd.Specs[0].(*ast.ValueSpec); ok && len(vs.Names) == 1 && len(vs.Values) == 1 && vs.Values[0] == ast.Expr(c) {
										lhs = vs.Names[0]
									}
								}
							}
							if id, ok := base.(*ast.Ident); ok && lhs != nil && info.ObjectOf(id) != nil && info.ObjectOf(id) == info.ObjectOf(lhs) {
								ys.IsCond, ys.Negate = true, neg
							}
						}
					}
				}
				sites = append(sites, ys)
				return true
			})
		}
	}
	// push idiom: the literal `false` results, and which blocks return what
	retKind := func(b *cfg.Block) string { // "", "false", "true", "call", "other"
		for _, nd := range b.Nodes {
			rs, ok := nd.(*ast.ReturnStmt)
			if !ok {
				continue
			}
			if len(rs.Results) != 1 {
				return "other"
			}
			switch x := rs.Results[0].(type) {
			case *ast.Ident:
				if x.Name == "false" || x.Name == "true" {
					if _, isConst := info.Uses[x].(*types.Const); isConst {
						return x.Name
					}
				}
			case *ast.CallExpr:
				if isProduce(x) {
					return "call"
				}
			}
			return "other"
		}
		return ""
	}
	for _, ys := range sites {
		desc := "yield @" + p.Pos(ys.Call.Pos())
		var starts []*cfg.Block
		var bad string
		if ys.Returned {
			r.ok("R19.1", desc, 1, "result returned unchanged")
			continue
		}
		if !ys.IsCond {
			// the result is not branched on. That is harmless iff nothing more
			// can be produced after the call whatever it returned: a discarded
			// result (expression statement) followed only by the way out.
			discarded := false
			after := false
			for _, nd := range ys.Block.Nodes {
				if after {
					ast.Inspect(nd, func(m ast.Node) bool {
						if c, ok := m.(*ast.CallExpr); ok && (isYield(c) || isAllCall(c)) {
							bad = "after a yield whose result is discarded, the same block produces more"
						}
						return true
					})
				}
				if es, ok := nd.(*ast.ExprStmt); ok && es.X == ast.Expr(ys.Call) {
					discarded, after = true, true
				} else if e, ok := nd.(ast.Expr); ok && e == ast.Expr(ys.Call) {
					discarded, after = true, true
				}
			}
			if !discarded {
				r.fail("R19.1", desc, p.Pos(ys.Call.Pos()), "the result of yield is neither the condition of a branch nor discarded right before the way out: a consumer's break cannot be seen to stop the iteration here")
				continue
			}
			starts = ys.Block.Succs
		} else {
			falseSucc := ys.Block.Succs[1]
			if ys.Negate {
				falseSucc = ys.Block.Succs[0]
			}
			starts = []*cfg.Block{falseSucc}
		}
		// reachability from the `false` edge
		seen := map[*cfg.Block]bool{}
		var walk func(b *cfg.Block)
		walk = func(b *cfg.Block) {
			if seen[b] || bad != "" {
				return
			}
			seen[b] = true
			if why := producesMore(b); why != "" {
				bad = fmt.Sprintf("after yield returned false, control can reach %s (block %d: %s)", why, b.Index, b.Kind)
				return
			}
			if modeB {
				if k := retKind(b); k != "" && k != "false" {
					bad = fmt.Sprintf("after yield returned false the helper can return something other than false (block %d returns %s): its caller goes on producing", b.Index, k)
					return
				}
			}
			for _, s := range b.Succs {
				walk(s)
			}
		}
		for _, b := range starts {
			walk(b)
		}
		r.check(bad == "", "R19.1", desc, p.Pos(ys.Call.Pos()), bad, len(seen))
	}
	if len(sites) < 2 {
		r.undecided("R19.1", "yield-sites", fmt.Sprintf("%d yield calls found, expected 2 (leaf, join element)", len(sites)))
	}
	if modeB {
		// the helper reports "stop" only when a yield did: with every
		// `returned false` edge removed, no `return false` is reachable; and it
		// returns nothing but true, false or a producing call's own result
		cut := map[*cfg.Block]*cfg.Block{}
		for _, ys := range sites {
			if ys.IsCond {
				f := ys.Block.Succs[1]
				if ys.Negate {
					f = ys.Block.Succs[0]
				}
				cut[ys.Block] = f
			}
		}
		seen := map[*cfg.Block]bool{}
		bad := ""
		var walk func(b *cfg.Block)
		walk = func(b *cfg.Block) {
			if seen[b] {
				return
			}
			seen[b] = true
			switch retKind(b) {
			case "false":
				bad = fmt.Sprintf("the helper can return false although no yield returned false (block %d): its caller stops early and leaves are dropped", b.Index)
			case "other":
				bad = fmt.Sprintf("the helper returns something other than true, false or a producing call's result (block %d)", b.Index)
			}
			for _, s := range b.Succs {
				if cut[b] == s && !(len(b.Succs) == 2 && b.Succs[0] == b.Succs[1]) {
					continue
				}
				walk(s)
			}
		}
		if len(g.Blocks) > 0 {
			walk(g.Blocks[0])
		}
		r.check(bad == "", "R19.1", "helper result = \"no yield returned false\"", p.Pos(walkDecl.Pos()), bad, len(seen))
	}

	// ---- R19.2: arguments, loop nests, multiplicity --------------------
	// aliases of the error being flattened: the parameter and type-switch bindings of it
	alias := map[types.Object]bool{errParam: true}
	var tswitch *ast.TypeSwitchStmt
	ast.Inspect(prodBody, func(n ast.Node) bool {
		ts, ok := n.(*ast.TypeSwitchStmt)
		if !ok {
			return true
		}
		var x ast.Expr
		switch a := ts.Assign.(type) {
		case *ast.AssignStmt:
			if ta, ok := a.Rhs[0].(*ast.TypeAssertExpr); ok {
				x = ta.X
			}
		case *ast.ExprStmt:
			if ta, ok := a.X.(*ast.TypeAssertExpr); ok {
				x = ta.X
			}
		}
		if id, ok := x.(*ast.Ident); ok && alias[info.Uses[id]] {
			tswitch = ts
			for _, cl := range ts.Body.List {
				if o := info.Implicits[cl]; o != nil {
					alias[o] = true
				}
			}
		}
		return true
	})
	// the same dispatch written as a comma-ok assertion:
	//   j, ok := err.(interface{ Unwrap() []error }); if !ok { leaf } ...
	isJoinIface := func(t types.Type) bool {
		it, _ := t.Underlying().(*types.Interface)
		return it != nil && it.NumMethods() == 1 && it.Method(0).Name() == "Unwrap" &&
			types.TypeString(it.Method(0).Type().(*types.Signature).Results(), nil) == "([]error)"
	}
	var okObj types.Object
	var okAssign *ast.AssignStmt
	nOkAssign := 0
	if tswitch == nil {
		ast.Inspect(prodBody, func(n ast.Node) bool {
			if _, isLit := n.(*ast.FuncLit); isLit {
				return false
			}
			as, ok := n.(*ast.AssignStmt)
			if !ok || len(as.Lhs) != 2 || len(as.Rhs) != 1 {
				return true
			}
			ta, ok := as.Rhs[0].(*ast.TypeAssertExpr)
			if !ok || ta.Type == nil {
				return true
			}
			id, ok := ta.X.(*ast.Ident)
			if !ok || !alias[info.Uses[id]] || !isJoinIface(info.TypeOf(ta.Type)) {
				return true
			}
			j, _ := as.Lhs[0].(*ast.Ident)
			k, _ := as.Lhs[1].(*ast.Ident)
			if j == nil || k == nil {
				return true
			}
			obj := func(id *ast.Ident) types.Object {
				if o := info.Defs[id]; o != nil {
					return o
				}
				return info.Uses[id]
			}
			if o := obj(j); o != nil {
				alias[o] = true
			}
			okObj, okAssign = obj(k), as
			return true
		})
		if okObj != nil {
			// ok must have this single assignment
			ast.Inspect(prodBody, func(n ast.Node) bool {
				switch a := n.(type) {
				case *ast.AssignStmt:
					for _, l := range a.Lhs {
						if id, isID := l.(*ast.Ident); isID && (info.Defs[id] == okObj || info.Uses[id] == okObj) {
							nOkAssign++
						}
					}
				case *ast.UnaryExpr:
					if id, isID := a.X.(*ast.Ident); isID && a.Op == token.AND && info.Uses[id] == okObj {
						nOkAssign += 2
					}
				case *ast.IncDecStmt:
				}
				return true
			})
		}
	}
	// region of a node under the comma-ok dispatch: reachable only with ok
	// false ("leaf"), only with ok true ("join"), or otherwise ""
	var okBlock *cfg.Block
	okNeg := false
	nOkBlocks := 0
	if okObj != nil {
		for _, b := range g.Blocks {
			if !b.Live || len(b.Succs) != 2 || len(b.Nodes) == 0 {
				continue
			}
			e, isExpr := b.Nodes[len(b.Nodes)-1].(ast.Expr)
			if !isExpr {
				continue
			}
			neg := false
			for {
				switch x := e.(type) {
				case *ast.ParenExpr:
					e = x.X
					continue
				case *ast.UnaryExpr:
					if x.Op == token.NOT {
						neg = !neg
						e = x.X
						continue
					}
				}
				break
			}
			if id, isID := e.(*ast.Ident); isID && info.Uses[id] == okObj {
				okBlock, okNeg = b, neg
				nOkBlocks++
			}
		}
	}
	reachableCut := func(cutTo *cfg.Block) map[*cfg.Block]bool {
		seen := map[*cfg.Block]bool{}
		var walk func(b *cfg.Block)
		walk = func(b *cfg.Block) {
			if seen[b] {
				return
			}
			seen[b] = true
			for i, s := range b.Succs {
				if b == okBlock && s == cutTo && (i == 0) == (cutTo == okBlock.Succs[0]) {
					continue
				}
				walk(s)
			}
		}
		if len(g.Blocks) > 0 {
			walk(g.Blocks[0])
		}
		return seen
	}
	var reachNoFalse, reachNoTrue map[*cfg.Block]bool
	if okBlock != nil && nOkBlocks == 1 && nOkAssign == 1 && okBlock.Succs[0] != okBlock.Succs[1] {
		tEdge, fEdge := okBlock.Succs[0], okBlock.Succs[1]
		if okNeg {
			tEdge, fEdge = fEdge, tEdge
		}
		reachNoFalse, reachNoTrue = reachableCut(fEdge), reachableCut(tEdge)
	}
	blockOf := func(n ast.Node) *cfg.Block {
		for _, b := range g.Blocks {
			for _, nd := range b.Nodes {
				if nd.Pos() <= n.Pos() && n.End() <= nd.End() {
					return b
				}
			}
		}
		return nil
	}
	_ = okAssign
	// parent map
	parents := map[ast.Node]ast.Node{}
	var stack []ast.Node
	ast.Inspect(prodBody, func(n ast.Node) bool {
		if n == nil {
			stack = stack[:len(stack)-1]
			return true
		}
		if len(stack) > 0 {
			parents[n] = stack[len(stack)-1]
		}
		stack = append(stack, n)
		return true
	})
	// resolveOnce: a variable that is given its value exactly once (a := e, or
	// var a T = e) and never assigned again stands for e
	resolveOnce := func(e ast.Expr) ast.Expr {
		id, isId := e.(*ast.Ident)
		if !isId || info.ObjectOf(id) == nil {
			return e
		}
		obj := info.ObjectOf(id)
		var def ast.Expr
		n := 0
		ast.Inspect(lit.Body, func(m ast.Node) bool {
			switch st := m.(type) {
			case *ast.AssignStmt:
				for k, lh := range st.Lhs {
					if lid, ok := lh.(*ast.Ident); ok && info.ObjectOf(lid) == obj {
						n++
						if len(st.Rhs) == len(st.Lhs) {
							def = st.Rhs[k]
						}
					}
				}
			case *ast.ValueSpec:
				for k, nm := range st.Names {
					if info.ObjectOf(nm) == obj {
						n++
						if len(st.Values) == len(st.Names) {
							def = st.Values[k]
						}
					}
				}
			case *ast.IncDecStmt:
				if lid, ok := st.X.(*ast.Ident); ok && info.ObjectOf(lid) == obj {
					n += 2
				}
			case *ast.RangeStmt:
				for _, kv := range []ast.Expr{st.Key, st.Value} {
					if lid, ok := kv.(*ast.Ident); ok && info.ObjectOf(lid) == obj {
						n += 2
					}
				}
			}
			return true
		})
		if n == 1 && def != nil {
			return def
		}
		return e
	}
	enclosingRanges := func(n ast.Node) []*ast.RangeStmt {
		var out []*ast.RangeStmt
		for q := parents[n]; q != nil; q = parents[q] {
			if rs, ok := q.(*ast.RangeStmt); ok {
				out = append(out, rs)
			}
			if _, ok := q.(*ast.ForStmt); ok {
				out = append(out, nil)
			}
		}
		return out
	}
	enclosingClause := func(n ast.Node) *ast.CaseClause {
		for q := parents[n]; q != nil; q = parents[q] {
			if cc, ok := q.(*ast.CaseClause); ok {
				return cc
			}
		}
		return nil
	}
	// region: "leaf" / "join" / "" for a node, under either form of dispatch
	region := func(n ast.Node) string {
		if tswitch != nil {
			cc := enclosingClause(n)
			if cc == nil || parents[cc] != ast.Node(tswitch.Body) {
				return ""
			}
			if cc.List == nil {
				return "leaf"
			}
			return "join"
		}
		if reachNoFalse == nil {
			return ""
		}
		// for a loop, the block of its range expression
		b := blockOf(n)
		if b == nil {
			return ""
		}
		switch {
		case !reachNoFalse[b] && reachNoTrue[b]:
			return "leaf"
		case !reachNoTrue[b] && reachNoFalse[b]:
			return "join"
		}
		return ""
	}
	objOf := func(e ast.Expr) types.Object {
		if id, ok := e.(*ast.Ident); ok {
			if o := info.Uses[id]; o != nil {
				return o
			}
			return info.Defs[id]
		}
		return nil
	}
	nLeaf, nJoin := 0, 0
	for _, ys := range sites {
		desc := "yield @" + p.Pos(ys.Call.Pos())
		if modeB && isWalkCall(ys.Call) {
			// push idiom: the children are flattened by one recursive call per
			// element of one range over the join's own Unwrap()
			nJoin++
			good, detail := true, ""
			ranges := enclosingRanges(ys.Call)
			if len(ranges) != 1 || ranges[0] == nil {
				good, detail = false, "the recursive call does not sit in exactly one range loop over the join's children"
			} else {
				outer := ranges[0]
				if outer.Value == nil || objOf(ys.Call.Args[0]) == nil || objOf(ys.Call.Args[0]) != objOf(outer.Value) {
					good, detail = false, "the recursive call is not applied to the child being visited"
				}
				oc, ok := outer.X.(*ast.CallExpr)
				if ok {
					sel, isSel := oc.Fun.(*ast.SelectorExpr)
					if !isSel || sel.Sel.Name != "Unwrap" || !alias[objOf(sel.X)] {
						good, detail = false, "the loop does not range over the join's own Unwrap()"
					} else if sig, _ := info.TypeOf(oc.Fun).(*types.Signature); sig == nil || sig.Results().Len() != 1 || types.TypeString(sig.Results().At(0).Type(), nil) != "[]error" {
						good, detail = false, "Unwrap() does not return []error"
					}
				} else {
					good, detail = false, "the loop does not range over the join's own Unwrap()"
				}
				if region(outer.X) != "join" {
					good, detail = false, "children are flattened outside the join case of the dispatch"
				}
			}
			r.check(good, "R19.2", desc+" (join element, recursive helper)", p.Pos(ys.Call.Pos()), detail, 1)
			continue
		}
		if len(ys.Call.Args) != 1 {
			r.fail("R19.2", desc, p.Pos(ys.Call.Pos()), "yield called with an unexpected number of arguments")
			continue
		}
		arg := objOf(ys.Call.Args[0])
		ranges := enclosingRanges(ys.Call)
		switch {
		case arg != nil && alias[arg] && len(ranges) == 0:
			// leaf: must sit in the clause that excludes joins
			nLeaf++
			good, detail := true, ""
			switch region(ys.Call) {
			case "":
				good, detail = false, "the error itself is yielded outside the join/leaf dispatch"
			case "join":
				good, detail = false, "the error itself is yielded where it is known to be a join, not in the default (non-join) case"
			}
			r.check(good, "R19.2", desc+" (leaf)", p.Pos(ys.Call.Pos()), detail, 1)
		case len(ranges) == 2 && ranges[0] != nil:
			nJoin++
			inner := ranges[0]
			good, detail := true, ""
			// the loop over the children: `for _, c := range <children>` or the
			// index loop `for i := 0; i < len(<children>); i++ { … <children>[i] … }`
			var loopNode ast.Node
			for q := parents[inner]; q != nil && loopNode == nil; q = parents[q] {
				switch q.(type) {
				case *ast.RangeStmt, *ast.ForStmt:
					loopNode = q
				}
			}
			var coll ast.Expr       // what is iterated
			var body *ast.BlockStmt // the loop body
			isChild := func(e ast.Expr) bool { return false }
			switch l := loopNode.(type) {
			case *ast.RangeStmt:
				coll, body = l.X, l.Body
				isChild = func(e ast.Expr) bool { return l.Value != nil && objOf(e) != nil && objOf(e) == objOf(l.Value) }
			case *ast.ForStmt:
				body = l.Body
				init, _ := l.Init.(*ast.AssignStmt)
				cond, _ := l.Cond.(*ast.BinaryExpr)
				post, _ := l.Post.(*ast.IncDecStmt)
				var iObj types.Object
				if init != nil && init.Tok == token.DEFINE && len(init.Lhs) == 1 && len(init.Rhs) == 1 {
					if lit0, ok := init.Rhs[0].(*ast.BasicLit); ok && lit0.Value == "0" {
						iObj = objOf(init.Lhs[0])
					}
				}
				okShape := iObj != nil && cond != nil && cond.Op == token.LSS && objOf(cond.X) == iObj && post != nil && post.Tok == token.INC && objOf(post.X) == iObj
				if okShape {
					if lc, ok := cond.Y.(*ast.CallExpr); ok && len(lc.Args) == 1 {
						if id, ok := lc.Fun.(*ast.Ident); ok && id.Name == "len" {
							coll = lc.Args[0]
						}
					}
				}
				// neither the index nor the slice is assigned in the body
				if coll != nil {
					ast.Inspect(l.Body, func(m ast.Node) bool {
						switch st := m.(type) {
						case *ast.AssignStmt:
							for _, lh := range st.Lhs {
								if o := objOf(lh); o != nil && (o == iObj || o == objOf(coll)) {
									coll = nil
								}
							}
						case *ast.IncDecStmt:
							if o := objOf(st.X); o != nil && o == iObj {
								coll = nil
							}
						}
						return coll != nil
					})
				}
				if coll != nil {
					cObj := objOf(coll)
					isChild = func(e ast.Expr) bool {
						ix, ok := e.(*ast.IndexExpr)
						return ok && cObj != nil && objOf(ix.X) == cObj && objOf(ix.Index) == iObj
					}
				}
			}
			// inner: for k := range All(child)
			ic, ok := inner.X.(*ast.CallExpr)
			if !ok || !isAllCall(ic) || len(ic.Args) != 1 {
				good, detail = false, "the inner loop does not range over a recursive All(child)"
				ic = nil
			} else if inner.Key == nil || inner.Value != nil || objOf(inner.Key) != arg {
				good, detail = false, "the yielded value is not the element produced by the recursive iteration"
			} else if !isChild(ic.Args[0]) && !isChild(resolveOnce(ic.Args[0])) {
				good, detail = false, "the recursive call is not applied to the child being visited"
			}
			// what is iterated: <alias>.Unwrap(), directly or through a variable
			// assigned once from it
			if coll != nil {
				coll = resolveOnce(coll)
			}
			oc, isCall := coll.(*ast.CallExpr)
			if coll == nil || !isCall {
				good, detail = false, "the outer loop does not range over the join's own Unwrap()"
			} else {
				sel, isSel := oc.Fun.(*ast.SelectorExpr)
				if !isSel || sel.Sel.Name != "Unwrap" || !alias[objOf(sel.X)] {
					good, detail = false, "the outer loop does not range over the join's own Unwrap()"
				} else if sig, _ := info.TypeOf(oc.Fun).(*types.Signature); sig == nil || sig.Results().Len() != 1 || types.TypeString(sig.Results().At(0).Type(), nil) != "[]error" {
					good, detail = false, "Unwrap() does not return []error"
				}
				if region(oc) != "join" {
					good, detail = false, "children are flattened outside the join case of the dispatch"
				}
			}
			r.check(good, "R19.2", desc+" (join element)", p.Pos(ys.Call.Pos()), detail, 1)
			// every child is flattened, once: each pass through the outer
			// loop's body starts exactly one recursive iteration
			if ic != nil && body != nil {
				bg := cfg.New(body, func(*ast.CallExpr) bool { return true })
				min, max := yieldCounts(bg, func(c *ast.CallExpr) bool { return c == ic }, nil)
				r.check(min == 1 && max == 1, "R19.2", "every child of a join is flattened exactly once @"+p.Pos(loopNode.Pos()), p.Pos(loopNode.Pos()),
					fmt.Sprintf("a pass through the loop over the join's children starts between %d and %d recursive iterations (a child can be skipped or visited twice)", min, max), len(bg.Blocks))
			}
		default:
			r.fail("R19.2", desc, p.Pos(ys.Call.Pos()), "yield is applied to something that is neither the error itself (outside loops) nor an element of a recursive flattening of a join's children")
		}
	}
	r.check(nLeaf == 1 && nJoin == 1, "R19.2", "one leaf yield and one join-element yield", p.Pos(lit.Pos()), fmt.Sprintf("%d leaf yields and %d join-element yields", nLeaf, nJoin), len(sites))
	// dispatch: exactly a join clause (interface{ Unwrap() []error }) and a default
	if tswitch == nil && okObj != nil {
		good := reachNoFalse != nil
		r.check(good, "R19.2", "join/leaf dispatch", p.Pos(okAssign.Pos()),
			fmt.Sprintf("the comma-ok assertion to interface{ Unwrap() []error } is not tested exactly once (tests: %d, assignments to its flag: %d)", nOkBlocks, nOkAssign), 2)
	} else if tswitch == nil {
		r.fail("R19.2", "join/leaf dispatch", p.Pos(lit.Pos()), "no type switch or comma-ok assertion on the error being flattened")
	} else {
		good, detail := true, ""
		nDefault, nJoinCl := 0, 0
		for _, cl := range tswitch.Body.List {
			c := cl.(*ast.CaseClause)
			if c.List == nil {
				nDefault++
				continue
			}
			for _, te := range c.List {
				it, _ := info.TypeOf(te).Underlying().(*types.Interface)
				if it == nil || it.NumMethods() != 1 || it.Method(0).Name() != "Unwrap" ||
					types.TypeString(it.Method(0).Type().(*types.Signature).Results(), nil) != "([]error)" {
					good, detail = false, "a clause other than `interface{ Unwrap() []error }` takes errors away from the leaf case: "+types.ExprString(te)
				} else {
					nJoinCl++
				}
			}
		}
		if nDefault != 1 || nJoinCl != 1 {
			good, detail = false, fmt.Sprintf("%d join clauses and %d default clauses", nJoinCl, nDefault)
		}
		r.check(good, "R19.2", "join/leaf dispatch", p.Pos(tswitch.Pos()), detail, len(tswitch.Body.List))
	}
	// multiplicity: in the body around each yield, every entry→end path has exactly one yield
	for _, ys := range sites {
		var body *ast.BlockStmt
		var what string
		if rs := enclosingRanges(ys.Call); len(rs) > 0 && rs[0] != nil {
			body, what = rs[0].Body, "loop body"
		} else if cc := enclosingClause(ys.Call); cc != nil {
			body, what = &ast.BlockStmt{List: cc.Body}, "clause"
		} else {
			for q := parents[ys.Call]; q != nil; q = parents[q] {
				if bs, ok := q.(*ast.BlockStmt); ok {
					if _, isIf := parents[bs].(*ast.IfStmt); isIf {
						body, what = bs, "branch"
						break
					}
				}
			}
		}
		if body == nil {
			continue
		}
		bg := cfg.New(body, func(*ast.CallExpr) bool { return true })
		explicit := map[ast.Node]bool{}
		ast.Inspect(body, func(m ast.Node) bool {
			if rs, ok := m.(*ast.ReturnStmt); ok {
				explicit[rs] = true
			}
			return true
		})
		min, max := yieldCounts(bg, isProduce, explicit)
		// max counts paths that continue after a yield; a path that stops after a false yield has had ≥1
		r.check(min == 1 && max == 1, "R19.2", fmt.Sprintf("exactly one yield per pass through the %s @%s", what, p.Pos(ys.Call.Pos())), p.Pos(ys.Call.Pos()),
			fmt.Sprintf("a pass through the %s can perform between %d and %d yields", what, min, max), len(bg.Blocks))
	}

	// ---- R19.3 ------------------------------------------------------------
	bad := ""
	n := 0
	for _, fn := range p.Funcs {
		n++
		if fn.Name() == "Unwrap" && fn.Signature.Recv() != nil {
			bad = "the module defines an Unwrap method: " + funcName(fn)
		}
		for _, b := range fn.Blocks {
			for _, ins := range b.Instrs {
				if c, ok := ins.(ssa.CallInstruction); ok {
					if f := c.Common().StaticCallee(); f != nil {
						switch funcName(f) {
						case "fmt.Errorf", "errors.Unwrap":
							bad = funcName(fn) + " wraps or unwraps errors (" + funcName(f) + ")"
						}
					}
				}
			}
		}
	}
	r.check(bad == "", "R19.3", "no single-error wrapping in the module", "", bad, n)
	closed := newResult("x")
	closedErrorUniverse(ctx, closed, "R19.3")
	for _, o := range closed.Obls {
		if !o.OK {
			r.Obls = append(r.Obls, o)
		}
	}
	r.ok("R19.3", "closed error universe (leaves are *cfgerrors.T, inner nodes errors.Join)", len(closed.Obls), "")
	vf := ctx.ValidationFacts()
	val := ctx.Validation()
	if len(vf.Problems) == 0 {
		bad := ""
		n := 0
		for _, f := range sortedKeys(val.Lists) {
			t := val.Lists[f]
			for _, ip := range t.Iter {
				n++
				for _, e := range ip.Errs {
					if e.Type == "" && !ip.hasAtomTag(t, "bin:==("+e.Prop+",nil)", false) {
						bad = funcName(t.Fn) + " appends a possibly-nil error: " + e.Prop
					}
				}
			}
		}
		for _, pa := range val.BuilderTab {
			n++
			if len(pa.Rets) != 2 || pa.Rets[1].Op != "call" || pa.Rets[1].Name != "errors.Join" || len(pa.Rets[1].Args) != 1 {
				continue
			}
			items, _ := errsChain(pa.Rets[1].Args[0], "nil")
			for _, it := range items {
				if knownNonNil(it) {
					continue
				}
				if pa.Val("bin:==("+it.Key()+", nil)") != -1 {
					bad = funcName(val.Builder) + " appends a possibly-nil error: " + it.Key()
				}
			}
		}
		r.check(bad == "", "R19.3", "nil is never appended to a joined list", "", bad, n)
		// "the number of yielded errors equals the number of violations": every
		// error constructed on the validation path reaches the joined list
		r.rule("R4.1", "error discipline (L0) in validators and builder: every error value constructed is appended to the list that is joined and returned, none overwritten or dropped; no early exit; every validator consulted", 6)
		for _, f := range sortedKeys(val.Lists) {
			l0(ctx, r, "R4.1", val.Lists[f])
		}
		builderRule(ctx, r, "R4.1")
		// ... the scalar validators and the pattern predicates miss no violation
		r.rule("R4.3", "integer validators: exact accepted sets (an out-of-range value yields its error)", 2)
		intRule(ctx, r, "R4.3")
		r.rule("R4.6", "pattern predicates: IsDeemedInsecure and HostIsEffectiveTLD compute the documented truth tables", 2)
		patternPredicates(ctx, r, "R4.6")
		// ... and constructed exactly where the documentation names a violation
		r.rule("R4.4", "deny tables: the forbidden / prohibited / safelisted name predicates are exactly the documented tables and prefixes (a narrower predicate loses a violation, and with it a yielded error)", 3)
		denyTables(ctx, r, "R4.4")
		if withC05 {
			r.share(checkC05(ctx), map[string]string{"R5.1": "decision-table equality: on every per-element path of every validator the errors constructed are the documented ones, no more (a spurious second error) and no fewer (a name that is skipped)"}, nil)
		}
	} else {
		r.undecided("R19.3", "L0", strings.Join(vf.Problems, "; "))
	}
	r.sample(map[string]any{"yield_sites": len(sites), "cfg_blocks": len(g.Blocks)})
	return r
}

// yieldCounts returns the minimum and maximum number of yield calls on an
// acyclic path from entry to a normal end of the body (paths leaving through
// a return after a yield are paths on which the consumer stopped; they count
// with the yields performed so far). Loops nested inside are not unrolled.
func yieldCounts(g *cfg.CFG, isYield func(*ast.CallExpr) bool, explicitReturn map[ast.Node]bool) (int, int) {
	count := func(b *cfg.Block) (n int) {
		for _, nd := range b.Nodes {
			ast.Inspect(nd, func(m ast.Node) bool {
				if _, isLit := m.(*ast.FuncLit); isLit {
					return false
				}
				if c, ok := m.(*ast.CallExpr); ok && isYield(c) {
					n++
				}
				return true
			})
		}
		return
	}
	min, max := 1<<30, -1
	var walk func(b *cfg.Block, n int, seen map[*cfg.Block]bool)
	walk = func(b *cfg.Block, n int, seen map[*cfg.Block]bool) {
		if seen[b] {
			return
		}
		seen[b] = true
		defer delete(seen, b)
		n += count(b)
		live := 0
		for _, s := range b.Succs {
			if s.Live {
				live++
				walk(s, n, seen)
			}
		}
		if live == 0 {
			// end of a path: the normal end of the body or a return; either way
			// the pass has performed n yields
			if n < min {
				min = n
			}
			if n > max {
				max = n
			}
		}
	}
	if len(g.Blocks) > 0 {
		walk(g.Blocks[0], 0, map[*cfg.Block]bool{})
	}
	return min, max
}
