package main

import (
	"fmt"
	"regexp"
	"sort"
	"strings"
)

func init() { registry["C10"] = checkC10 }

var hdrDepRe = regexp.MustCompile(`(?:hdr[0-9]|hdrs|found|present|parseOK)\(([A-Za-z-]+)\)`)

// headerDeps returns the request-header names an atom name or value tag depends on.
func headerDeps(s string) []string {
	var out []string
	for _, m := range hdrDepRe.FindAllStringSubmatch(s, -1) {
		out = appendUnique(out, m[1])
	}
	if strings.HasPrefix(s, "?") {
		// an atom or value the rules have no name for: it depends on every
		// request header whose name its text mentions
		for _, h := range []string{hOrigin, hACRM, hACRH, hACRPN} {
			if strings.Contains(s, "\""+h+"\"") {
				out = appendUnique(out, h)
			}
		}
		if strings.Contains(s, "param:r") && len(out) == 0 {
			out = append(out, "<some request field>")
		}
	}
	return out
}

// varyNames returns the header names listed in the path's Vary writes.
func varyNames(ctx *Ctx, rp *ReqPath) (map[string]bool, bool) {
	out := map[string]bool{}
	ok := true
	for _, w := range rp.WritesTo(hVary) {
		tag := w.Tag
		if strings.HasPrefix(tag, "append(old(Vary), ") {
			tag = strings.TrimSuffix(strings.TrimPrefix(tag, "append(old(Vary), "), ")")
		}
		vals, isConst := ctx.tagContent(tag)
		if !isConst {
			ok = false
			continue
		}
		for _, v := range vals {
			for _, n := range strings.Split(v, ",") {
				out[strings.TrimSpace(n)] = true
			}
		}
	}
	return out, ok
}

// infeasibleByCI: the path contradicts a configuration invariant.
func infeasibleByCI(rp *ReqPath) bool {
	return rp.Is(aEmpty) && (rp.Is(aCred) || rp.Is(aPNA) || rp.Is(aPNANoCors))
}

type outcome struct {
	writes string
	status string
	serves int
}

func outcomeOf(rp *ReqPath) outcome {
	var ws []string
	for _, w := range rp.Writes {
		ws = append(ws, w.Op+" "+w.Key+" := "+w.Tag)
	}
	return outcome{writes: strings.Join(ws, "; "), status: rp.StatusTag, serves: len(rp.Serves)}
}

func checkC10(ctx *Ctx) *Result {
	r := newResult("C10")
	r.Explanation = "2-safety decided over all ordered pairs of request paths: two paths that are not separated by a configuration/debug/method/pre-existing-Vary atom, and whose every disagreeing request-header atom concerns a header NOT named in the first path's Vary value, are the traces of two requests a Vary-honouring cache may confuse; their effect lists (header operations with value provenance, status, handler calls) must then be identical, and no written value may derive from a request header that the path's Vary does not name. Vary itself is only ever extended (add, append to the existing value, or assignment when the lookup reported absence). Paths contradicting CI-1/CI-2 (allow-all with credentials/PNA) are excluded, those invariants being discharged on the validation path."
	r.NotDecided = "primitives are deterministic functions of the header values they are given (axiom); behaviour of caches"
	r.Trusted = trustedRequestPath
	rt, ok := requestTableGuards(ctx, r)
	if !ok {
		return r
	}
	r.rule("R10.1", "pairwise non-interference: paths not distinguishable through Vary-listed headers have identical outcomes", 100)
	r.rule("R10.2", "Vary is append-only (add, append to old value, or assign when absent)", 100)
	r.rule("R10.5", "the Vary value handed to the wrapped handler is a fresh slice (Header.Add/Set of a string), never a shared one a handler could rewrite for later responses", 10)
	r.rule("R10.4", "every request-derived value written to the response comes from a header named in the path's Vary", 100)
	ci := ctx.CI1()
	r.rule("CI-1", "allow-all ⇒ ¬credentialed ∧ no PNA mode (discharged on the validation path; used to prune contradictory paths)", 1)
	r.check(ci == "", "CI-1", "validation path", "", ci, 1)

	type info struct {
		rp   *ReqPath
		vary map[string]bool
		out  outcome
	}
	var infos []info
	for _, rp := range rt.Paths {
		if ci == "" && infeasibleByCI(rp) {
			continue
		}
		desc := rp.Describe()
		vn, constOK := varyNames(ctx, rp)
		// R10.2
		good, detail := constOK, "Vary value is not a constant"
		for _, w := range rp.WritesTo(hVary) {
			switch {
			case w.Op == "add" || w.Op == "append":
			case w.Op == "assign" && rp.Not(aHasVary):
			default:
				good, detail = false, "existing Vary values may be overwritten: "+w.String()
			}
		}
		if len(rp.WritesTo(hVary)) > 0 {
			r.check(good, "R10.2", desc, "", detail, 1)
		}
		// R10.4
		good, detail = true, ""
		for _, w := range rp.Writes {
			for _, k := range headerDeps(w.Tag) {
				if !vn[k] {
					good, detail = false, fmt.Sprintf("%s carries a value derived from request header %s, which the path's Vary %v does not name", w.Key, k, sortedKeys(vn))
				}
			}
		}
		r.check(good, "R10.4", desc, "", detail, 1)
		// R10.5
		if len(rp.Serves) > 0 {
			good, detail = true, ""
			for _, w := range rp.WritesTo(hVary) {
				if !((w.Op == "add" || w.Op == "set") && strings.HasPrefix(w.Tag, "const(")) && !(w.Op == "append" && strings.HasPrefix(w.Tag, "append(old(Vary), const(")) {
					good, detail = false, "on a path that reaches the wrapped handler, Vary is installed as "+w.String()+": a handler rewriting it in place changes the Vary of later responses"
				}
			}
			r.check(good, "R10.5", desc, "", detail, 1)
		}
		infos = append(infos, info{rp, vn, outcomeOf(rp)})
	}
	// R10.1
	pairs, compared := 0, 0
	failed := map[int]bool{}
	for i := range infos {
		a := infos[i]
		bad := ""
		for j := range infos {
			if i == j {
				continue
			}
			b := infos[j]
			pairs++
			comparable := true
			for n, va := range a.rp.A {
				vb, both := b.rp.A[n]
				if !both || va == vb {
					continue
				}
				deps := headerDeps(n)
				if len(deps) == 0 {
					comparable = false // configuration, debug mode, method or pre-existing Vary differ
					break
				}
				for _, k := range deps {
					if a.vary[k] {
						comparable = false // the requests differ on a Vary-listed header
					}
				}
				if !comparable {
					break
				}
			}
			if !comparable {
				continue
			}
			compared++
			if a.out != b.out && bad == "" {
				bad = fmt.Sprintf("a request following %s (Vary %v) and a request following %s agree on every Vary-listed header but are answered differently: [%s | status %s | handler calls %d] vs [%s | status %s | handler calls %d]",
					a.rp.Describe(), sortedKeys(a.vary), b.rp.Describe(), a.out.writes, a.out.status, a.out.serves, b.out.writes, b.out.status, b.out.serves)
			}
		}
		if bad != "" {
			failed[i] = true
			r.fail("R10.1", a.rp.Describe(), "", bad)
		} else {
			r.ok("R10.1", a.rp.Describe(), 1, "")
		}
	}
	var vs []string
	seen := map[string]bool{}
	for _, in := range infos {
		k := strings.Join(sortedKeys(in.vary), ",")
		if !seen[k] {
			seen[k] = true
			vs = append(vs, k)
		}
	}
	sort.Strings(vs)
	r.sample(map[string]any{"ordered_pairs": pairs, "pairs_compared_for_equality": compared, "distinct_vary_sets": vs, "paths_after_CI_pruning": len(infos)})
	r.CallSites = compared
	// "the same middleware-contributed headers": no value the middleware puts
	// in a response that reaches a handler is memory another response shares
	r.share(checkC12(ctx), map[string]string{"R12.4": "slices shared between requests (package-level or held by the configuration) reach a response header map only on handler-free paths: a wrapped handler cannot change what a later, cache-equivalent request is answered"}, nil)
	return r
}
