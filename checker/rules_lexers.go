package main

// Rules on the scanning logic of the lexers, added after the single-token
// mutant survey (tools/mutants.py) showed survivors of the test suite inside
// them that no check reported:
//   R13.6  parseScheme / parsePort: success ⇒ at least one byte consumed
//   R13.7  fastParseHost: per-byte step table of the domain/IPv4 scan
//   R13.8  the IDNA profile is built with the documented options
//   R14.5  trimLeftOWS / trimRightOWS: a result reported as trimmed neither
//          starts (ends) with an OWS byte the scan did not look at

import (
	"fmt"
	"go/types"
	"sort"
	"strings"

	"golang.org/x/tools/go/ssa"
)

// provesAtLeast: the path (atoms + induction facts of its loop) entails t ≥ k.
func provesAtLeast(fn *ssa.Function, pa *Path, all []*Path, t *Term, k int64) bool {
	z := newZB()
	for _, a := range pa.Atoms {
		z.addAtom(a)
	}
	for _, f := range inductionFacts(z, fn, pa, all) {
		z.fact(f.l, f.why)
	}
	return z.proveCases(z.lin(t).add(linConst(k), -1))
}

func lexerRules(ctx *Ctx, r *Result) {
	p := ctx.P
	r.rule("R13.6", "parseScheme and parsePort report success only after consuming at least one byte of their argument (rest = str[k:], k ≥ 1)", 2)
	r.rule("R13.11", "parseScheme and parsePort take the longest token (maximal munch): the cut is at the length bound or in front of a byte that failed the class test; parseScheme returns exactly the consumed prefix", 2)
	r.rule("R13.7", "fastParseHost: step table of the domain/IPv4 scan — `.` after `.` fails; a digit at a label start sets the IPv4 guess, any other label byte at a label start clears it, inside a label it is kept; the scan stops at the first byte outside the host alphabet and returns what it scanned", 8)
	r.rule("R13.8", "the IDNA profile used for domain hosts is idna.New(BidiRule, ValidateLabels(true), StrictDomainName(true), VerifyDNSLength(true))", 1)

	// ---- R13.6 -----------------------------------------------------------
	for _, name := range []string{"parseScheme", "parsePort"} {
		fn := p.Func(pkgOrigins, name)
		if fn == nil || len(fn.Params) != 1 {
			r.undecided("R13.6", name, "anchor not found")
			continue
		}
		x := p.NewExec(nil)
		paths := x.Summarize(fn)
		r.Paths += len(paths)
		arg := "param:" + fn.Params[0].Name()
		bad := strings.Join(x.Problems, ";")
		bad11 := ""
		n := 0
		for _, pa := range paths {
			if pa.End != "return" || len(pa.Rets) != 3 {
				continue
			}
			ok := pa.Rets[2]
			if ok.IsConst("false") {
				continue
			}
			n++
			rest := pa.Rets[1]
			switch {
			case !ok.IsConst("true"):
				bad = "the success flag is not a constant on a path: " + ok.Key()
			case rest.Op != "slice" || rest.Args[0].Key() != arg || !rest.Args[2].IsConst("_"):
				bad = fmt.Sprintf("%s reports success and returns %s as the unconsumed input: nothing (or not a suffix of the argument) was consumed {%s}", name, rest.Key(), shortAtoms(pa))
			case rest.Args[1].IsConst("_") || !provesAtLeast(fn, pa, paths, rest.Args[1], 1):
				bad = fmt.Sprintf("%s reports success with the unconsumed input %s, whose offset is not provably ≥ 1 {%s}", name, rest.Key(), shortAtoms(pa))
			default:
				// R13.11 maximal munch: the token ends where the scan stopped — at
				// the bound, or at a byte that failed the class test — not earlier
				// (`httpx://…` must not be lexed as `http` + `x://…`)
				// (positions as linear forms: the counter may run over a sub-slice
				// of the argument, the cut being offset + counter)
				I := rest.Args[1]
				z := newZB()
				cut := z.lin(I)
				sameUpToConst := func(l lin) bool { d := cut.add(l, -1); return d.isConst() }
				stopped := false
				for _, a := range pa.Atoms {
					if a.Pos {
						continue
					}
					if a.T.Op == "bin" && a.T.Name == "<" && len(a.T.Args) == 2 && !a.T.Args[0].IsConst("0") && sameUpToConst(z.lin(a.T.Args[0])) && a.T.Args[0].Op != "const" {
						stopped = true // the loop guard counter < bound is false
					}
					a.T.Mentions(func(s *Term) bool {
						if s.Op != "index" || len(s.Args) != 2 {
							return false
						}
						off := linConst(0)
						base := s.Args[0]
						if base.Op == "slice" && len(base.Args) == 4 && base.Args[0].Key() == arg {
							if !base.Args[1].IsConst("_") {
								off = z.lin(base.Args[1])
							}
						} else if base.Key() != arg {
							return false
						}
						if d := cut.add(z.lin(s.Args[1]), -1).add(off, -1); d.isConst() && d.c == 0 {
							stopped = true // the byte at the cut failed a test
						}
						return false
					})
				}
				if !stopped {
					bad11 = fmt.Sprintf("%s cuts its token at %s without the scan having stopped there (neither the bound reached nor the next byte rejected): a longer token of the documented form is split {%s}", name, I.Key(), shortAtoms(pa))
				}
				if name == "parseScheme" {
					if tok := pa.Rets[0]; tok.Op != "slice" || tok.Args[0].Key() != arg || !tok.Args[1].IsConst("_") || tok.Args[2].Key() != I.Key() {
						bad11 = fmt.Sprintf("parseScheme returns %s as the scheme, which is not the consumed prefix str[:%s]", tok.Key(), I.Key())
					}
				}
			}
		}
		if n == 0 {
			bad = "no success path found"
		}
		r.check(bad == "", "R13.6", name+": success ⇒ consumed ≥ 1 byte", p.Pos(fn.Pos()), bad, len(paths))
		r.check(bad11 == "", "R13.11", name+": the token ends where the scan stopped", p.Pos(fn.Pos()), bad11, len(paths))
	}

	// ---- R13.8 -----------------------------------------------------------
	idnaProfile(ctx, r)

	// ---- R13.7 -----------------------------------------------------------
	hostScanTable(ctx, r)

	// ---- R13.9 -----------------------------------------------------------
	defaultPortTable(ctx, r)
}

// defaultPortTable: the predicate that prohibits default ports is true for
// exactly (http, 80) and (https, 443) — decided on its truth table.
func defaultPortTable(ctx *Ctx, r *Result) {
	p := ctx.P
	r.rule("R13.9", "isDefaultPortForScheme(scheme, port) ⇔ (scheme = http ∧ port = 80) ∨ (scheme = https ∧ port = 443)", 1)
	fn := p.Func(pkgOrigins, "isDefaultPortForScheme")
	if fn == nil || len(fn.Params) != 2 {
		r.undecided("R13.9", "isDefaultPortForScheme", "anchor not found")
		return
	}
	ph, e1 := p.ConstInt(pkgOrigins, "portHTTP")
	phs, e2 := p.ConstInt(pkgOrigins, "portHTTPS")
	sh, e3 := p.ConstString(pkgOrigins, "schemeHTTP")
	shs, e4 := p.ConstString(pkgOrigins, "schemeHTTPS")
	if e1 != nil || e2 != nil || e3 != nil || e4 != nil {
		r.undecided("R13.9", "isDefaultPortForScheme", fmt.Sprint(e1, e2, e3, e4))
		return
	}
	var sc, po string
	for _, q := range fn.Params {
		if types.TypeString(q.Type(), nil) == "string" {
			sc = "param:" + q.Name()
		} else {
			po = "param:" + q.Name()
		}
	}
	x := p.NewExec(p.InlineAllPolicy)
	paths := ExpandBoolRet(x.Summarize(fn), 0)
	r.Paths += len(paths)
	atoms := []string{
		fmt.Sprintf("bin:==(%s, %d)", po, ph), fmt.Sprintf("bin:==(%s, %q)", sc, sh),
		fmt.Sprintf("bin:==(%s, %d)", po, phs), fmt.Sprintf("bin:==(%s, %q)", sc, shs),
	}
	bad := strings.Join(x.Problems, ";")
	cells := 0
	for _, pa := range paths {
		if len(pa.Rets) != 1 || pa.Rets[0].Op != "const" {
			bad = "result is not a boolean combination of comparisons"
			continue
		}
		got := pa.Rets[0].IsConst("true")
		for v := 0; v < 16; v++ {
			val := func(i int) bool { return v>>i&1 == 1 }
			if (val(0) && val(2) && ph != phs) || (val(1) && val(3) && sh != shs) {
				continue // a port (scheme) equals one constant only
			}
			consistent := true
			for i, a := range atoms {
				if k := pa.Val(a); k != 0 && (k == 1) != val(i) {
					consistent = false
				}
			}
			if !consistent {
				continue
			}
			cells++
			want := val(0) && val(1) || val(2) && val(3)
			if got != want {
				bad = fmt.Sprintf("for port==%d:%v scheme==%q:%v port==%d:%v scheme==%q:%v the predicate yields %v, documented %v", ph, val(0), sh, val(1), phs, val(2), shs, val(3), got, want)
			}
		}
	}
	if cells < 9 {
		bad = fmt.Sprintf("only %d cells of the truth table are covered by the paths", cells)
	}
	r.check(bad == "", "R13.9", "isDefaultPortForScheme", p.Pos(fn.Pos()), bad, cells)
}

// idnaProfile: the package initialiser of origins builds the profile from
// exactly the documented option constructors, each applied to true.
func idnaProfile(ctx *Ctx, r *Result) {
	p := ctx.P
	sp := p.SPkgs[pkgOrigins]
	if sp == nil || sp.Func("init") == nil {
		r.undecided("R13.8", "origins.init", "package initialiser not found")
		return
	}
	want := map[string]string{"BidiRule": "", "ValidateLabels": "true", "StrictDomainName": "true", "VerifyDNSLength": "true"}
	got := map[string]string{}
	nNew := 0
	var at string
	for _, b := range sp.Func("init").Blocks {
		for _, ins := range b.Instrs {
			c, ok := ins.(*ssa.Call)
			if !ok || c.Common().StaticCallee() == nil {
				continue
			}
			name := funcName(c.Common().StaticCallee())
			if !strings.HasPrefix(name, "golang.org/x/net/idna.") {
				continue
			}
			short := strings.TrimPrefix(name, "golang.org/x/net/idna.")
			if short == "init" || strings.HasPrefix(short, "init#") {
				continue
			}
			if short == "New" {
				nNew++
				at = p.Pos(c.Pos())
				continue
			}
			val := ""
			if len(c.Common().Args) == 1 {
				if k, isC := c.Common().Args[0].(*ssa.Const); isC && k.Value != nil {
					val = k.Value.ExactString()
				} else {
					val = "?"
				}
			}
			got[short] = val
		}
	}
	var diffs []string
	for k, v := range want {
		if g, ok := got[k]; !ok {
			diffs = append(diffs, "option "+k+" missing")
		} else if g != v {
			diffs = append(diffs, fmt.Sprintf("%s(%s), documented %s(%s)", k, g, k, v))
		}
	}
	for k := range got {
		if _, ok := want[k]; !ok {
			diffs = append(diffs, "undocumented option "+k)
		}
	}
	sort.Strings(diffs)
	if nNew != 1 {
		diffs = append(diffs, fmt.Sprintf("%d idna.New calls in the package initialiser, expected 1", nNew))
	}
	r.check(len(diffs) == 0, "R13.8", "origins.profile", at, strings.Join(diffs, "; "), len(got)+1)
}

// hostScanTable implements R13.7 on the loop segments of fastParseHost.
func hostScanTable(ctx *Ctx, r *Result) {
	p := ctx.P
	fn := p.Func(pkgOrigins, "fastParseHost")
	if fn == nil || len(fn.Params) != 1 {
		r.undecided("R13.7", "fastParseHost", "anchor not found")
		return
	}
	x := p.NewExec(nil)
	paths := x.Summarize(fn)
	// the scan may live in a helper the function hands its argument to and whose
	// results it returns as they are (a dispatcher over bracketed / other hosts)
	if len(x.Problems) == 0 && len(loopHeaders(fn)) == 0 {
		var delegate *ssa.Function
		for _, pa := range paths {
			if len(pa.Rets) != 3 || pa.Rets[0].Op != "ext" || pa.Rets[0].Args[0].Op != "call" {
				continue
			}
			c := pa.Rets[0].Args[0]
			same := len(c.Args) == 1 && c.Args[0].Key() == "param:"+fn.Params[0].Name()
			for i, rt := range pa.Rets {
				if rt.Op != "ext" || rt.Idx != i || rt.Args[0].Key() != c.Key() {
					same = false
				}
			}
			if !same {
				continue
			}
			for _, g := range p.Funcs {
				if funcName(g) == c.Name && len(g.Params) == 1 && len(loopHeaders(g)) == 1 {
					delegate = g
				}
			}
		}
		if delegate != nil {
			fn = delegate
			x = p.NewExec(nil)
			paths = x.Summarize(fn)
			r.fn(funcName(fn))
		}
	}
	r.Paths += len(paths)
	if len(x.Problems) > 0 || len(loopHeaders(fn)) != 1 {
		r.undecided("R13.7", "fastParseHost", "not a single-loop function: "+strings.Join(x.Problems, ";"))
		return
	}
	str := "param:" + fn.Params[0].Name()
	digits, e1 := p.ASCIISetTable(pkgOrigins, "digits")
	labels, e2 := p.ASCIISetTable(pkgOrigins, "asciiLabelBytes")
	sep, e3 := p.ConstInt(pkgOrigins, "labelSep")
	if e1 != nil || e2 != nil || e3 != nil || digits != "0123456789" {
		r.undecided("R13.7", "fastParseHost", fmt.Sprint("byte-class tables: ", e1, e2, e3, " digits=", digits))
		return
	}
	digitsAreLabels := true
	for _, c := range digits {
		if !strings.ContainsRune(labels, c) {
			digitsAreLabels = false
		}
	}
	// roles of the loop-carried values
	var hdr, iPhi, assumePhi, prevPhi string
	for _, pa := range paths {
		if pa.Start == "entry" || pa.End != "return" || len(pa.Rets) != 3 || !pa.Rets[2].IsConst("true") {
			continue
		}
		hdr = pa.Start
		if a := fieldOf(pa.Rets[0], "AssumeIP"); a.Op == "loopphi" {
			assumePhi = a.Key()
		}
		if rest := pa.Rets[1]; rest.Op == "slice" && rest.Args[1].Op == "loopphi" {
			iPhi = rest.Args[1].Key()
		}
	}
	for _, pa := range paths {
		if pa.Start != hdr {
			continue
		}
		for _, a := range pa.Atoms[pa.PreAt:] {
			if a.T.Op == "loopphi" && a.T.Key() != assumePhi && a.T.Key() != iPhi {
				prevPhi = a.T.Key()
			}
		}
	}
	if hdr == "" || iPhi == "" || assumePhi == "" || prevPhi == "" {
		r.undecided("R13.7", "fastParseHost", fmt.Sprintf("cannot identify the scan's position (%s), IPv4 guess (%s) and label-start flag (%s)", iPhi, assumePhi, prevPhi))
		return
	}
	B := "index(" + str + ", " + iPhi + ")"
	aSep := fmt.Sprintf("bin:==(%s, %d)", B, sep)
	aDig := "call:(*util.ASCIISet).Contains(global:origins.digits, " + B + ")"
	aLbl := "call:(*util.ASCIISet).Contains(global:origins.asciiLabelBytes, " + B + ")"
	aMore := "bin:<(" + iPhi + ", len:builtin.len(" + str + "))"
	aZero := "bin:==(" + iPhi + ", 0)"
	phiName := func(k string) string { return strings.TrimSuffix(strings.TrimPrefix(k, "loopphi:"), "@"+hdr) }
	nextOf := func(pa *Path, k string) string {
		if v := pa.Next[phiName(k)]; v != nil {
			return v.Key()
		}
		return "?"
	}
	// the label-start flag may be kept as "previous byte was `.`" (initially
	// false, with an explicit i == 0 test for the first byte) or as "at the
	// start of a label" (initially true)
	prevStartsTrue := true
	for _, pa := range paths {
		if pa.Start == "entry" && pa.End == hdr && nextOf(pa, prevPhi) != "true" {
			prevStartsTrue = false
		}
	}
	n := 0
	for _, pa := range paths {
		if pa.Start != hdr {
			continue
		}
		n++
		desc := "fastParseHost step {" + shortAtomsFrom(pa, pa.PreAt) + "}"
		more, s, d, l := pa.Val(aMore), pa.Val(aSep), pa.Val(aDig), pa.Val(aLbl)
		pv, z := pa.Val(prevPhi), pa.Val(aZero)
		// digits are label bytes (table inclusion): not a label byte ⇒ not a
		// digit; a digit ⇒ a label byte
		if digitsAreLabels {
			if l == -1 && d == 0 {
				d = -1
			}
			if d == 1 && l == 0 {
				l = 1
			}
		}
		good, detail := true, ""
		fail := func(msg string) { good, detail = false, msg }
		if pa.End == "return" {
			okRet := len(pa.Rets) == 3 && pa.Rets[2].IsConst("true")
			switch {
			case len(pa.Rets) != 3:
				fail("unexpected arity")
			case more == 1 && s == 1 && pv == 1:
				if !pa.Rets[2].IsConst("false") {
					fail("an empty label (`..`) does not make the scan fail")
				}
			case more == -1 || (s == -1 && d == -1 && l == -1):
				// end of input, or a byte outside the host alphabet: success with what was scanned
				v := fieldOf(pa.Rets[0], "Value")
				if !okRet || v.Key() != "slice("+str+", _, "+iPhi+", _)" || pa.Rets[1].Key() != "slice("+str+", "+iPhi+", _, _)" || fieldOf(pa.Rets[0], "AssumeIP").Key() != assumePhi {
					fail("at the end of the host the scan does not return (str[:i] with the current IPv4 guess, str[i:], true)")
				}
			default:
				fail("the scan returns on a byte of the host alphabet that is not a second consecutive `.`")
			}
			r.check(good, "R13.7", desc, "", detail, 1)
			continue
		}
		// back edge
		nI, nP, nA := nextOf(pa, iPhi), nextOf(pa, prevPhi), nextOf(pa, assumePhi)
		if nI != "bin:+("+iPhi+", 1)" {
			fail("the position does not advance by one: " + nI)
		}
		switch {
		case more != 1:
			fail("the scan continues past the end of the input")
		case s == 1:
			if pv != -1 {
				fail("`.` is accepted without knowing that the previous byte was not `.`")
			}
			if nP != "true" || nA != assumePhi {
				fail(fmt.Sprintf("after `.`: label-start flag := %s (expected true), IPv4 guess := %s (expected unchanged)", nP, nA))
			}
		case s == -1 && d == 1:
			atStart := pv == 1 || z == 1
			inside := pv == -1 && (z == -1 || prevStartsTrue)
			switch {
			case nP != "false":
				fail("after a digit the label-start flag is " + nP)
			case atStart && nA != "true":
				fail("a digit at the start of a label does not set the IPv4 guess: " + nA)
			case inside && nA != assumePhi:
				fail("a digit inside a label changes the IPv4 guess: " + nA)
			case !atStart && !inside:
				fail("a digit is consumed without knowing whether it starts a label")
			}
		case s == -1 && d == 0 && l == 1:
			// a label byte whose digit-ness the path has not branched on: the
			// guess may be assigned the digit test itself (`guess = isDigit(b)`),
			// which is "set for a digit, cleared otherwise"
			switch {
			case nP != "false":
				fail("after a label byte the label-start flag is " + nP)
			case pv == 1 && nA != aDig:
				fail("at the start of a label the IPv4 guess does not become `the byte is a digit`: " + nA)
			case pv == -1 && nA != assumePhi:
				fail("inside a label the IPv4 guess changes: " + nA)
			case pv == 0:
				fail("a label byte is consumed without knowing whether it starts a label")
			}
		case s == -1 && d == -1 && l == 1:
			switch {
			case nP != "false":
				fail("after a label byte the label-start flag is " + nP)
			case pv == 1 && nA != "false":
				fail("a non-digit at the start of a label does not clear the IPv4 guess: " + nA)
			case pv == -1 && nA != assumePhi:
				fail("a non-digit inside a label changes the IPv4 guess: " + nA)
			case pv == 0:
				fail("a label byte is consumed without knowing whether it starts a label")
			}
		default:
			fail("the scan continues over a byte that is neither `.`, a digit nor a label byte")
		}
		r.check(good, "R13.7", desc, "", detail, 1)
	}
	// initial state: position 0, no label separator seen, no IPv4 guess
	for _, pa := range paths {
		if pa.Start != "entry" || pa.End != hdr {
			continue
		}
		good := nextOf(pa, iPhi) == "0" && (nextOf(pa, prevPhi) == "false" || (prevStartsTrue && nextOf(pa, prevPhi) == "true")) && nextOf(pa, assumePhi) == "false"
		r.check(good, "R13.7", "fastParseHost: initial state {"+shortAtoms(pa)+"}", "", fmt.Sprintf("the scan starts with position %s, label-start flag %s, IPv4 guess %s (expected 0, false — or true when the flag means \"at a label start\" —, false)", nextOf(pa, iPhi), nextOf(pa, prevPhi), nextOf(pa, assumePhi)), 1)
	}
	if n < 8 {
		r.undecided("R13.7", "fastParseHost", fmt.Sprintf("only %d loop segments", n))
	}
}

func shortAtomsFrom(pa *Path, from int) string {
	var s []string
	for _, a := range pa.Atoms[from:] {
		k := a.String()
		k = strings.ReplaceAll(k, "call:(*util.ASCIISet).Contains(global:origins.", "in(")
		k = strings.ReplaceAll(k, "len:builtin.len", "len")
		s = append(s, k)
	}
	return strings.Join(s, " ∧ ")
}

// owsTrimmers implements R14.5.
func owsTrimmers(ctx *Ctx, r *Result) {
	p := ctx.P
	trimComposition(ctx, r)
	r.rule("R14.5", "trimLeftOWS / trimRightOWS: a successfully trimmed result is empty or its first (last) byte was tested and is not optional whitespace", 2)
	for _, side := range []string{"Left", "Right"} {
		name := "trim" + side + "OWS"
		fn := p.Func(pkgHeaders, name)
		if fn == nil || len(fn.Params) != 2 {
			r.undecided("R14.5", name, "anchor not found")
			continue
		}
		// a thin wrapper around a two-sided helper — trimOWS(s, n, fromStart) with
		// the side as a constant flag: the helper's paths for that flag value
		flagParam, flagVal := "", false
		if !hasLoop(fn) {
			if ps := p.NewExec(nil).Summarize(fn); len(ps) == 1 && len(ps[0].Rets) == 2 && ps[0].Rets[0].Op == "ext" && ps[0].Rets[0].Args[0].Op == "call" {
				c := ps[0].Rets[0].Args[0]
				for _, g := range p.Funcs {
					if funcName(g) != c.Name || len(g.Params) != len(c.Args) || len(loopHeaders(g)) != 1 {
						continue
					}
					passes := len(c.Args) >= 2 && c.Args[0].Key() == "param:"+fn.Params[0].Name() && c.Args[1].Key() == "param:"+fn.Params[1].Name()
					for k, a := range c.Args {
						if passes && k >= 2 && (a.IsConst("true") || a.IsConst("false")) && flagParam == "" {
							flagParam, flagVal = "param:"+g.Params[k].Name(), a.IsConst("true")
							fn = g
						}
					}
				}
			}
		}
		x := p.NewExec(p.InlineAllPolicy)
		paths := x.Summarize(fn)
		r.Paths += len(paths)
		r.fn(funcName(fn))
		bad := strings.Join(x.Problems, ";")
		n := 0
		for _, pa := range paths {
			if pa.End != "return" || len(pa.Rets) != 2 || pa.Rets[1].IsConst("false") {
				continue
			}
			if flagParam != "" {
				if v := pa.Val(flagParam); v != 0 && (v == 1) != flagVal {
					continue // the other side's paths
				}
			}
			n++
			if !pa.Rets[1].IsConst("true") {
				bad = "the success flag is not a constant: " + pa.Rets[1].Key()
				continue
			}
			res := pa.Rets[0]
			// empty?
			z := newZB()
			for _, a := range pa.Atoms {
				z.addAtom(a)
			}
			for _, f := range inductionFacts(z, fn, pa, paths) {
				z.fact(f.l, f.why)
			}
			if z.proveCases(linConst(0).add(z.linLen(res), -1)) {
				continue // len(result) ≤ 0
			}
			// the byte at the trimmed end of the result
			// (positions are compared as linear forms: len(s)-1-i and len(s)-i-1
			// are the same byte)
			type cand struct {
				base string
				idx  lin
			}
			var cands []cand
			one := func(base *Term, idx lin) { cands = append(cands, cand{base.Key(), idx}) }
			if side == "Left" {
				one(res, linConst(0))
				if res.Op == "slice" && !res.Args[1].IsConst("_") {
					one(res.Args[0], z.lin(res.Args[1]))
				}
			} else {
				one(res, z.linLen(res).add(linConst(1), -1))
				if res.Op == "slice" && !res.Args[2].IsConst("_") {
					one(res.Args[0], z.lin(res.Args[2]).add(linConst(1), -1))
				}
			}
			tested := false
			for _, c := range cands {
				not9, not32, notOWS := false, false, false
				for _, a := range pa.Atoms {
					if a.Pos {
						continue
					}
					var ix *Term
					which := ""
					switch {
					case a.T.Op == "bin" && a.T.Name == "==" && len(a.T.Args) == 2 && a.T.Args[0].Op == "index" && a.T.Args[1].Op == "const":
						ix, which = a.T.Args[0], a.T.Args[1].Name
					case a.T.Op == "call" && a.T.Name == "headers.isOWS" && len(a.T.Args) == 1 && a.T.Args[0].Op == "index":
						ix, which = a.T.Args[0], "ows"
					default:
						continue
					}
					if len(ix.Args) != 2 || ix.Args[0].Key() != c.base {
						continue
					}
					if d := z.lin(ix.Args[1]).add(c.idx, -1); !d.isConst() || d.c != 0 {
						continue
					}
					switch which {
					case "9":
						not9 = true
					case "32":
						not32 = true
					case "ows":
						notOWS = true
					}
				}
				if (not9 && not32) || notOWS {
					tested = true
				}
			}
			if !tested {
				bad = fmt.Sprintf("%s returns %s as trimmed although it may be non-empty and its %s byte was not found to be a non-OWS byte {%s}", name, res.Key(), map[string]string{"Left": "first", "Right": "last"}[side], shortAtomsFrom(pa, pa.PreAt))
			}
		}
		if n == 0 {
			bad = "no success path found"
		}
		r.check(bad == "", "R14.5", name, p.Pos(fn.Pos()), bad, len(paths))
	}
}

var _ = types.Typ

// trimComposition (R14.7): TrimOWS is its two one-sided trimmers applied one
// after the other, nothing else: it reports success only for the empty string
// as it is, or for the result of both trimmers having succeeded on the same
// bound; it reports failure (with the original string) exactly when one of
// them failed.
func trimComposition(ctx *Ctx, r *Result) {
	p := ctx.P
	r.rule("R14.7", "TrimOWS = trimLeftOWS ∘ trimRightOWS (either order) with the caller's bound: success only for the empty string or when both one-sided trimmers succeeded, and then with their combined result; no other path reports success", 3)
	fn := p.Func(pkgHeaders, "TrimOWS")
	lf, rf := p.Func(pkgHeaders, "trimLeftOWS"), p.Func(pkgHeaders, "trimRightOWS")
	if fn == nil || lf == nil || rf == nil || len(fn.Params) != 2 {
		r.undecided("R14.7", "TrimOWS", "anchor not found")
		return
	}
	// (the two one-sided trimmers stay opaque, whatever they are made of: R14.5 is about them)
	x := p.NewExec(func(f *ssa.Function) Policy {
		if f == lf || f == rf {
			return PolPure
		}
		return p.DefaultPolicy(f)
	})
	paths := x.Summarize(fn)
	r.Paths += len(paths)
	r.fn(funcName(fn))
	if len(x.Problems) > 0 || hasLoop(fn) {
		r.undecided("R14.7", "TrimOWS", "not loop-free and fully summarised: "+strings.Join(x.Problems, ";"))
		return
	}
	S, N := "param:"+fn.Params[0].Name(), "param:"+fn.Params[1].Name()
	call := func(f *ssa.Function, arg string) string { return "call:" + funcName(f) + "(" + arg + ", " + N + ")" }
	l1, r1 := call(lf, S), call(rf, S)
	lr, rl := call(lf, r1+"#0"), call(rf, l1+"#0") // left after right, right after left
	nOK := 0
	for _, pa := range paths {
		desc := "TrimOWS {" + pa.AtomString() + "}"
		if pa.End != "return" || len(pa.Rets) != 2 || pa.Rets[1].Op != "const" {
			r.fail("R14.7", desc, p.Pos(fn.Pos()), "the path does not return (string, constant flag)")
			continue
		}
		res := pa.Rets[0].Key()
		good, detail := true, ""
		if pa.Rets[1].IsConst("true") {
			nOK++
			switch {
			case res == S && (pa.Val("bin:==("+S+", \"\")") == 1 || pa.Val("bin:==(len:builtin.len("+S+"), 0)") == 1):
			case res == lr+"#0" && pa.Val(r1+"#1") == 1 && pa.Val(lr+"#1") == 1:
			case res == rl+"#0" && pa.Val(l1+"#1") == 1 && pa.Val(rl+"#1") == 1:
			default:
				good, detail = false, "success is reported with "+res+", which is neither the empty input nor the result of both one-sided trimmers having succeeded"
			}
		} else {
			failed := pa.Val(r1+"#1") == -1 || pa.Val(l1+"#1") == -1 || pa.Val(lr+"#1") == -1 || pa.Val(rl+"#1") == -1
			if !failed {
				good, detail = false, "failure is reported although no one-sided trimmer failed"
			} else if res != S {
				good, detail = false, "on failure the original string is not returned: "+res
			}
		}
		r.check(good, "R14.7", desc, p.Pos(fn.Pos()), detail, 1)
	}
	if nOK < 1 {
		r.undecided("R14.7", "TrimOWS", fmt.Sprintf("%d success paths found, expected at least the trimmed path", nOK))
	}
}
