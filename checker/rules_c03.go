package main

import (
	"fmt"
	"strings"
)

func init() { registry["C03"] = checkC03 }

var trustedRequestPath = []string{
	"Go type checker and go/ssa construction (x/tools v0.29.0)",
	"the path-summary engine of the checker (path enumeration over the loop-free request closure, provenance tags)",
	"axioms on primitives: origins.Parse / Tree.Contains / Tree.IsEmpty / headers.Check / methods.IsSafelisted / Set.Contains are deterministic functions of their arguments and mean what their names say (C01, C14)",
	"net/http semantics: Header.Set replaces, Header.Add appends, map assignment replaces, maps.Copy assigns every key of the source",
	"configuration invariants CI-* are discharged on the validation path by the C04/C15 rules (listed as obligations where used)",
	"user-supplied http.ResponseWriter / http.Handler behaviour is outside the claim",
}

func acHeader(k string) bool { return strings.HasPrefix(k, "Access-Control-") }

// requestTableGuards records the obligations every request-path rule relies
// on: the table was built, is loop-free, has no unknown effect, and contains
// only atoms and value tags the rules understand.
func requestTableGuards(ctx *Ctx, r *Result) (*RequestTable, bool) {
	rt := ctx.RequestTable()
	r.rule("R0.1", "request path is loop-free and fully summarised (no unknown instruction, callee, header name or value tag; a branch condition the rules have no name for is kept as a free atom: both its outcomes are paths, and every rule holds on each)", 1)
	if rt.Closure == nil || len(rt.Problems) > 0 {
		r.undecided("R0.1", "request-closure", strings.Join(rt.Problems, "; "))
		return rt, false
	}
	r.Paths += len(rt.Paths)
	r.fn(rt.Funcs...)
	ok := true
	for _, rp := range rt.Paths {
		for _, u := range rp.Unknown {
			r.fail("R0.1", "effect "+u, "", "effect without a transfer function on "+rp.Describe())
			ok = false
		}
		// branch conditions the rules have no name for are kept as opaque,
		// unconstrained atoms: per-path rules quantify over both outcomes, pair
		// rules treat them by the request headers their text mentions

		for _, w := range rp.Writes {
			if strings.HasPrefix(w.Key, "?") {
				r.fail("R0.1", "header-key "+w.Key, w.At, "response header written under a non-constant name")
				ok = false
			}
			if strings.HasPrefix(w.Tag, "?") {
				r.fail("R0.1", "value "+w.Key+":="+w.Tag, w.At, "response header value of unrecognised provenance on "+rp.Describe())
				ok = false
			}
		}
		if rp.NStatus > 0 && strings.HasPrefix(rp.StatusTag, "?") {
			r.fail("R0.1", "status "+rp.StatusTag, "", "status of unrecognised provenance on "+rp.Describe())
			ok = false
		}
	}
	if ok {
		r.ok("R0.1", "request-closure", len(rt.Paths), fmt.Sprintf("%d paths over %d functions", len(rt.Paths), len(rt.Funcs)))
	}
	// the table describes what runs for a request only if Wrap hands out this
	// very closure and consults the state per request, not at wrap time
	if _, done := r.RuleDocs["R11.6"]; !done {
		wrapReturnsClosure(ctx, r, "R11.6")
	}
	if len(rt.Paths) < 100 {
		r.undecided("R0.1", "path-count", fmt.Sprintf("only %d request paths found, expected several hundred", len(rt.Paths)))
		ok = false
	}
	// paths no accepted configuration can take: once CI-1 (allow-all ⇒ not
	// credentialed) is established, "the tree is empty" and "credentialed"
	// exclude each other, whether or not the code spells the second test out
	if ok && ctx.CI1() == "" {
		pruned := *rt
		pruned.Paths = nil
		for _, rp := range rt.Paths {
			if rp.Is(aEmpty) && rp.Is(aCred) {
				continue
			}
			pruned.Paths = append(pruned.Paths, rp)
		}
		return &pruned, ok
	}
	return rt, ok
}

// originAllowedAtoms: the path carries the atoms that make the request's
// origin an allowed one: allow-all configuration, or parsed and contained.
func originAllowedAtoms(rp *ReqPath) bool {
	return rp.Is(aEmpty) || (rp.Is(aParseOK) && rp.Is(aContains))
}

func checkC03(ctx *Ctx) *Result {
	r := newResult("C03")
	r.Explanation = "Decided for every request and every configuration: each execution of the middleware follows exactly one of the enumerated paths of the loop-free request closure (callees inlined); on each path the rule inspects which response headers are written, in which order, with which operation, with a value of which provenance, and under which branch conditions. Decided: at most one ACAO value, ACAO is the request's own first Origin value (only after Parse and Contains succeeded) or the constant * (only under the allow-all atom, never next to credentials), ACAC is the constant true only next to an echoed origin under the credentialed atom, no Access-Control-* header without the allowed-origin atoms, preflight-only headers only on handler-free paths, ACEH only on handler paths, ACMA/ACEH carry the configured fields; (R3.7) the key under which the request's host is looked up stands for one host text only: the request-side host lexer returns exactly the bytes it consumed, or shows that a key it obtained by dropping the brackets contains `:` (known finding: it does not)."
	r.NotDecided = "the meaning of origins.Parse / Tree.Contains (C01) and net/http's map semantics are axioms; what a user-supplied ResponseWriter does is outside the claim"
	r.Trusted = trustedRequestPath
	rt, ok := requestTableGuards(ctx, r)
	if !ok {
		return r
	}
	r.rule("R3.1", "ACAO written at most once per path, by set/assign only, value is * or the request's first Origin value; headers.First returns v[0] and v[:1] of one lookup", 50)
	r.rule("R3.2", "ACAO=* only under the allow-all atom with credentials excluded (atom or CI-1); ACAO=echo only under Parse.ok ∧ Contains", 50)
	r.rule("R3.3", "ACAC is the constant true, only next to an echoed origin, only under the credentialed atom, never next to *", 20)
	r.rule("R3.4", "no Access-Control-* header on a path without the allowed-origin atoms", 50)
	r.rule("R3.7", "the host key determines the host text: every accepting path of the request-side host lexer returns exactly the bytes it consumed, or — where it drops bytes (the brackets of an IP literal) — has established that the key contains a byte no bare host can contain (`:`), so that `[x]` and `x` are never looked up under the same key", 2)
	r.rule("R3.5", "ACAM/ACAH/ACAPN/ACMA only on handler-free paths, ACEH only on handler paths; ACMA carries cfg.acma, ACEH cfg.aceh", 50)

	ci1 := ctx.CI1()
	for _, rp := range rt.Paths {
		desc := rp.Describe()
		acao := rp.WritesTo(hACAO)
		// R3.1
		if len(acao) > 0 {
			good := len(acao) == 1
			detail := ""
			if !good {
				detail = fmt.Sprintf("%d writes to Access-Control-Allow-Origin", len(acao))
			}
			for _, w := range acao {
				if w.Op != "set" && w.Op != "assign" {
					good = false
					detail = "Access-Control-Allow-Origin written with " + w.Op + " (may produce a second value)"
				}
				if c, isConst := ctx.tagContent(w.Tag); isConst {
					if len(c) != 1 || c[0] != "*" {
						good = false
						detail = fmt.Sprintf("constant ACAO value %q is not *", c)
					}
				} else if w.Tag != "hdr1(Origin)" {
					good = false
					detail = "ACAO value is neither * nor the first Origin value of this request: " + w.Tag
				}
			}
			r.check(good, "R3.1", desc, acao[0].At, detail, 1)
		}
		// R3.2
		for _, w := range acao {
			if _, isConst := ctx.tagContent(w.Tag); isConst {
				cond := rp.Is(aEmpty) && (rp.Not(aCred) || ci1 == "")
				detail := "ACAO=* without the allow-all atom (tree.IsEmpty)"
				if rp.Is(aEmpty) && !cond {
					detail = "ACAO=* on a path that does not exclude credentialed access, and CI-1 (allow-all ⇒ ¬credentialed) is not established: " + ci1
				}
				if rp.Is(aCred) {
					cond = false
					detail = "ACAO=* on a path carrying the credentialed atom"
				}
				r.check(cond, "R3.2", desc, w.At, detail, 1)
			} else {
				r.check(rp.Is(aParseOK) && rp.Is(aContains), "R3.2", desc, w.At, "Origin echoed without Parse.ok ∧ Contains on the path", 1)
			}
		}
		// R3.3
		for _, w := range rp.WritesTo(hACAC) {
			good := true
			detail := ""
			c, isConst := ctx.tagContent(w.Tag)
			if !isConst || len(c) != 1 || c[0] != "true" {
				good, detail = false, "ACAC value is not the constant true: "+w.Tag
			}
			if w.Op == "add" || w.Op == "append" {
				good, detail = false, "ACAC appended"
			}
			echo := false
			for _, a := range acao {
				if a.Tag == "hdr1(Origin)" {
					echo = true
				} else {
					good, detail = false, "ACAC next to a non-echo ACAO ("+a.Tag+")"
				}
			}
			if !echo {
				good, detail = false, "ACAC without an echoed ACAO on the path"
			}
			if !rp.Is(aCred) {
				good, detail = false, "ACAC on a path without the credentialed atom"
			}
			r.check(good, "R3.3", desc, w.At, detail, 1)
		}
		// R3.4
		var ac []string
		for _, w := range rp.Writes {
			if acHeader(w.Key) {
				ac = append(ac, w.Key)
			}
		}
		if len(ac) > 0 {
			r.check(originAllowedAtoms(rp), "R3.4", desc, rp.Writes[0].At, fmt.Sprintf("headers %v written although the path lacks the allowed-origin atoms", ac), 1)
		} else if !originAllowedAtoms(rp) {
			r.ok("R3.4", desc, 1, "no CORS header")
		}
		// R3.5
		for _, w := range rp.Writes {
			switch w.Key {
			case hACAM, hACAH, hACAPN, hACMA:
				good := len(rp.Serves) == 0 && rp.NStatus == 1
				detail := w.Key + " on a path that reaches the wrapped handler"
				if w.Key == hACMA && w.Tag != "cfg.acma" {
					good, detail = false, "ACMA does not carry the configured value: "+w.Tag
				}
				if w.Op == "add" || w.Op == "append" {
					good, detail = false, w.Key+" appended"
				}
				r.check(good, "R3.5", desc+" "+w.Key, w.At, detail, 1)
			case hACEH:
				good := len(rp.Serves) == 1 && rp.NStatus == 0
				detail := "ACEH on a preflight (handler-free) path"
				if w.Tag != "cfg.aceh" {
					good, detail = false, "ACEH does not carry the configured value: "+w.Tag
				}
				if w.Op == "add" || w.Op == "append" {
					good, detail = false, "ACEH appended"
				}
				r.check(good, "R3.5", desc+" "+w.Key, w.At, detail, 1)
			}
		}
		if len(rp.Writes) > 0 && rp.ID%97 == 0 {
			var ws []string
			for _, w := range rp.Writes {
				ws = append(ws, w.String())
			}
			r.sample(map[string]any{"path": desc, "writes": ws, "status": rp.StatusTag, "handler_calls": len(rp.Serves)})
		}
	}
	checkFirst(ctx, r)
	// "preflight responses" are the handler-free paths: which requests take them
	r.share(checkC11(ctx), map[string]string{"R11.2": "handler-free paths ⇔ OPTIONS ∧ found(Origin) ∧ found(ACRM) on a configured middleware, the method compared byte for byte (what this property calls a preflight response is what the middleware answers itself)"}, nil)
	// "the byte-exact first Origin value of an allowed origin": the key looked
	// up in the tree must stand for one host text only
	hostKeyInjective(ctx, r, "R3.7")
	// "allowed origin" rests on the origin tree: its structural necessary conditions
	treeRules(ctx, r)
	// "Max-Age carries exactly the configured value": what cfg.acma holds is
	// decided by the integer validator (-1 ↦ 0, 0 ↦ absent, n ↦ n)
	r.rule("R4.3", "integer validators: exact accepted sets, outputs (the pre-rendered Max-Age value, the success status) and error fields", 2)
	intRule(ctx, r, "R4.3")
	return r
}

// checkFirst verifies the structure of headers.First: on the found path it
// returns v[0], v[:1] and true for v the one lookup hdrs[k]; otherwise false.
func checkFirst(ctx *Ctx, r *Result) {
	fn := ctx.P.Func(pkgHeaders, "First")
	if fn == nil {
		r.undecided("R3.1", "headers.First", "anchor not found")
		return
	}
	x := ctx.P.NewExec(ctx.P.InlineAllPolicy)
	paths := x.Summarize(fn)
	r.fn("headers.First")
	r.Paths += len(paths)
	if len(x.Problems) > 0 || hasLoop(fn) {
		r.undecided("R3.1", "headers.First", "cannot summarise: "+strings.Join(x.Problems, "; "))
		return
	}
	// the value looked up: v of `v, ok := hdrs[k]` or of `v := hdrs[k]`
	// (len(v) != 0 already implies that the key is present)
	lk := "lookup(param:hdrs, param:k)#0"
	commaOk := true
	for _, p := range paths {
		for _, a := range p.Atoms {
			if a.T.MentionsKey("lookup(param:hdrs, param:k)") && !a.T.MentionsKey(lk) && !a.T.MentionsKey("lookup(param:hdrs, param:k)#1") {
				lk, commaOk = "lookup(param:hdrs, param:k)", false
			}
		}
	}
	present := func(p *Path) bool {
		return !commaOk || p.Has("lookup(param:hdrs, param:k)#1", true)
	}
	good := len(paths) > 0
	detail := ""
	foundPaths := 0
	for _, p := range paths {
		if len(p.Rets) != 3 {
			good, detail = false, "unexpected result arity"
			continue
		}
		if len(p.Effects) > 0 {
			good, detail = false, "First has side effects: "+p.Effects[0].String()
		}
		nonEmpty := p.Val("bin:==(len:builtin.len(" + lk + "), 0)")
		switch p.Rets[2].Key() {
		case "true":
			foundPaths++
			if p.Rets[0].Key() != "*iaddr("+lk+", 0)" {
				good, detail = false, "first result is not v[0]: "+p.Rets[0].Key()
			}
			if p.Rets[1].Key() != "slice("+lk+", _, 1, _)" {
				good, detail = false, "second result is not v[:1]: "+p.Rets[1].Key()
			}
			if nonEmpty != -1 {
				good, detail = false, "found=true without `len(v) != 0` for the value looked up: "+p.AtomString()
			}
		case "false":
			if p.Rets[1].Key() != "nil" {
				good, detail = false, "not-found path returns a non-nil slice"
			}
			// (callers may test the value instead of the flag: an absent
			// header reads as the empty string)
			if p.Rets[0].Key() != `""` {
				good, detail = false, "not-found path returns a value other than the empty string: "+p.Rets[0].Key()
			}
			if present(p) && nonEmpty == -1 {
				good, detail = false, "found=false although the key is present with a value"
			}
		default:
			good, detail = false, "third result is not a boolean constant: "+p.Rets[2].Key()
		}
	}
	if foundPaths != 1 {
		good, detail = false, fmt.Sprintf("%d paths return found=true, expected 1", foundPaths)
	}
	r.check(good, "R3.1", "headers.First", ctx.P.Pos(fn.Pos()), detail, len(paths))
}

// hostKeyInjective implements R3.7 on the path summaries of fastParseHost.
func hostKeyInjective(ctx *Ctx, r *Result, rule string) {
	p := ctx.P
	fh := p.Func(pkgOrigins, "fastParseHost")
	if fh == nil {
		r.undecided(rule, "fastParseHost", "anchor not found")
		return
	}
	ps := p.NewExec(nil).Summarize(fh)
	nAcc := 0
	verbatimBad, bracketBad := "", ""
	nBracket := 0
	for _, pa := range ps {
		if pa.End != "return" || len(pa.Rets) != 3 || !pa.Rets[2].IsConst("true") {
			continue
		}
		nAcc++
		v := fieldOf(pa.Rets[0], "Value")
		rest := pa.Rets[1]
		// verbatim: value = str[:n] (from the start), remainder = str[n:]
		if v.Op == "slice" && len(v.Args) >= 3 && v.Args[0].Key() == "param:str" && (v.Args[1].Key() == "_" || v.Args[1].IsConst("0")) &&
			rest.Op == "slice" && len(rest.Args) >= 3 && rest.Args[0].Key() == "param:str" && rest.Args[1].Key() == v.Args[2].Key() && rest.Args[2].Key() == "_" {
			continue
		}
		if v.Key() == "param:str" && rest.IsConst(`""`) {
			continue
		}
		// bytes are dropped: the key must carry a byte bare hosts cannot contain
		nBracket++
		k := v.Key()
		colon := pa.Val("bin:==(call:strings.IndexByte("+k+", 58), -1)") == -1 ||
			pa.Val("bin:<(call:strings.IndexByte("+k+", 58), 0)") == -1 ||
			pa.Val("bin:<(-1, call:strings.IndexByte("+k+", 58))") == 1 ||
			pa.Val(`call:strings.Contains(`+k+`, ":")`) == 1 ||
			pa.Val(`call:strings.ContainsRune(`+k+`, 58)`) == 1 ||
			pa.Val(`call:strings.ContainsAny(`+k+`, ":")`) == 1
		if !colon {
			if !isSubstringOf(v, "param:str") {
				verbatimBad = "the host value is not a substring of the input: " + k
			} else {
				bracketBad = "the lexer returns " + k + " with remainder " + rest.Key() + ": bytes of the input are dropped from the key (the brackets), and nothing on the path shows that the key contains `:` — `[example.com]` and `[127.0.0.1]` are looked up under the keys of `example.com` and `127.0.0.1`, so an Origin with a bracketed non-IPv6 host is treated as the allowed origin whose host it encloses"
			}
		}
	}
	if nAcc == 0 {
		r.undecided(rule, "fastParseHost", "no accepting path")
		return
	}
	r.check(verbatimBad == "", rule, "fastParseHost: bare host returned verbatim", p.Pos(fh.Pos()), verbatimBad, nAcc)
	r.check(bracketBad == "", rule, "fastParseHost: bracketed host never shares its key with a bare host", p.Pos(fh.Pos()), bracketBad, nBracket+1)
}
