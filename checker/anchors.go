package main

import (
	"strings"

	"golang.org/x/tools/go/ssa"
)

const (
	pkgRoot    = modPath
	pkgErrs    = modPath + "/cfgerrors"
	pkgHeaders = modPath + "/internal/headers"
	pkgMethods = modPath + "/internal/methods"
	pkgOrigins = modPath + "/internal/origins"
	pkgUtil    = modPath + "/internal/util"
)

// Primitives: module functions whose meaning is an axiom of the path tables.
// They are never inlined; "pure" ones produce value terms only, the others
// are recorded as effects (container mutation).
var purePrims = map[string]bool{
	"headers.First":                              true,
	"headers.Check":                              true,
	"headers.IsValid":                            true,
	"headers.IsForbiddenRequestHeaderName":       true,
	"headers.IsProhibitedRequestHeaderName":      true,
	"headers.IsForbiddenResponseHeaderName":      true,
	"headers.IsProhibitedResponseHeaderName":     true,
	"headers.IsSafelistedResponseHeaderName":     true,
	"headers.TrimOWS":                            true,
	"origins.Parse":                              true,
	"origins.parseScheme":                        true,
	"origins.fastParseHost":                      true,
	"origins.parsePort":                          true,
	"origins.ParsePattern":                       true,
	"(*" + "origins.Tree).Contains":              true,
	"(*" + "origins.Tree).IsEmpty":               true,
	"(*" + "origins.Tree).Elems":                 true,
	"(*" + "origins.Pattern).IsDeemedInsecure":   true,
	"(*" + "origins.Pattern).HostIsEffectiveTLD": true,
	"methods.IsValid":                            true,
	"methods.IsForbidden":                        true,
	"methods.IsSafelisted":                       true,
	"methods.Normalize":                          true,
	"util.ByteLowercase":                         true,
	"(*util.ASCIISet).Contains":                  true,
	"util.ByteUppercase":                         true,
	"(" + "util.Set).Contains":                   true,
	"(" + "util.Set).Size":                       true,
	"(" + "util.Set).ToSlice":                    true,
	"(" + "util.SortedSet).Size":                 true,
	"(" + "util.SortedSet).MaxLen":               true,
	"(" + "util.SortedSet).IndexAfter":           true,
	"(" + "util.SortedSet).ToSlice":              true,
}

var effectPrims = map[string]bool{
	"(*" + "origins.Tree).Insert": true,
	"(*" + "util.SortedSet).Add":  true,
	"(*" + "util.Set).Add":        true,
}

// external functions without side effects on memory we track
var purePrefixes = []string{
	"strings.", "strconv.", "errors.Join", "errors.New", "slices.BinarySearch", "slices.Clone", "slices.Equal",
	"slices.Contains", "slices.Index", "sort.SearchStrings", "sort.SearchInts", "slices.IndexFunc", "slices.Max", "slices.Min", "slices.IsSorted", "sort.StringsAreSorted", "unicode/utf8.", "unicode.", "net/netip.", "(net/netip.Addr).",
	"golang.org/x/net/http/httpguts.", "golang.org/x/net/publicsuffix.",
	"(*golang.org/x/net/idna.Profile).ToASCII", "fmt.Sprintf", "fmt.Sprint", "math.", "math/bits.",
}

func (p *Prog) DefaultPolicy(fn *ssa.Function) Policy {
	name := funcName(fn)
	if purePrims[name] {
		return PolPure
	}
	if effectPrims[name] {
		return PolEffect
	}
	if p.InModule(fn) {
		return PolInline
	}
	for _, pre := range purePrefixes {
		if strings.HasPrefix(name, pre) {
			return PolPure
		}
	}
	return PolEffect
}

// InlineAllPolicy inlines every module function (primitives included) that
// is acyclic; used when a rule looks inside a primitive.
func (p *Prog) InlineAllPolicy(fn *ssa.Function) Policy {
	if p.InModule(fn) {
		return PolInline
	}
	name := funcName(fn)
	for _, pre := range purePrefixes {
		if strings.HasPrefix(name, pre) {
			return PolPure
		}
	}
	return PolEffect
}

func (p *Prog) NewExec(pol func(*ssa.Function) Policy) *Exec {
	if pol == nil {
		pol = p.DefaultPolicy
	}
	x := &Exec{fset: p.Fset, dir: p.Dir, Policy: pol, MaxDepth: 8, MaxPaths: 200000}
	if p.we == nil {
		p.we = newWE(p)
	}
	x.FieldsWritten = p.we.FieldsWritten
	return x
}

// RadixPolicy: for rules that look inside the origin tree's operations; the
// node-level operations become primitives.
func (p *Prog) RadixPolicy(fn *ssa.Function) Policy {
	switch funcName(fn) {
	case "(*origins.node).contains", "origins.splitAtCommonSuffix", "origins.deleteSameSign":
		return PolPure
	case "(*origins.node).add", "(*origins.node).upsertEdge", "(*origins.node).elems":
		return PolEffect
	}
	if isInsertCtor(funcName(fn)) {
		return PolPure
	}
	return p.DefaultPolicy(fn)
}

// isInsertCtor: the constructor "s with v inserted at index i" — the module's
// own generic helper or the standard library's slices.Insert (both shift in
// place when capacity allows and otherwise reallocate).
func isInsertCtor(name string) bool {
	return strings.HasPrefix(name, "origins.insert") || name == "slices.Insert" || strings.HasPrefix(name, "slices.Insert[")
}
