package main

import (
	"fmt"
	"go/types"
	"strconv"
	"strings"

	"golang.org/x/tools/go/ssa"
)

func init() { registry["C01"] = checkC01 }

// parallel slice pairs of the radix tree's node type, found by role: two
// slice fields documented (and used) as parallel: edges/children, schemes/ports.
var parallelPairs = [][2]string{{"edges", "children"}, {"schemes", "ports"}}

func checkC01(ctx *Ctx) *Result {
	r := newResult("C01")
	r.Explanation = "Necessary conditions of `allowed ⇔ some listed pattern denotes the origin`, decided structurally for all configurations and requests (that the radix tree's Insert/Contains compute set union for every insertion order is NOT decided): (R1.1) glue — on every request path the origin is treated as allowed iff the path carries the allow-all atoms or Parse.ok ∧ Contains(tree of the snapshot, parse of this request's first Origin value), in both directions; (R1.2) every successfully parsed pattern of an accepted configuration is inserted, `*` discards the tree; (R1.3) port-code encoding agreement between siblings: node.add, node.contains and node.elems shift ports and the wildcard-port sentinel by the same constant under the wildcard-subdomain flag, the sentinel exceeds every real port and the shift exceeds the sentinel (disjoint code spaces), and the verdict-deciding call sites pass raw ports; (R1.4) parallel slices edges/children and schemes/ports are only ever updated pairwise, by the same constructor at the same index, and never reordered alone; (R1.5) every path of Tree.Insert ends by adding the pattern's (scheme, port, wildcard flag) to a node, or returns because a wildcard entry already subsumes it; the flag passed is the result of the `*` test; (R1.6) the bytes stripped from the key are exactly the bytes tested; (R1.7) Tree.Contains consults exact entries only when the host is exhausted and wildcard entries only while host bytes remain, descends only along the edge labelled by the host's last byte and only when the child's whole suffix matches; (R1.14, R8.1) the tree that answers is the one built from the accepted configuration: Config() writes nothing of it and Reconfigure replaces it only when the builder reports no error."
	r.NotDecided = "the heart of the property: that Insert, Contains and splitAtCommonSuffix implement set union of the patterns' denotations for every insertion order, duplicate, subsuming pattern and shared suffix (data-structure correctness over runtime values)"
	r.Trusted = append([]string{"slices.BinarySearch, strings.IndexByte, append, copy behave as documented"}, trustedRequestPath...)
	r.rule("R1.1", "glue equivalence on the request path: allowed-treatment ⇔ allow-all ∨ (Parse.ok ∧ Contains), both directions", 100)
	r.rule("R1.13", "no undocumented refusal: a debug-off preflight that passed the origin step fails only where the private-network, method or header step fails for its documented reason", 20)
	r.rule("R1.3", "port-code encoding agreement between add / contains / elems; sentinel and shift disjoint from real ports", 6)
	r.rule("R1.4", "parallel slices are updated pairwise, same constructor, same index; never reordered or resized alone", 4)
	r.rule("R1.5", "Insert always adds (or is subsumed by a wildcard entry); wildcard flag = result of the `*` test", 6)
	r.rule("R1.6", "strip/guard agreement: exactly the tested bytes are dropped from the key", 2)
	r.rule("R1.7", "Contains: exact entries iff host exhausted, wildcard entries while bytes remain, descend only on full suffix match", 5)
	// the tree that answers is the tree that was built from the accepted
	// configuration: it is replaced only by an accepted configuration and
	// rendering it (Config()) leaves it as it was
	r.rule("R1.14", "Config() is read-only: nothing reachable from Config()/newConfig writes memory of the configuration it renders (the origin tree answers the same before and after)", 1)
	renderingReadOnly(ctx, r, "R1.14")
	r.share(checkC08(ctx), map[string]string{"R7.0": "every function touching the Middleware's state is loop-free and fully summarised; state fields identified by role (mutex, configuration pointer, debug flag)", "R8.1": "Reconfigure: no store to the Middleware's state unless the builder's error is nil (the origins of the still-current accepted configuration stay allowed after a rejected reconfiguration)"}, nil)
	// "allowed iff the configuration lists `*`": the request path answers
	// allow-all under ¬credentialed ∧ empty tree, so an accepted configuration
	// that lists `*` must be one without credentialed access or a PNA mode
	r.rule("CI-1", "allow-all ⇒ ¬credentialed ∧ no PNA mode, discharged on the validation path: no accepted configuration lists `*` and yet fails the request path's allow-all test", 1)
	ci1 := ctx.CI1()
	r.check(ci1 == "", "CI-1", "validation path", "", ci1, 1)
	// ---- R1.1 -----------------------------------------------------------
	rt, ok := requestTableGuards(ctx, r)
	if ok {
		for _, rp := range rt.Paths {
			if rp.Is(aPass) || !rp.Is(aFoundO) {
				continue
			}
			desc := rp.Describe()
			acao := rp.WritesTo(hACAO)
			tag := ""
			if len(acao) > 0 {
				tag = acao[len(acao)-1].Tag
			}
			_, isConst := ctx.tagContent(tag)
			echo := tag == "hdr1(Origin)"
			// over-grant
			good, detail := true, ""
			if echo && !(rp.Is(aParseOK) && rp.Is(aContains)) {
				good, detail = false, "the origin is echoed although the path does not carry Parse.ok ∧ Contains(tree, parsed origin)"
			}
			if isConst && !rp.Is(aEmpty) {
				good, detail = false, "allow-all answer without the empty-tree atom"
			}
			// under-grant
			if isPreflightPath(rp) {
				if rp.StatusTag == successStatusTag && len(acao) == 0 {
					good, detail = false, "a preflight succeeds without Access-Control-Allow-Origin"
				}
				if rp.StatusTag == successStatusTag && !(rp.Is(aParseOK) && (rp.Is(aContains) || allowAllPath(ctx, rp))) {
					good, detail = false, "a preflight succeeds on a path that has not established an allowed origin"
				}
			} else if !rp.Is(aPNANoCors) {
				switch {
				case allowAllPath(ctx, rp):
					if !isConst {
						good, detail = false, "allow-all configuration but the actual response lacks ACAO: *"
					}
				case rp.Is(aParseOK) && rp.Is(aContains):
					if !echo {
						good, detail = false, "Parse.ok ∧ Contains hold but the origin is not echoed (an allowed origin is refused)"
					}
				}
				if rp.A[aParseOK] == 0 && rp.A[aEmpty] != 1 {
					good, detail = false, "an actual CORS request is answered without parsing its origin"
				}
			}
			r.check(good, "R1.1", desc, "", detail, 1)
			// R1.13, the converse for preflights: once the origin step has passed,
			// a refusal is decided by a later step for its documented reason —
			// nothing else turns an allowed origin away
			if isPreflightPath(rp) && rp.A[aDebug] != 1 && rp.StatusTag != successStatusTag &&
				rp.Is(aParseOK) && (rp.Is(aContains) || allowAllPath(ctx, rp)) {
				pna := rp.Is(aPNTrue) && rp.Not(aPNA) && rp.Not(aPNANoCors)
				method := rp.Not(aSafe) && rp.Not(aAnyMethod) && rp.Not(aListed)
				hdrs := rp.Is(aACRH) && rp.Not(aAsterisk) && (rp.Is(aNoHdrs) || rp.Not(aCheck))
				r.check(pna || method || hdrs, "R1.13", desc, "", "a preflight from an allowed origin is refused although no later step gives its documented reason (private-network access asked but not enabled; method neither safelisted nor allowed; a requested header name not allowed)", 1)
			}
		}
	}

	treeRules(ctx, r)
	return r
}

// treeRules: the structural necessary conditions on the origin tree itself
// (R1.3–R1.7). They are obligations of every property whose argument takes
// "Contains means: a listed pattern denotes the origin" as an axiom.
func treeRules(ctx *Ctx, r *Result) {
	p := ctx.P
	// "listed" — what is listed reaches the tree: every pattern that parses is
	// inserted unless an error is reported, and `*` discards the tree
	r.rule("R1.2", "every parsed pattern is inserted unless an error is reported; `*` discards the tree", 20)
	vf := ctx.ValidationFacts()
	val := ctx.Validation()
	if t := val.Lists["Origins"]; t == nil || len(t.Problems) > 0 || vf.Oracles["Origins"] == nil {
		r.undecided("R1.2", "origin validator", "table unavailable: "+strings.Join(vf.Problems, "; "))
	} else {
		r.fn(funcName(t.Fn))
		bad := map[*IterPath]bool{}
		for _, m := range vf.Mismatches["Origins"] {
			if m.Kind == "missing-effect" || m.Kind == "extra-effect" || m.Kind == "flag" {
				bad[m.Path] = true
				r.fail("R1.2", funcName(t.Fn)+": {"+t.iterDesc(m.Path)+"}", "", m.Detail)
			}
		}
		for _, ip := range t.Iter {
			if !bad[ip] {
				r.ok("R1.2", funcName(t.Fn)+": {"+t.iterDesc(ip)+"}", 1, "")
			}
		}
		exitStores(ctx, r, "R1.2", t)
	}

	// every slice the tree binary-searches is kept sorted
	r.rule("R1.10", "every slice that is binary-searched (node.edges, node.schemes, node.ports[i], SortedSet.elems) is sorted whenever it is written: inserted at its own search index, sorted after its last change and before/after being stored, a sub-slice or copy of a sorted one, or a single element", 4)
	sortedDiscipline(ctx, r, "R1.10")
	// "allowed ⇔ a listed pattern denotes the origin" also rests on the
	// request-side parser: it must admit every origin a pattern can denote
	// (defect F3) and lex scheme, host and port as documented — shared with
	// C13 (only when this is not C13 itself)
	if r.Property != "C13" {
		docs := map[string]string{
			"R13.1":  "documented limits are the constants in use; the lexers' loops are bounded by them; parsePort: first byte a non-zero digit, success ⇒ port ≤ 65535",
			"R13.5":  "request-side Parse: length cap admits the longest origin an accepted pattern denotes, same lexers, trailing input rejected",
			"R13.6":  "parseScheme and parsePort report success only after consuming at least one byte",
			"R13.7":  "fastParseHost: step table of the domain/IPv4 scan",
			"R13.11": "parseScheme and parsePort take the longest token (maximal munch)",
			"R13.4":  "every accepted pattern has passed each documented guard and is assembled from what was lexed: scheme, the host in full (trailing dot and `*.` included, an IP in canonical text, classified by IsLoopback) and the port",
		}
		for id, doc := range docs {
			r.rule(id, doc, 1)
		}
		for _, o := range checkC13(ctx).Obls {
			if _, shared := docs[o.Rule]; shared {
				r.Obls = append(r.Obls, o)
			}
		}
	}
	r.rule("R1.8", "Insert's restructuring keeps the key decomposition: every edge is labelled by the last byte of the (non-empty) suffix of the node it leads to; a split replaces the child by a node holding the common suffix, under which the old child (all four slices, remaining prefix) and the new key's remaining prefix hang", 6)
	r.rule("R1.9", "splitAtCommonSuffix removes the same number of trailing bytes from both arguments and returns that many trailing bytes of the shorter one, comparing byte by byte from the end and stopping at the first difference", 4)
	insertRestructuring(ctx, r)
	commonSuffixRule(ctx, r)
	r.rule("R1.12", "an origin pattern is written only by its parser: the fields of Pattern and HostPattern are stored only on ParsePattern's call tree, so what is inserted into the tree (and examined by the prohibitions) is what was parsed", 1)
	patternOwnership(ctx, r, "R1.12")
	r.rule("R1.3", "port-code encoding agreement between add / contains / elems; sentinel and shift disjoint from real ports", 6)
	r.rule("R1.4", "parallel slices are updated pairwise, same constructor, same index; never reordered or resized alone", 4)
	r.rule("R1.5", "Insert always adds (or is subsumed by a wildcard entry); wildcard flag = result of the `*` test", 6)
	r.rule("R1.6", "strip/guard agreement: exactly the tested bytes are dropped from the key", 2)
	r.rule("R1.7", "Contains: exact entries iff host exhausted, wildcard entries while bytes remain, descend only on full suffix match", 5)
	// ---- R1.3 -----------------------------------------------------------
	wp, err1 := p.ConstInt(pkgOrigins, "wildcardPort")
	po, err2 := p.ConstInt(pkgOrigins, "portOffset")
	mx, err3 := p.ConstInt(pkgOrigins, "maxUint16")
	if err1 != nil || err2 != nil || err3 != nil {
		r.undecided("R1.3", "constants", fmt.Sprint(err1, err2, err3))
	} else {
		r.check(wp > mx, "R1.3", "wildcardPort > maxUint16", "", fmt.Sprintf("the wildcard-port sentinel %d collides with a real port (max %d)", wp, mx), 1)
		r.check(po > wp, "R1.3", "portOffset > wildcardPort", "", fmt.Sprintf("shifted codes (offset %d) are not all negative: they collide with unshifted codes up to %d", po, wp), 1)
		K, W := fmt.Sprint(po), fmt.Sprint(wp)
		// contains
		if fn := p.Func(pkgOrigins, "(*node).contains"); fn == nil {
			r.undecided("R1.3", "node.contains", "anchor not found")
		} else {
			x := p.NewExec(p.RadixPolicy)
			paths := x.Summarize(fn)
			r.Paths += len(paths)
			r.fn(funcName(fn))
			flag := "param:" + fn.Params[3].Name()
			port := "param:" + fn.Params[2].Name()
			bad := strings.Join(x.Problems, ";")
			searched := map[int]map[string]bool{1: {}, -1: {}}
			for _, pa := range paths {
				f := pa.Val(flag)
				if f == 0 {
					bad = "a path of node.contains does not test the wildcard-subdomain flag"
					continue
				}
				collect := func(t *Term) {
					t.Mentions(func(s *Term) bool {
						if s.Op == "call" && s.Name == "slices.BinarySearch" && len(s.Args) == 2 && strings.Contains(s.Args[0].Key(), ".ports") {
							searched[f][s.Args[1].Key()] = true
						}
						return false
					})
				}
				for _, a := range pa.Atoms {
					collect(a.T)
				}
				for _, ret := range pa.Rets {
					collect(ret)
				}
			}
			wantT := map[string]bool{"bin:-(" + port + ", " + K + ")": true, fmt.Sprint(wp - po): true}
			wantF := map[string]bool{port: true, W: true}
			if bad == "" && (!sameSet(searched[1], wantT) || !sameSet(searched[-1], wantF)) {
				bad = fmt.Sprintf("node.contains searches %v under the wildcard flag and %v without it; expected {port-%s, %s-%s} and {port, %s}", sortedKeys(searched[1]), sortedKeys(searched[-1]), K, W, K, W)
			}
			r.check(bad == "", "R1.3", "node.contains: searched codes", p.Pos(fn.Pos()), bad, len(paths))
		}
		// add
		if fn := p.Func(pkgOrigins, "(*node).add"); fn == nil {
			r.undecided("R1.3", "node.add", "anchor not found")
		} else {
			x := p.NewExec(p.RadixPolicy)
			paths := x.Summarize(fn)
			r.Paths += len(paths)
			r.fn(funcName(fn))
			flag := "param:" + fn.Params[3].Name()
			port := "param:" + fn.Params[2].Name()
			bad := strings.Join(x.Problems, ";")
			nStore := 0
			for _, pa := range paths {
				f := pa.Val(flag)
				want := port
				if f == 1 {
					want = "bin:-(" + port + ", " + K + ")"
				}
				for _, e := range pa.Effects {
					if e.Kind != "store" {
						continue
					}
					if r0 := e.Args[0].addrRoot(); r0 != nil && r0.Op == "alloc" {
						continue
					}
					if !strings.Contains(e.Args[0].Key(), "ports") {
						continue
					}
					nStore++
					if f == 0 {
						bad = "a port code is stored on a path that does not test the wildcard-subdomain flag"
					}
					// the stored list's new element
					found := false
					e.Args[1].Mentions(func(s *Term) bool {
						if s.Op == "lit" {
							for _, a := range s.Args {
								if a.Key() == want {
									found = true
								}
							}
						}
						return false
					})
					if !found {
						bad = fmt.Sprintf("node.add stores %s; expected the element %s under flag=%v", e.Args[1].Key(), want, f == 1)
					}
				}
			}
			if nStore < 4 {
				bad = fmt.Sprintf("only %d port-code stores found in node.add", nStore)
			}
			r.check(bad == "", "R1.3", "node.add: stored codes", p.Pos(fn.Pos()), bad, len(paths))
		}
		// elems (printer): decodes negative codes by adding the same constant
		if fn := p.Func(pkgOrigins, "(*node).elems"); fn == nil {
			r.undecided("R1.3", "node.elems", "anchor not found")
		} else {
			printerTable(ctx, r, "R1.3", fn, K, W)
		}
		// verdict-deciding call sites pass raw ports
		for _, site := range []struct{ fn, callee string }{{"(*Tree).Contains", "(*origins.node).contains"}, {"(*Tree).Insert", "(*origins.node).contains"}, {"(*Tree).Insert", "(*origins.node).add"}} {
			fn := p.Func(pkgOrigins, site.fn)
			if fn == nil {
				r.undecided("R1.3", site.fn, "anchor not found")
				continue
			}
			x := p.NewExec(p.RadixPolicy)
			paths := x.Summarize(fn)
			bad := ""
			n := 0
			check := func(t *Term) {
				t.Mentions(func(s *Term) bool {
					if s.Op == "call" && s.Name == site.callee && len(s.Args) == 4 {
						n++
						if !strings.HasSuffix(s.Args[1].Key(), ".Scheme") || !strings.HasSuffix(s.Args[2].Key(), ".Port") || s.Args[1].Root().Op != "param" || s.Args[2].Root().Op != "param" {
							bad = "called with something other than the origin's/pattern's own scheme and port: " + s.Key()
						}
					}
					return false
				})
			}
			for _, pa := range paths {
				for _, a := range pa.Atoms {
					check(a.T)
				}
				for _, ret := range pa.Rets {
					check(ret)
				}
				for _, e := range pa.Effects {
					if e.Kind == "call" && e.Name == site.callee && e.Res != nil {
						check(e.Res)
					}
				}
			}
			if n == 0 {
				bad = "no call found"
			}
			r.check(bad == "", "R1.3", site.fn+" → "+site.callee+": raw scheme and port", p.Pos(fn.Pos()), bad, n)
		}
	}

	// ---- R1.4 -----------------------------------------------------------
	parallelSlices(ctx, r, "R1.4")

	// ---- R1.5 / R1.6 ----------------------------------------------------
	if fn := p.Func(pkgOrigins, "(*Tree).Insert"); fn == nil {
		r.undecided("R1.5", "Tree.Insert", "anchor not found")
	} else {
		x := p.NewExec(p.RadixPolicy)
		paths := x.Summarize(fn)
		r.Paths += len(paths)
		r.fn(funcName(fn))
		if len(x.Problems) > 0 {
			r.undecided("R1.5", "Tree.Insert", strings.Join(x.Problems, ";"))
		}
		star := "bin:==(index(param:p.HostPattern.Value, 0), 42)"
		// R1.6: entry segments
		bad := ""
		n := 0
		for _, pa := range paths {
			if pa.Start != "entry" || pa.Next == nil {
				continue
			}
			n++
			var s *Term
			for name, v := range pa.Next {
				if v.Type != nil && types.TypeString(v.Type, nil) == "string" || strings.Contains(v.Key(), "HostPattern.Value") {
					_ = name
					s = v
				}
			}
			if s == nil {
				bad = "cannot see the key that enters the loop"
				continue
			}
			switch pa.Val(star) {
			case 1:
				if s.Key() != "slice(param:p.HostPattern.Value, 1, _, _)" {
					bad = "after testing one byte (`*`) the key is " + s.Key() + ": the bytes stripped are not exactly the byte tested"
				}
			case -1:
				if s.Key() != "param:p.HostPattern.Value" {
					bad = "without a leading `*` the key is altered: " + s.Key()
				}
			default:
				bad = "the leading `*` of the host pattern is not tested"
			}
		}
		r.check(bad == "" && n >= 2, "R1.6", "Tree.Insert: key = host pattern minus exactly the tested `*`", p.Pos(fn.Pos()), bad, n)
		// R1.5: return segments
		for _, pa := range paths {
			if pa.End != "return" {
				continue
			}
			flag := pa.Val(star)
			want := "false"
			if flag == 1 {
				want = "true"
			}
			adds := 0
			good, detail := true, ""
			for _, e := range pa.Effects[pa.PreEff:] {
				if e.Kind == "call" && e.Name == "(*origins.node).add" {
					adds++
					if len(e.Args) != 4 || e.Args[1].Key() != "param:p.Scheme" || e.Args[2].Key() != "param:p.Port" || e.Args[3].Key() != want {
						good, detail = false, fmt.Sprintf("add is not given the pattern's own scheme, port and wildcard flag (%s): %s", want, e.String())
					}
				}
			}
			subsumed := false
			for _, a := range pa.Atoms[pa.PreAt:] {
				if a.Pos && a.T.Op == "call" && a.T.Name == "(*origins.node).contains" && len(a.T.Args) == 4 && a.T.Args[3].IsConst("true") {
					subsumed = true
				}
			}
			if adds == 0 && !subsumed {
				good, detail = false, "Insert returns without recording the pattern and without a subsuming wildcard entry"
			}
			if adds > 1 {
				good, detail = false, "the pattern is recorded twice on one path"
			}
			if flag == 0 {
				good, detail = false, "the path does not depend on the `*` test"
			}
			r.check(good, "R1.5", "Tree.Insert exit {"+radixShort(pa)+"}", "", detail, 1)
		}
	}
	kindPrefixRule(ctx, r, "R1.6")
	insertHelperRule(ctx, r)

	// ---- R1.7 -----------------------------------------------------------
	if fn := p.Func(pkgOrigins, "(*Tree).Contains"); fn == nil {
		r.undecided("R1.7", "Tree.Contains", "anchor not found")
	} else {
		x := p.NewExec(p.RadixPolicy)
		paths := x.Summarize(fn)
		r.Paths += len(paths)
		r.fn(funcName(fn))
		if len(x.Problems) > 0 {
			r.undecided("R1.7", "Tree.Contains", strings.Join(x.Problems, ";"))
		}
		var hostPhi, nodePhi string
		for _, pa := range paths {
			if pa.Start == "entry" && pa.Next != nil {
				for name, v := range pa.Next {
					if v.Key() == "param:o.Host.Value" {
						hostPhi = name
					}
					if strings.HasSuffix(v.Key(), ".root") {
						nodePhi = name
					}
				}
			}
		}
		if hostPhi == "" || nodePhi == "" {
			r.undecided("R1.7", "Tree.Contains", "the walk does not start from the origin's host and the tree's root")
		} else {
			H := "loopphi:" + hostPhi + "@"
			N := "loopphi:" + nodePhi + "@"
			for _, pa := range paths {
				if pa.Start == "entry" {
					continue
				}
				hdr := pa.Start
				h, nd := H+hdr, N+hdr
				empty := pa.Val("bin:==(len:builtin.len(" + h + "), 0)")
				exact := "call:(*origins.node).contains(" + nd + ", param:o.Scheme, param:o.Port, false)"
				wild := "call:(*origins.node).contains(" + nd + ", param:o.Scheme, param:o.Port, true)"
				edge := "call:slices.BinarySearch(" + nd + ".edges, index(" + h + ", bin:-(len:builtin.len(" + h + "), 1)))"
				child := "iaddr(" + nd + ".children, " + edge + "#0)"
				split := "call:origins.splitAtCommonSuffix(" + h + ", " + child + ".suf)"
				full := "bin:==(len:builtin.len(" + split + "#2), len:builtin.len(" + child + ".suf))"
				// the child's whole suffix matched: the common suffix is as long as
				// the child's, or (the same, by R1.9) nothing of the child's is left
				fullV := pa.Val(full)
				if fullV == 0 {
					fullV = pa.Val("bin:==(" + split + "#1, \"\")")
				}
				// ... or, said with the library: the child's suffix is a suffix of the
				// host (strings.CutSuffix / HasSuffix + TrimSuffix)
				hasSuf := "call:strings.HasSuffix(" + h + ", " + child + ".suf)"
				trimmed := "call:strings.TrimSuffix(" + h + ", " + child + ".suf)"
				if fullV == 0 {
					fullV = pa.Val(hasSuf)
				}
				good, detail := true, ""
				switch {
				case empty == 0:
					good, detail = false, "a step of the walk does not test whether host bytes remain"
				case empty == 1:
					if pa.End != "return" || len(pa.Rets) != 1 || pa.Rets[0].Key() != exact {
						good, detail = false, "with the host exhausted the verdict is not the node's exact entry for (scheme, port)"
					}
				case pa.End == "return" && len(pa.Rets) == 1 && pa.Rets[0].IsConst("true"):
					if pa.Val(wild) != 1 {
						good, detail = false, "`allowed` is returned while host bytes remain without a matching wildcard-subdomain entry"
					}
				case pa.End == "return" && len(pa.Rets) == 1 && pa.Rets[0].IsConst("false"):
					if pa.Val(wild) != -1 {
						good, detail = false, "`not allowed` is returned without having consulted the wildcard-subdomain entries of the node"
					}
					if !(pa.Val(edge+"#1") == -1 || (pa.Val(edge+"#1") == 1 && fullV == -1)) {
						good, detail = false, "`not allowed` is returned although the edge exists and the child's suffix matches"
					}
				case pa.End != "return":
					// descend
					if pa.Val(wild) != -1 || pa.Val(edge+"#1") != 1 || fullV != 1 {
						good, detail = false, "the walk descends without (wildcard miss ∧ edge for the host's last byte ∧ the child's whole suffix matching)"
					}
					if pa.Next[hostPhi] == nil || (pa.Next[hostPhi].Key() != split+"#0" && pa.Next[hostPhi].Key() != trimmed) {
						good, detail = false, "after descending, the remaining host is not the host minus the matched suffix"
					}
					if pa.Next[nodePhi] == nil || pa.Next[nodePhi].Key() != child {
						good, detail = false, "after descending, the current node is not the child reached by the edge"
					}
				default:
					good, detail = false, "unexpected result "+fmt.Sprint(pa.Rets)
				}
				r.check(good, "R1.7", "Tree.Contains step {"+radixShort(pa)+"}", "", detail, 1)
			}
		}
	}
}

// kindPrefixRule: hostOnly drops exactly the two bytes `*.` and only for the
// subdomains kind, which is only assigned where that prefix was seen.
func kindPrefixRule(ctx *Ctx, r *Result, rule string) {
	p := ctx.P
	// hostOnly: kind==Subdomains ⇒ Value[2:]
	if fn := p.Func(pkgOrigins, "(*HostPattern).hostOnly"); fn != nil {
		subs, _ := p.ConstInt(pkgOrigins, "PatternKindSubdomains")
		x := p.NewExec(nil)
		paths := x.Summarize(fn)
		bad := ""
		for _, pa := range paths {
			if len(pa.Rets) != 1 {
				continue
			}
			switch pa.Val(fmt.Sprintf("bin:==(param:hp.Kind, %d)", subs)) {
			case 1:
				if pa.Rets[0].Key() != "slice(param:hp.Value, 2, _, _)" {
					bad = "a `*.` pattern's host is " + pa.Rets[0].Key() + ", expected the value minus exactly the two bytes `*.`"
				}
			case -1:
				if pa.Rets[0].Key() != "param:hp.Value" {
					bad = "a wildcard-free host is altered: " + pa.Rets[0].Key()
				}
			default:
				bad = "hostOnly does not test the pattern kind"
			}
		}
		// and the kind is only set where the `*.` prefix was seen
		if pk := p.Func(pkgOrigins, "peekKind"); pk != nil {
			x2 := p.NewExec(nil)
			for _, pa := range x2.Summarize(pk) {
				if len(pa.Rets) == 1 && pa.Rets[0].IsConst(fmt.Sprint(subs)) && !pa.Has(`call:strings.HasPrefix(param:str, "*.")`, true) {
					bad = "the subdomains kind is assigned without having seen the `*.` prefix"
				}
			}
		}
		r.check(bad == "", rule, "hostOnly: `*.` ⇒ two bytes dropped, kind set only under HasPrefix(`*.`)", p.Pos(fn.Pos()), bad, len(paths))
	}

}

func sameSet(a, b map[string]bool) bool {
	if len(a) != len(b) {
		return false
	}
	for k := range a {
		if !b[k] {
			return false
		}
	}
	return true
}

func radixShort(pa *Path) string {
	s := (&Path{Atoms: pa.Atoms[pa.PreAt:]}).AtomString()
	s = strings.ReplaceAll(s, "builtin.", "")
	if len(s) > 420 {
		s = s[:420] + "…"
	}
	return fmt.Sprintf("pre%d: %s", pa.Pre, s)
}

// printerTable checks node.elems against the inverse of the parsers: for an
// entry code c of scheme S at a node whose accumulated host is H,
//
//	c < 0 → wildcard "*", port' = c + K; else no wildcard, port' = c
//	port' = 0 → S://[*]host; port' = W → …:*; else …:Itoa(port')
//	host = "[" H "]" if H contains ':' (IPv6 literal), else H
func printerTable(ctx *Ctx, r *Result, rule string, fn *ssa.Function, K, W string) {
	p := ctx.P
	x := p.NewExec(p.RadixPolicy)
	paths := x.Summarize(fn)
	r.Paths += len(paths)
	r.fn(funcName(fn))
	if len(x.Problems) > 0 {
		r.undecided(rule, "node.elems", strings.Join(x.Problems, ";"))
		return
	}
	host := "bin:+(param:n.suf, param:suf)"
	colon := "bin:<(call:strings.IndexByte(" + host + ", 58), 0)"
	n := 0
	bad := ""
	var samples []string
	for _, pa := range paths {
		// the iterations that emit a string
		var emitted *Term
		for _, e := range pa.Effects[pa.PreEff:] {
			if e.Kind == "builtin" && e.Name == "builtin.append" && len(e.Args) == 2 && e.Args[1].Op == "lit" && len(e.Args[1].Args) == 1 {
				if e.Args[0].Key() != "*param:dst" {
					bad = "rendered entries are not appended to the destination: " + e.Args[0].Key()
				}
				emitted = e.Args[1].Args[0]
			}
		}
		if emitted == nil {
			continue
		}
		n++
		// identify the code being rendered: the atom `code < 0`
		var code string
		neg := 0
		for _, a := range pa.Atoms[pa.PreAt:] {
			if a.T.Op == "bin" && a.T.Name == "<" && a.T.Args[1].IsConst("0") && strings.Contains(a.T.Args[0].Key(), ".ports") {
				code = a.T.Args[0].Key()
				if a.Pos {
					neg = 1
				} else {
					neg = -1
				}
			}
		}
		if code == "" || neg == 0 {
			bad = "an entry is rendered without testing the sign of its port code"
			continue
		}
		port := code
		wild := `""`
		if neg == 1 {
			port = "bin:+(" + code + ", " + K + ")"
			wild = `"*"`
		}
		var scheme string
		emitted.Mentions(func(s *Term) bool {
			if s.Op == "load" && s.Args[0].Op == "iaddr" && strings.HasSuffix(s.Args[0].Args[0].Key(), ".schemes") {
				scheme = s.Key()
				// the scheme must be the one paired with the port list being rendered
				idx := s.Args[0].Args[1].Key()
				if !strings.Contains(code, ".ports, "+idx+")") {
					bad = "the scheme printed is not the one at the index of the port list being rendered"
				}
			}
			return false
		})
		h := host
		cv := pa.Val(colon)
		if cv == 0 {
			// "contains a colon" may equally be asked from the right
			cv = pa.Val("bin:<(call:strings.LastIndexByte(" + host + ", 58), 0)")
		}
		switch cv {
		case -1:
			h = `bin:+(bin:+("[", ` + host + `), "]")`
		case 0:
			bad = "the printer does not test whether the host contains a colon (IPv6 literals lose the brackets the parsers strip)"
		}
		// the rendering is compared as a flat sequence of concatenated pieces
		// (adjacent literals merged): how the concatenation is associated or
		// split over statements does not matter
		hp := []string{"param:n.suf", "param:suf"}
		if h != host {
			hp = []string{`"["`, "param:n.suf", "param:suf", `"]"`}
		}
		base := append([]string{scheme, `"://"`, wild}, hp...)
		var want []string
		switch {
		case pa.Val("bin:==("+port+", 0)") == 1:
			want = base
		case pa.Val("bin:==("+port+", 0)") == -1 && pa.Val("bin:==("+port+", "+W+")") == 1:
			want = append(base, `":"`, `"*"`)
		case pa.Val("bin:==("+port+", 0)") == -1 && pa.Val("bin:==("+port+", "+W+")") == -1:
			want = append(base, `":"`, "call:strconv.Itoa("+port+")")
		default:
			bad = "an entry is rendered without distinguishing no port / any port / explicit port on the decoded code " + port
			continue
		}
		if got, exp := strings.Join(mergeLiterals(flattenConcat(emitted)), " + "), strings.Join(mergeLiterals(want), " + "); got != exp {
			bad = fmt.Sprintf("rendering of an entry differs from the inverse of the parsers: got %s, expected %s", got, exp)
		}
		if len(samples) < 3 {
			samples = append(samples, emitted.Key())
		}
	}
	if n < 6 {
		bad = fmt.Sprintf("only %d rendering paths found in node.elems (12 expected: sign × port form × bracket)", n)
	}
	r.check(bad == "", rule, "node.elems: rendering = inverse of the parsers (wildcard, port decoding, IPv6 brackets)", p.Pos(fn.Pos()), bad, n)
	r.sample(map[string]any{"printer_paths": n, "examples": samples})
	// recursion passes the accumulated host on, over every child
	rec := 0
	for _, pa := range paths {
		for _, e := range pa.Effects[pa.PreEff:] {
			if e.Kind == "call" && e.Name == "(*origins.node).elems" {
				rec++
				if len(e.Args) != 3 || e.Args[1].Key() != "param:dst" || e.Args[2].Key() != host || !strings.Contains(e.Args[0].Key(), "param:n.children") {
					r.fail(rule, "node.elems: recursion", p.Pos(fn.Pos()), "children are not visited with the accumulated suffix and the same destination: "+e.String())
				}
			}
		}
	}
	r.check(rec > 0, rule, "node.elems: every child visited with the accumulated host", p.Pos(fn.Pos()), "no recursive visit of the children", rec)
}

// flattenConcat lists the pieces of a string concatenation, left to right.
func flattenConcat(t *Term) []string {
	if t.Op == "bin" && t.Name == "+" && len(t.Args) == 2 {
		return append(flattenConcat(t.Args[0]), flattenConcat(t.Args[1])...)
	}
	return []string{t.Key()}
}

// mergeLiterals merges adjacent string literals and drops empty ones.
func mergeLiterals(ps []string) []string {
	var out []string
	for _, p := range ps {
		if s, err := strconv.Unquote(p); err == nil && strings.HasPrefix(p, "\"") {
			if s == "" {
				continue
			}
			if n := len(out); n > 0 && strings.HasPrefix(out[n-1], "\"") {
				prev, _ := strconv.Unquote(out[n-1])
				out[n-1] = strconv.Quote(prev + s)
				continue
			}
			out = append(out, strconv.Quote(s))
			continue
		}
		out = append(out, p)
	}
	return out
}

// parallelSlices implements R1.4 on the SSA of package origins.
func parallelSlices(ctx *Ctx, r *Result, rule string) { parallelSlicesMode(ctx, r, rule, false) }

// parallelSlicesMode with lengthOnly checks only what the bounds proofs
// need: the two slices of a pair always change length together (each
// constructor adds exactly one element, or both are copied from one node).
func parallelSlicesMode(ctx *Ctx, r *Result, rule string, lengthOnly bool) {
	p := ctx.P
	partner := map[string]string{}
	for _, pr := range parallelPairs {
		partner[pr[0]], partner[pr[1]] = pr[1], pr[0]
	}
	nodeField := func(v ssa.Value) (base ssa.Value, field string, ok bool) {
		fa, isFA := v.(*ssa.FieldAddr)
		if !isFA {
			return nil, "", false
		}
		pt, isPtr := fa.X.Type().Underlying().(*types.Pointer)
		if !isPtr || !isNamed(pt.Elem(), pkgOrigins, "node") {
			return nil, "", false
		}
		f := pt.Elem().Underlying().(*types.Struct).Field(fa.Field).Name()
		if _, is := partner[f]; !is {
			return nil, "", false
		}
		return fa.X, f, true
	}
	// describe how a stored value is built
	type ctor struct {
		kind string // insert | append | copy-of:<field> | other
		idx  ssa.Value
		src  ssa.Value // for copy: the node copied from
	}
	describe := func(v ssa.Value, field string) ctor {
		switch x := v.(type) {
		case *ssa.Call:
			if f := x.Common().StaticCallee(); f != nil && isInsertCtor(funcName(f)) && len(x.Common().Args) == 3 {
				return ctor{kind: "insert", idx: x.Common().Args[1]}
			}
			if b, ok := x.Common().Value.(*ssa.Builtin); ok && b.Name() == "append" {
				return ctor{kind: "append"}
			}
		case *ssa.UnOp:
			if b, f, ok := nodeField(x.X); ok && f == field {
				return ctor{kind: "copy", src: b}
			}
		case *ssa.Const:
			if x.IsNil() {
				return ctor{kind: "nil"}
			}
		}
		return ctor{kind: "other"}
	}
	n := 0
	for _, fn := range p.Funcs {
		if fn.Pkg == nil || fn.Pkg.Pkg.Path() != pkgOrigins {
			continue
		}
		for _, b := range fn.Blocks {
			type st struct {
				ins  *ssa.Store
				base ssa.Value
				c    ctor
			}
			stores := map[string][]st{}
			for _, ins := range b.Instrs {
				s, ok := ins.(*ssa.Store)
				if !ok {
					continue
				}
				base, f, ok := nodeField(s.Addr)
				if !ok {
					continue
				}
				stores[f] = append(stores[f], st{s, base, describe(s.Val, f)})
			}
			for f, ss := range stores {
				for _, s := range ss {
					n++
					desc := fmt.Sprintf("%s: store to node.%s @%s", funcName(fn), f, p.Pos(s.ins.Pos()))
					var mate *st
					for i := range stores[partner[f]] {
						m := stores[partner[f]][i]
						if m.base == s.base {
							mate = &m
						}
					}
					switch {
					case mate == nil:
						r.fail(rule, desc, p.Pos(s.ins.Pos()), fmt.Sprintf("node.%s is replaced without its parallel slice node.%s being updated in the same block", f, partner[f]))
					case lengthOnly && (s.c.kind == "insert" || s.c.kind == "append") && (mate.c.kind == "insert" || mate.c.kind == "append"):
						r.ok(rule, desc, 1, s.c.kind+"/"+mate.c.kind+": both grow by one element")
					case s.c.kind != mate.c.kind || s.c.kind == "other":
						r.fail(rule, desc, p.Pos(s.ins.Pos()), fmt.Sprintf("node.%s and node.%s are rebuilt by different operations (%s vs %s): their elements no longer correspond", f, partner[f], s.c.kind, mate.c.kind))
					case s.c.kind == "insert" && s.c.idx != mate.c.idx && !lengthOnly:
						r.fail(rule, desc, p.Pos(s.ins.Pos()), fmt.Sprintf("node.%s and node.%s receive their new elements at different indices", f, partner[f]))
					case s.c.kind == "copy" && s.c.src != mate.c.src:
						r.fail(rule, desc, p.Pos(s.ins.Pos()), fmt.Sprintf("node.%s and node.%s are copied from different nodes", f, partner[f]))
					default:
						r.ok(rule, desc, 1, s.c.kind)
					}
				}
			}
			// a parallel slice must not be reordered or truncated alone
			for _, ins := range b.Instrs {
				c, ok := ins.(ssa.CallInstruction)
				if !ok {
					continue
				}
				f := c.Common().StaticCallee()
				if f == nil {
					continue
				}
				name := funcName(f)
				if _, mut := mutatingExternal[name]; !mut || len(c.Common().Args) == 0 || isInsertCtor(name) {
					continue
				}
				if u, ok := c.Common().Args[0].(*ssa.UnOp); ok && !lengthOnly {
					if _, fld, ok := nodeField(u.X); ok {
						n++
						r.fail(rule, fmt.Sprintf("%s: %s(node.%s) @%s", funcName(fn), name, fld, p.Pos(ins.Pos())), p.Pos(ins.Pos()),
							fmt.Sprintf("node.%s is reordered in place while its parallel slice node.%s keeps its order", fld, partner[fld]))
					}
				}
			}
		}
	}
	if n < 4 {
		r.undecided(rule, "parallel-slice stores", fmt.Sprintf("only %d stores to the node's parallel slices found", n))
	}
}

// insertRestructuring implements R1.8 on the path summaries of Tree.Insert.
func insertRestructuring(ctx *Ctx, r *Result) {
	p := ctx.P
	fn := p.Func(pkgOrigins, "(*Tree).Insert")
	if fn == nil {
		r.undecided("R1.8", "Tree.Insert", "anchor not found")
		return
	}
	x := p.NewExec(p.RadixPolicy)
	x.FieldsWritten = ctx.WE().FieldsWritten
	paths := x.Summarize(fn)
	if len(x.Problems) > 0 {
		r.undecided("R1.8", "Tree.Insert", strings.Join(x.Problems, ";"))
		return
	}
	lastByte := func(t string) string { return "index(" + t + ", bin:-(len:builtin.len(" + t + "), 1))" }
	nUpserts := 0
	for _, pa := range paths {
		if pa.Start == "entry" {
			continue
		}
		hdr := pa.Start
		var S, N string
		// loop-carried key and node by type (looked for on every segment that
		// starts at this header: a segment need not mention both)
		role := func(t *Term) bool {
			if t.Op == "loopphi" && strings.HasSuffix(t.Name, "@"+hdr) {
				if t.Type != nil && types.TypeString(t.Type, nil) == "string" {
					S = t.Key()
				} else if isNamedPtr(t.Type, pkgOrigins, "node") {
					N = t.Key()
				}
			}
			return false
		}
		for _, q := range paths {
			if q.Start != hdr {
				continue
			}
			for _, a := range q.Atoms[q.PreAt:] {
				a.T.Mentions(role)
			}
			for _, e := range q.Effects[q.PreEff:] {
				for _, a := range e.Args {
					if a != nil {
						a.Mentions(role)
					}
				}
			}
		}
		if S == "" || N == "" {
			r.undecided("R1.8", "Tree.Insert {"+radixShort(pa)+"}", "cannot identify the loop-carried key and node")
			continue
		}
		E := "call:slices.BinarySearch(" + N + ".edges, " + lastByte(S) + ")"
		CH := "iaddr(" + N + ".children, " + E + "#0)"
		SPL := "call:origins.splitAtCommonSuffix(" + S + ", " + CH + ".suf)"
		desc := "Tree.Insert {" + radixShort(pa) + "}"
		good, detail := true, ""
		var first *Term // result of the upsert that replaces the child on split paths
		// (upsertEdge may hand back the child itself or its index among n.children)
		isFirst := func(k string) bool {
			// (n.children read again after the insertion carries a later epoch)
			return first != nil && (k == first.Key() || (strings.HasPrefix(k, "iaddr("+N+".children") && strings.HasSuffix(k, ", "+first.Key()+")")))
		}
		sawG1, sawRest := false, false
		split := false
		for _, e := range pa.Effects[pa.PreEff:] {
			// Insert only ever adds: an existing node is written through
			// node.add and node.upsertEdge, never directly (a direct store
			// could drop entries or descendants)
			if (e.Kind == "store" || e.Kind == "mapset") && len(e.Args) > 0 {
				if rt := e.Args[0].addrRoot(); rt == nil || rt.Op != "alloc" {
					good, detail = false, "Insert writes "+e.Args[0].Key()+" directly, not through node.add / node.upsertEdge: entries or descendants of an existing node can be lost"
				}
			}
			if e.Kind != "call" {
				continue
			}
			switch e.Name {
			case "(*origins.node).upsertEdge":
				nUpserts++
				if len(e.Args) != 3 {
					good, detail = false, "unexpected arity"
					continue
				}
				target, label, node := e.Args[0].Key(), e.Args[1].Key(), e.Args[2]
				if len(e.Deref) > 2 && e.Deref[2] != nil {
					node = e.Deref[2] // the child is handed over by pointer to a local
				}
				suf := fieldOf(node, "suf").Key()
				get := func(f string) *Term { return fieldOf(node, f) }
				isZero := func(f string) bool { t := get(f); return t.Op == "zero" || t.IsConst("nil") }
				switch {
				case suf == S:
					// brand-new child holding the whole remaining key
					if target != N || label != lastByte(S) {
						good, detail = false, "a new child holding the remaining key is not attached to the current node under the key's last byte"
					}
					if pa.Val(E+"#1") != -1 {
						good, detail = false, "a new child is created although an edge for the key's last byte exists"
					}
					if !isZero("edges") || !isZero("children") {
						good, detail = false, "a brand-new child is created with descendants"
					}
				case suf == SPL+"#2":
					split = true
					first = e.Res
					if target != N || label != lastByte(S) {
						good, detail = false, "the node holding the common suffix does not replace the child under the same edge label"
					}
					if pa.Val(E+"#1") != 1 || pa.Val("bin:==(len:builtin.len("+SPL+"#1), 0)") != -1 {
						good, detail = false, "a child is split although its whole suffix matches (or no edge was found)"
					}
					for _, f := range []string{"edges", "children", "schemes", "ports"} {
						if !isZero(f) {
							good, detail = false, "the node holding the common suffix is not created empty ("+f+")"
						}
					}
				case suf == SPL+"#1":
					sawG1 = true
					if first == nil || !isFirst(target) || label != lastByte(SPL+"#1") {
						good, detail = false, "the old child's remainder is not re-attached under the common-suffix node by the last byte of its remaining prefix"
					}
					for _, f := range []string{"edges", "children", "schemes", "ports"} {
						if get(f).Key() != CH+"."+f {
							good, detail = false, "the old child's "+f+" are not carried over to its remainder: "+get(f).Key()
						}
					}
				case suf == SPL+"#0":
					sawRest = true
					if first == nil || !isFirst(target) || label != lastByte(SPL+"#0") {
						good, detail = false, "the new key's remaining prefix is not attached under the common-suffix node by its last byte"
					}
					if pa.Val("bin:==(len:builtin.len("+SPL+"#0), 0)") != -1 {
						good, detail = false, "a node with an empty suffix may be created for the new key"
					}
					if !isZero("edges") || !isZero("children") {
						good, detail = false, "the new key's node is created with descendants"
					}
				default:
					good, detail = false, "a node is attached whose suffix is none of: the remaining key, the common suffix, the child's remaining prefix, the key's remaining prefix: "+suf
				}
			case "(*origins.node).add":
				if split && first != nil && isFirst(e.Args[0].Key()) {
					sawRest = true
					if pa.Val("bin:==(len:builtin.len("+SPL+"#0), 0)") != 1 {
						good, detail = false, "the pattern is recorded on the common-suffix node although part of its key remains"
					}
				}
			}
		}
		if split && (!sawG1 || !sawRest) {
			good, detail = false, "a split does not both re-attach the old child's remainder and record the new pattern"
		}
		// descending: the whole child suffix matched
		if pa.End == hdr {
			if pa.Val(E+"#1") != 1 || pa.Val("bin:==(len:builtin.len("+SPL+"#1), 0)") != 1 {
				good, detail = false, "Insert descends without the child's whole suffix matching the key"
			}
			var ns, nn string
			for name, v := range pa.Next {
				if "loopphi:"+name+"@"+hdr == S {
					ns = v.Key()
				}
				if "loopphi:"+name+"@"+hdr == N {
					nn = v.Key()
				}
			}
			if ns != SPL+"#0" || nn != CH {
				good, detail = false, "after descending, (key, node) are not (key minus the matched suffix, the child): "+ns+", "+nn
			}
		}
		r.check(good, "R1.8", desc, "", detail, len(pa.Effects))
	}
	if nUpserts < 8 {
		r.undecided("R1.8", "Tree.Insert", fmt.Sprintf("only %d edge insertions found on Insert's paths", nUpserts))
	}
}

// commonSuffixRule implements R1.9.
func commonSuffixRule(ctx *Ctx, r *Result) {
	p := ctx.P
	fn := p.Func(pkgOrigins, "splitAtCommonSuffix")
	if fn == nil || len(fn.Params) != 2 {
		r.undecided("R1.9", "splitAtCommonSuffix", "anchor not found")
		return
	}
	x := p.NewExec(nil)
	paths := x.Summarize(fn)
	if len(x.Problems) > 0 || len(loopHeaders(fn)) != 1 {
		r.undecided("R1.9", "splitAtCommonSuffix", "not a single-loop function: "+strings.Join(x.Problems, ";"))
		return
	}
	A, B := "param:"+fn.Params[0].Name(), "param:"+fn.Params[1].Name()
	nRet := 0
	// The position compared in an iteration, E, is read off the back edge: the
	// atom index(x, E) == index(y, E) that lets the scan continue. E = φ + δ
	// for the loop variable φ (δ depends on whether φ counts the byte compared
	// or the start of the suffix found so far).
	// (E may mention the shorter argument's length, so it is taken per family of
	// header segments — the iterations started from one arrival state.)
	Efam := map[int]*Term{}
	var E *Term
	var phi string
	for _, pa := range paths {
		if pa.Start == "entry" || pa.End == "return" {
			continue
		}
		for _, a := range pa.Atoms[pa.PreAt:] {
			t := a.T
			if a.Pos && t.Op == "bin" && t.Name == "==" && t.Args[0].Op == "index" && t.Args[1].Op == "index" &&
				t.Args[0].Args[1].Key() == t.Args[1].Args[1].Key() {
				Efam[pa.Pre] = t.Args[0].Args[1]
				E = t.Args[0].Args[1]
			}
		}
	}
	if E != nil {
		E.Mentions(func(t *Term) bool {
			if t.Op == "loopphi" {
				phi = t.Key()
			}
			return false
		})
	}
	var sigma int64 // E = σ·φ + rest, σ = ±1
	if E != nil && phi != "" {
		sigma = newZB().lin(E).coef[phi]
	}
	for _, e := range Efam {
		if newZB().lin(e).coef[phi] != sigma {
			sigma = 0
		}
	}
	if E == nil || phi == "" || (sigma != 1 && sigma != -1) {
		r.undecided("R1.9", "splitAtCommonSuffix", "no back edge conditioned on the equality of two bytes at the same position E = ±φ + c")
		return
	}
	// E with the loop variable replaced by another linear expression
	atPhi := func(z *zbCtx, repl lin) lin {
		l := z.lin(E)
		return l.add(lin{coef: map[string]int64{phi: 1}}, -sigma).add(repl, sigma)
	}
	// what a path knows about the sign of E
	signOfE := func(pa *Path) int {
		z := newZB()
		for _, a := range pa.Atoms {
			z.addAtom(a)
		}
		e := z.lin(E)
		switch {
		case z.prove(linConst(-1).add(e, -1)): // −E − 1 ≥ 0
			return -1
		case z.prove(e):
			return 1
		}
		return 0
	}
	for _, pa := range paths {
		if pa.Start == "entry" {
			continue
		}
		desc := "splitAtCommonSuffix {" + radixShort(pa) + "}"
		good, detail := true, ""
		if Efam[pa.Pre] == nil {
			r.check(false, "R1.9", desc, "", "a family of iterations without a back edge that compares two bytes", 1)
			continue
		}
		E = Efam[pa.Pre]
		ek := E.Key()
		// which argument is the shorter one on this path
		short, long := A, B
		switch shorterArg(pa, A, B) {
		case B:
			short, long = B, A
		case "":
			good, detail = false, "the path does not compare the lengths of the two arguments"
		}
		aligned := "slice(" + long + ", bin:-(len:builtin.len(" + long + "), len:builtin.len(" + short + ")), _, _)"
		eqVal := pa.Val("bin:==(index(" + short + ", " + ek + "), index(" + aligned + ", " + ek + "))")
		if eqVal == 0 {
			eqVal = pa.Val("bin:==(index(" + aligned + ", " + ek + "), index(" + short + ", " + ek + "))")
		}
		sign := signOfE(pa) // −1: E < 0 (the shorter argument is exhausted); +1: E ≥ 0
		if pa.End == "return" {
			nRet++
			if len(pa.Rets) != 3 {
				good, detail = false, "unexpected arity"
			} else {
				z := newZB()
				r0, r1, r2 := pa.Rets[0], pa.Rets[1], pa.Rets[2]
				okShape := r0.Op == "slice" && r0.Args[0].Key() == A && r0.Args[1].IsConst("_") &&
					r1.Op == "slice" && r1.Args[0].Key() == B && r1.Args[1].IsConst("_") &&
					r2.Op == "slice" && r2.Args[0].Key() == short && r2.Args[2].IsConst("_")
				if !okShape {
					good, detail = false, "results are not (prefix of a, prefix of b, suffix of the shorter argument)"
				} else {
					rem0 := z.linLen(&Term{Op: "param", Name: fn.Params[0].Name()}).add(z.lin(r0.Args[2]), -1)
					rem1 := z.linLen(&Term{Op: "param", Name: fn.Params[1].Name()}).add(z.lin(r1.Args[2]), -1)
					sufLen := z.linLen(r2)
					d1, d2 := rem0.add(rem1, -1), rem0.add(sufLen, -1)
					if !(d1.isConst() && d1.c == 0 && d2.isConst() && d2.c == 0) {
						good, detail = false, fmt.Sprintf("the numbers of bytes removed from a (%s) and b (%s) and the length of the returned suffix (%s) differ", rem0, rem1, sufLen)
					}
					// the suffix starts right after the position at which the scan stopped
					d3 := z.lin(r2.Args[1]).add(z.lin(E), -1)
					if !(d3.isConst() && d3.c == 1) {
						good, detail = false, fmt.Sprintf("the suffix returned does not start right after the position at which the scan stopped (start − stop = %s)", d3)
					}
				}
				// stop only at the first difference or when the shorter argument is exhausted
				if sign != -1 && eqVal != -1 {
					good, detail = false, "the scan stops although the bytes compared are equal and bytes remain (the suffix returned is not the longest common one)"
				}
			}
		} else {
			// back edge: continue only on equal bytes, one position to the left
			if sign != 1 || eqVal != 1 {
				good, detail = false, "the scan continues without having compared equal bytes at the same distance from the end"
			}
			for name, v := range pa.Next {
				if "loopphi:"+name+"@"+pa.Start != phi {
					continue
				}
				z := newZB()
				step := atPhi(z, z.lin(v)).add(z.lin(E), -1) // E(next) − E
				if !(step.isConst() && step.c == -1) {
					good, detail = false, fmt.Sprintf("the position compared does not move one byte to the left (E(next) − E = %s)", step)
				}
			}
		}
		r.check(good, "R1.9", desc, "", detail, 1)
	}
	// the scan starts at the last byte of the shorter argument
	for _, pa := range paths {
		if pa.Start != "entry" {
			continue
		}
		short := A
		if shorterArg(pa, A, B) == B {
			short = B
		}
		okInit := false
		for _, q := range paths {
			if q.PrePath == pa && Efam[q.Pre] != nil {
				E = Efam[q.Pre]
			}
		}
		for name, v := range pa.Next {
			if !strings.HasPrefix(phi, "loopphi:"+name+"@") {
				continue
			}
			z := newZB()
			first := atPhi(z, z.lin(v))
			want := z.linLen(&Term{Op: "param", Name: strings.TrimPrefix(short, "param:")}).add(linConst(1), -1)
			if d := first.add(want, -1); d.isConst() && d.c == 0 {
				okInit = true
			}
		}
		r.check(okInit, "R1.9", "splitAtCommonSuffix: scan starts at the last byte of the shorter argument {"+radixShort(pa)+"}", "", "the first position compared is not len(shorter)-1", 1)
	}
	if nRet < 4 {
		r.undecided("R1.9", "splitAtCommonSuffix", fmt.Sprintf("only %d return segments", nRet))
	}
}

// sortedDiscipline implements R1.10.
func sortedDiscipline(ctx *Ctx, r *Result, rule string) {
	p := ctx.P
	searchedField := map[string]bool{"edges": true, "schemes": true, "elems": true}
	isSearched := func(addr *Term) bool {
		switch addr.Op {
		case "faddr":
			return searchedField[addr.Name]
		case "iaddr":
			b := addr.Args[0]
			return b.Op == "load" && b.Args[0].Op == "faddr" && b.Args[0].Name == "ports"
		}
		return false
	}
	writers := map[string]bool{}
	for _, fs := range p.fieldWriters(pkgOrigins, "node") {
		for _, f := range fs {
			writers[f] = true
		}
	}
	for _, fs := range p.fieldWriters(pkgUtil, "SortedSet") {
		for _, f := range fs {
			writers[f] = true
		}
	}
	// element stores into n.ports[i] are IndexAddr stores: scan for them too
	for _, fn := range p.Funcs {
		for _, b := range fn.Blocks {
			for _, ins := range b.Instrs {
				if st, ok := ins.(*ssa.Store); ok {
					if ia, ok := st.Addr.(*ssa.IndexAddr); ok {
						if u, ok := ia.X.(*ssa.UnOp); ok {
							if fa, ok := u.X.(*ssa.FieldAddr); ok {
								if pt, ok := fa.X.Type().Underlying().(*types.Pointer); ok && isNamed(pt.Elem(), pkgOrigins, "node") {
									writers[funcName(fn)] = true
								}
							}
						}
					}
				}
			}
		}
	}
	n := 0
	for _, fn := range p.Funcs {
		if !writers[funcName(fn)] {
			continue
		}
		x := p.NewExec(p.RadixPolicy)
		paths := x.Summarize(fn)
		r.fn(funcName(fn))
		bad := strings.Join(x.Problems, ";")
		stores := 0
		for _, pa := range paths {
			sorted := map[string]bool{}
			pending := map[string]*Term{}
			before := map[string]string{} // addr -> key of the location's value before the store
			for _, e := range pa.Effects[pa.PreEff:] {
				switch {
				case e.Kind == "call" && (e.Name == "slices.Sort" || e.Name == "sort.Strings" || e.Name == "sort.Ints") && len(e.Args) == 1:
					sorted[e.Args[0].Key()] = true
				case e.Kind == "store" && isSearched(e.Args[0]):
					stores++
					pending[e.Args[0].Key()] = e.Args[1]
					load := &Term{Op: "load", Args: []*Term{e.Args[0]}}
					if _, seen := before[e.Args[0].Key()]; !seen {
						before[e.Args[0].Key()] = load.Key()
					}
				}
			}
			for ak, v := range pending {
				if sorted[v.Key()] || shapeSorted(v, before[ak], searchedField) {
					continue
				}
				bad = fmt.Sprintf("%s is left holding %s, which is neither sorted afterwards nor sorted by construction: a later binary search may miss an element", ak, v.Key())
			}
		}
		n += stores
		if stores > 0 {
			r.check(bad == "", rule, funcName(fn), p.Pos(fn.Pos()), bad, stores)
		}
	}
	if n < 6 {
		r.undecided(rule, "searched slices", fmt.Sprintf("only %d stores to binary-searched slices found", n))
	}
}

func shapeSorted(v *Term, beforeKey string, searchedField map[string]bool) bool {
	switch {
	case v.Op == "const" && (v.Name == "nil" || v.Name == "zero"):
		return true
	case v.Op == "zero":
		return true
	case v.Op == "lit" && len(v.Args) <= 1:
		return true
	case v.Op == "load" && v.Args[0].Op == "faddr" && searchedField[v.Args[0].Name]:
		return true // copy of another node's (sorted) slice
	case v.Op == "call" && v.Name == "origins.deleteSameSign":
		return true // sub-slice of a sorted slice
	case v.Op == "call" && isInsertCtor(v.Name) && len(v.Args) == 3:
		s, i, x := v.Args[0], v.Args[1], v.Args[2]
		if x.Op == "lit" && len(x.Args) == 1 && !strings.HasPrefix(v.Name, "origins.") {
			x = x.Args[0] // the variadic tail of slices.Insert: exactly one element
		}
		return s.Key() == beforeKey && i.Key() == "call:slices.BinarySearch("+s.Key()+", "+x.Key()+")#0"
	}
	return false
}

// allowAllPath: the path is taken by allow-all configurations only: the
// tree is empty and credentialed access is excluded — by an atom of the path
// or, once CI-1 (allow-all ⇒ not credentialed) is established, by the
// configuration invariant.
func allowAllPath(ctx *Ctx, rp *ReqPath) bool {
	if !rp.Is(aEmpty) {
		return false
	}
	return rp.Not(aCred) || (!rp.Is(aCred) && ctx.CI1() == "")
}

// shorterArg: which of the two string arguments the path knows to be no
// longer than the other ("" when it does not compare their lengths).
func shorterArg(pa *Path, A, B string) string {
	la, lb := "len:builtin.len("+A+")", "len:builtin.len("+B+")"
	switch pa.Val("bin:<(" + lb + ", " + la + ")") {
	case 1:
		return B
	case -1:
		return A // len(A) ≤ len(B)
	}
	switch pa.Val("bin:<(" + la + ", " + lb + ")") {
	case 1:
		return A
	case -1:
		return B // len(B) ≤ len(A)
	}
	return ""
}

// insertHelperRule (R1.11): the module's own slice-insertion helper, which
// R1.4 and R1.10 take as the constructor "s with v at index i", really is
// one: s grown by one element, the tail shifted right by exactly one copy,
// v stored at i, the grown slice returned. (A tree that delegates to
// slices.Insert instead has no such helper; nothing to check then.)
func insertHelperRule(ctx *Ctx, r *Result) {
	p := ctx.P
	r.rule("R1.11", "the insertion helper is s[:i] + [v] + s[i:]: grow by one, one copy of s[i:] to s[i+1:], store v at i, return the grown slice", 0)
	fn := p.Func(pkgOrigins, "insert")
	if fn == nil {
		return
	}
	if len(fn.Params) != 3 {
		r.undecided("R1.11", "origins.insert", "unexpected signature")
		return
	}
	x := p.NewExec(nil)
	paths := x.Summarize(fn)
	r.Paths += len(paths)
	S, I, V := "param:"+fn.Params[0].Name(), "param:"+fn.Params[1].Name(), "param:"+fn.Params[2].Name()
	bad := strings.Join(x.Problems, ";")
	if len(paths) != 1 || hasLoop(fn) {
		bad = "the helper is not straight-line code"
	}
	for _, pa := range paths {
		var grown *Term
		nCopy, nStore := 0, 0
		for _, e := range pa.Effects {
			switch {
			case e.Kind == "builtin" && e.Name == "builtin.append":
				if grown != nil || len(e.Args) != 2 || e.Args[0].Key() != S || e.Args[1].Op != "lit" || len(e.Args[1].Args) != 1 {
					bad = "the slice is not grown by exactly one element, once: " + e.String()
				}
				grown = e.Res
				if grown == nil {
					grown = &Term{Op: "append", Args: e.Args}
				}
			case e.Kind == "builtin" && e.Name == "builtin.copy":
				nCopy++
				if grown == nil || len(e.Args) != 2 ||
					e.Args[0].Key() != "slice("+grown.Key()+", bin:+("+I+", 1), _, _)" || !insertTailSource(e.Args[1].Key(), grown.Key(), I) {
					bad = "the tail is not shifted by copy(s[i+1:], s[i:]) on the grown slice: " + e.String()
				}
			case e.Kind == "store":
				if r0 := e.Args[0].addrRoot(); r0 != nil && r0.Op == "alloc" {
					continue // the variadic argument of append
				}
				nStore++
				if grown == nil || e.Args[0].Key() != "iaddr("+grown.Key()+", "+I+")" || e.Args[1].Key() != V {
					bad = "the new element is not stored at index i of the grown slice: " + e.String()
				}
			case e.Kind == "enter":
			default:
				bad = "unexpected effect in the insertion helper: " + e.String()
			}
		}
		if bad == "" && (grown == nil || nCopy != 1 || nStore != 1) {
			bad = fmt.Sprintf("the helper performs %d copies and %d element stores (expected 1 and 1)", nCopy, nStore)
		}
		if bad == "" && (len(pa.Rets) != 1 || pa.Rets[0].Key() != grown.Key()) {
			bad = "the helper does not return the grown slice"
		}
	}
	r.check(bad == "", "R1.11", "origins.insert", p.Pos(fn.Pos()), bad, len(paths))
}

// insertTailSource: the source of the shifting copy is s[i:] of the grown
// slice; an explicit upper bound of len(s) or len(s)-1 selects at least the
// len(s)-1-i elements the destination s[i+1:] has room for, so the copy moves
// the same elements.
func insertTailSource(key, grown, i string) bool {
	ln := "len:builtin.len(" + grown + ")"
	for _, hi := range []string{"_", ln, "bin:-(" + ln + ", 1)"} {
		if key == "slice("+grown+", "+i+", "+hi+", _)" {
			return true
		}
	}
	return false
}

// patternOwnership: who may write the fields of origins.Pattern and
// origins.HostPattern — the pattern parser and the helpers only it calls.
func patternOwnership(ctx *Ctx, r *Result, rule string) {
	p := ctx.P
	pp := p.Func(pkgOrigins, "ParsePattern")
	if pp == nil {
		r.undecided(rule, "ParsePattern", "anchor not found")
		return
	}
	we := ctx.WE()
	allowed := map[string]bool{funcName(pp): true}
	for changed := true; changed; {
		changed = false
		for _, f := range we.Reach(pp) {
			name := funcName(f)
			if allowed[name] || len(we.callers[f]) == 0 {
				continue
			}
			all := true
			for _, cs := range we.callers[f] {
				if !allowed[funcName(cs.Caller)] {
					all = false
				}
			}
			if all {
				allowed[name], changed = true, true
			}
		}
	}
	n, ok := 0, true
	for _, typ := range []string{"Pattern", "HostPattern"} {
		w := p.fieldWriters(pkgOrigins, typ)
		for _, f := range sortedKeys(w) {
			for _, fn := range w[f] {
				n++
				if !allowed[fn] {
					ok = false
					r.fail(rule, "origins."+typ+"."+f, "", "field written outside the pattern parser, by "+fn+": the pattern that is inserted or examined is no longer the one that was parsed")
				}
			}
		}
	}
	if n < 4 {
		r.undecided(rule, "pattern writers", fmt.Sprintf("only %d (field, writer) pairs found for Pattern/HostPattern", n))
		return
	}
	if ok {
		r.ok(rule, "Pattern and HostPattern fields written only on ParsePattern's call tree", n, fmt.Sprint(sortedKeys(allowed)))
	}
}
