package main

// TB — constant and table engine: evaluates package-level constants, the
// constant contents of package-level slice literals and the constant
// arguments of table constructors from the type-checked syntax.

import (
	"fmt"
	"go/ast"
	"go/constant"
	"go/token"
	"go/types"
	"strings"
)

// varInit returns the initializer expression of package-level variable name.
func (p *Prog) varInit(pkg, name string) (ast.Expr, *types.Info, error) {
	pk := p.Pkgs[pkg]
	if pk == nil {
		return nil, nil, fmt.Errorf("package %s not loaded", pkg)
	}
	for _, f := range pk.Syntax {
		for _, d := range f.Decls {
			gd, ok := d.(*ast.GenDecl)
			if !ok || gd.Tok != token.VAR {
				continue
			}
			for _, s := range gd.Specs {
				vs := s.(*ast.ValueSpec)
				for i, n := range vs.Names {
					if n.Name == name {
						if len(vs.Values) == len(vs.Names) {
							return vs.Values[i], pk.TypesInfo, nil
						}
						return nil, pk.TypesInfo, fmt.Errorf("%s.%s has no 1:1 initializer", pkg, name)
					}
				}
			}
		}
	}
	return nil, nil, fmt.Errorf("variable %s.%s not found", pkg, name)
}

// ConstString returns the value of a package-level string constant.
func (p *Prog) ConstString(pkg, name string) (string, error) {
	v, err := p.ConstValue(pkg, name)
	if err != nil {
		return "", err
	}
	if v.Kind() != constant.String {
		return "", fmt.Errorf("%s.%s is not a string constant", pkg, name)
	}
	return constant.StringVal(v), nil
}

func (p *Prog) ConstValue(pkg, name string) (constant.Value, error) {
	pk := p.Pkgs[pkg]
	if pk == nil {
		return nil, fmt.Errorf("package %s not loaded", pkg)
	}
	o := pk.Types.Scope().Lookup(name)
	c, ok := o.(*types.Const)
	if !ok {
		return nil, fmt.Errorf("constant %s.%s not found", pkg, name)
	}
	return c.Val(), nil
}

func (p *Prog) ConstInt(pkg, name string) (int64, error) {
	v, err := p.ConstValue(pkg, name)
	if err != nil {
		return 0, err
	}
	i, ok := constant.Int64Val(constant.ToInt(v))
	if !ok {
		return 0, fmt.Errorf("%s.%s is not an integer constant", pkg, name)
	}
	return i, nil
}

// caseFolders maps the module's case-folding helpers to their effect, after
// checking that each is a single call to strings.ToLower / strings.ToUpper.
func (p *Prog) caseFolders() (map[string]func(string) string, error) {
	out := map[string]func(string) string{}
	for name, want := range map[string]string{"ByteLowercase": "strings.ToLower", "ByteUppercase": "strings.ToUpper"} {
		fn := p.Func(pkgUtil, name)
		if fn == nil {
			return nil, fmt.Errorf("util.%s not found", name)
		}
		if len(fn.Blocks) != 1 {
			return nil, fmt.Errorf("util.%s is not a single block", name)
		}
		x := p.NewExec(nil)
		paths := x.Summarize(fn)
		if len(paths) != 1 || len(paths[0].Rets) != 1 {
			return nil, fmt.Errorf("util.%s: unexpected shape", name)
		}
		r := paths[0].Rets[0]
		if r.Op != "call" || r.Name != want || len(r.Args) != 1 || r.Args[0].Op != "param" {
			return nil, fmt.Errorf("util.%s does not return %s(arg): %s", name, want, r.Key())
		}
		if want == "strings.ToLower" {
			out[name] = strings.ToLower
		} else {
			out[name] = strings.ToUpper
		}
	}
	return out, nil
}

// evalStringExpr evaluates a constant string expression, folding calls to the
// module's case helpers on constant arguments.
func (p *Prog) evalStringExpr(e ast.Expr, info *types.Info, fold map[string]func(string) string) (string, error) {
	if tv, ok := info.Types[e]; ok && tv.Value != nil && tv.Value.Kind() == constant.String {
		return constant.StringVal(tv.Value), nil
	}
	if call, ok := e.(*ast.CallExpr); ok && len(call.Args) == 1 {
		var id *ast.Ident
		switch f := call.Fun.(type) {
		case *ast.SelectorExpr:
			id = f.Sel
		case *ast.Ident:
			id = f
		}
		if id != nil {
			if fobj, ok := info.Uses[id].(*types.Func); ok && fobj.Pkg() != nil && fobj.Pkg().Path() == pkgUtil {
				if f, ok := fold[fobj.Name()]; ok {
					s, err := p.evalStringExpr(call.Args[0], info, fold)
					if err != nil {
						return "", err
					}
					return f(s), nil
				}
			}
		}
	}
	return "", fmt.Errorf("not a constant string expression at %s", p.Pos(e.Pos()))
}

// GlobalStrings evaluates a package-level `[]string{...}` of constants.
func (p *Prog) GlobalStrings(pkg, name string) ([]string, error) {
	e, info, err := p.varInit(pkg, name)
	if err != nil {
		return nil, err
	}
	cl, ok := e.(*ast.CompositeLit)
	if !ok {
		return nil, fmt.Errorf("%s.%s is not a composite literal", pkg, name)
	}
	var out []string
	for _, el := range cl.Elts {
		s, err := p.evalStringExpr(el, info, nil)
		if err != nil {
			return nil, err
		}
		out = append(out, s)
	}
	return out, nil
}

// SetTable evaluates `var x = util.NewSet(args...)` to its argument list.
func (p *Prog) SetTable(pkg, name string) ([]string, error) {
	e, info, err := p.varInit(pkg, name)
	if err != nil {
		return nil, err
	}
	call, ok := e.(*ast.CallExpr)
	if !ok {
		return nil, fmt.Errorf("%s.%s is not built by a call", pkg, name)
	}
	var id *ast.Ident
	switch f := call.Fun.(type) {
	case *ast.SelectorExpr:
		id = f.Sel
	case *ast.Ident:
		id = f
	}
	fobj, _ := info.Uses[id].(*types.Func)
	if fobj == nil || fobj.Pkg().Path() != pkgUtil || fobj.Name() != "NewSet" {
		return nil, fmt.Errorf("%s.%s is not built by util.NewSet", pkg, name)
	}
	fold, err := p.caseFolders()
	if err != nil {
		return nil, err
	}
	var out []string
	for _, a := range call.Args {
		s, err := p.evalStringExpr(a, info, fold)
		if err != nil {
			return nil, err
		}
		out = append(out, s)
	}
	return out, nil
}

// ASCIISetTable evaluates `var x = util.MakeASCIISet("...")`.
func (p *Prog) ASCIISetTable(pkg, name string) (string, error) {
	e, info, err := p.varInit(pkg, name)
	if err != nil {
		return "", err
	}
	call, ok := e.(*ast.CallExpr)
	if !ok || len(call.Args) != 1 {
		return "", fmt.Errorf("%s.%s is not built by a 1-argument call", pkg, name)
	}
	var id *ast.Ident
	switch f := call.Fun.(type) {
	case *ast.SelectorExpr:
		id = f.Sel
	case *ast.Ident:
		id = f
	}
	fobj, _ := info.Uses[id].(*types.Func)
	if fobj == nil || fobj.Pkg().Path() != pkgUtil || fobj.Name() != "MakeASCIISet" {
		return "", fmt.Errorf("%s.%s is not built by util.MakeASCIISet", pkg, name)
	}
	return p.evalStringExpr(call.Args[0], info, nil)
}

// globalContent resolves a tag "global(pkg.Name)" to its constant content.
func (ctx *Ctx) globalContent(tag string) ([]string, error) {
	if !strings.HasPrefix(tag, "global(") {
		return nil, fmt.Errorf("not a global tag: %s", tag)
	}
	q := strings.TrimSuffix(strings.TrimPrefix(tag, "global("), ")")
	i := strings.LastIndex(q, ".")
	pkg, name := q[:i], q[i+1:]
	full := map[string]string{"headers": pkgHeaders, "origins": pkgOrigins, "methods": pkgMethods, "util": pkgUtil, "cors": pkgRoot, "cfgerrors": pkgErrs}[pkg]
	if full == "" {
		return nil, fmt.Errorf("global outside the module: %s", q)
	}
	return ctx.P.GlobalStrings(full, name)
}

// tagContent resolves a value tag to the constant header value(s) it
// denotes, when it denotes constants.
func (ctx *Ctx) tagContent(tag string) ([]string, bool) {
	if strings.HasPrefix(tag, "const(") {
		var s string
		if _, err := fmt.Sscanf(strings.TrimSuffix(strings.TrimPrefix(tag, "const("), ")"), "%q", &s); err == nil {
			return []string{s}, true
		}
		return nil, false
	}
	if strings.HasPrefix(tag, "global(") {
		v, err := ctx.globalContent(tag)
		if err != nil {
			return nil, false
		}
		return v, true
	}
	return nil, false
}
