package main

import (
	"fmt"
	"sort"
	"strconv"
	"strings"
)

func init() { registry["C13"] = checkC13 }

// keys of the terms that make up ParsePattern's path conditions
// (a prefix cut — strings.CutPrefix(s, lit), or HasPrefix followed by
// re-slicing — reads as the test HasPrefix(s, lit) and the rest s[len(lit):])
type ppKeys struct{ S, SEPok, SEPrest, WILD string }

func cutOK(s, lit string) string {
	return `call:strings.HasPrefix(` + s + `, ` + strconv.Quote(lit) + `)`
}
func cutRest(s, lit string) string {
	return "slice(" + s + ", " + strconv.Itoa(len(lit)) + ", _, _)"
}

func newPPKeys() ppKeys {
	k := ppKeys{}
	k.S = "call:origins.parseScheme(param:str)"
	k.SEPok, k.SEPrest = cutOK(k.S+"#1", "://"), cutRest(k.S+"#1", "://")
	k.WILD = `call:strings.HasPrefix(` + k.SEPrest + `, "*.")`
	return k
}
func (k ppKeys) hostArg(w bool) string {
	if w {
		return "slice(" + k.SEPrest + ", 2, _, _)"
	}
	return k.SEPrest
}
func (k ppKeys) FH(w bool) string        { return "call:origins.fastParseHost(" + k.hostArg(w) + ")" }
func (k ppKeys) host(w bool) string      { return k.FH(w) + "#0.Value" }
func (k ppKeys) isIP(w bool) string      { return k.FH(w) + "#0.AssumeIP" }
func (k ppKeys) rest(w bool) string      { return k.FH(w) + "#1" }
func (k ppKeys) addr(w bool) string      { return "call:net/netip.ParseAddr(" + k.host(w) + ")" }
func (k ppKeys) colonOK(w bool) string   { return cutOK(k.rest(w), ":") }
func (k ppKeys) colonRest(w bool) string { return cutRest(k.rest(w), ":") }
func (k ppKeys) starOK(w bool) string    { return cutOK(k.colonRest(w), "*") }
func (k ppKeys) starRest(w bool) string  { return cutRest(k.colonRest(w), "*") }
func (k ppKeys) port(w bool) string      { return "call:origins.parsePort(" + k.colonRest(w) + ")" }
func (k ppKeys) hostNoDot() string {
	return "call:strings.TrimSuffix(" + k.host(true) + `, ".")`
}

// wildcardCap classifies a branch condition as the cap on the base domain of
// a `*.` pattern: +1 when it compares the domain's length WITHOUT its trailing
// dot with 251 (the documented defect), -1 when it is a cap that counts the
// dot (or another bound), 0 when it is not a length cap on that host at all.
// Recognised: C < len(X)+d or len(X)+d > C spelled with <, where X is the
// host or strings.TrimSuffix(host, "."); with the bare host the path must know
// whether the host ends in a dot (strings.HasSuffix), and the bound moves by one.
func (k ppKeys) wildcardCap(pa *Path, a Atom) int {
	t := a.T
	if t.Op != "bin" || t.Name != "<" || len(t.Args) != 2 || !a.Pos {
		return 0
	}
	// C < E   (a positive atom; `E <= C` negated arrives in this form too)
	cT, e := t.Args[0], t.Args[1]
	if cT.Op != "const" {
		return 0
	}
	c, err := strconv.ParseInt(cT.Name, 10, 64)
	if err != nil {
		return 0
	}
	base, d := affine(e)
	bound := c - d // len(X) > bound
	switch base.Key() {
	case "len:builtin.len(" + k.hostNoDot() + ")":
		if bound == 251 {
			return 1
		}
		return -1
	case "len:builtin.len(" + k.host(true) + ")":
		dot := pa.Val("call:strings.HasSuffix(" + k.host(true) + `, ".")`)
		switch {
		case dot == 1 && bound == 252, dot == -1 && bound == 251:
			return 1
		}
		return -1
	}
	return 0
}

func (k ppKeys) toASCII(w bool) string {
	return "call:(*golang.org/x/net/idna.Profile).ToASCII(*global:origins.profile, " + k.host(w) + ")"
}

func checkC13(ctx *Ctx) *Result {
	r := newResult("C13")
	r.Explanation = "Necessary conditions of the grammar, decided structurally (the acceptance/rejection of every string is NOT decided): (R13.1) the documented limits are the constants the parsers use — scheme ≤ 64 bytes, host ≤ 253 bytes, wildcard margin 2, port ≤ 5 digits and ≤ 65535, default ports http/80 https/443, tokens ://, :, *, *., null, file — and the loops of parseScheme/parsePort are bounded by them; (R13.2) the byte-class tables: first scheme byte exactly a–z, later scheme bytes ⊇ a–z 0–9 + - . without upper case, non-ASCII or URL delimiters, label bytes ⊇ a–z 0–9 - without upper case or non-ASCII, digit tables exact; each predicate consults its own table; (R13.3) on every path of ParsePattern (callees inlined) a non-nil error is an UnacceptableOriginPatternError whose Value is the original argument and whose Reason is invalid or prohibited, and it comes with the zero pattern; (R13.4) must-pass-through: every path of ParsePattern that returns a nil error has passed each documented guard — not `*`/`null`, scheme parsed, not file, ://, host lexed (after stripping exactly the `*.` it tested), wildcard ⇒ length ≤ 251 ∧ not an IP, IP ⇒ ParseAddr ok ∧ no zone ∧ not 4-in-6 ∧ canonical text ∧ scheme ≠ https, domain ⇒ IDNA profile ok, port part ⇒ `:` then `*` or a port with nothing left over, not the scheme's default port; (R13.5) the request-side parser Parse bounds the input length and rejects trailing input the same way."
	r.NotDecided = "language recognition over all strings: that every documented form is accepted and every single-defect mutation rejected (lexers fastParseHost/parseScheme/parsePort, netip, idna)"
	r.Trusted = []string{"go/types constant evaluation, go/ssa, the path-summary engine", "net/netip, x/net/idna: ParseAddr/Zone/Is4In6/String/ToASCII behave as documented", "the lexers fastParseHost, parseScheme, parsePort are taken as predicates (their loop bounds and tables are checked, their scanning logic is not)"}
	p := ctx.P
	r.rule("R13.1", "documented limits are the constants in use", 12)
	r.rule("R13.2", "byte-class tables and the predicates that consult them", 8)
	r.rule("R13.3", "every rejection is an UnacceptableOriginPatternError{Value: the argument, Reason: invalid|prohibited} with the zero pattern", 20)
	r.rule("R13.4", "every accepting path of ParsePattern has passed each documented guard", 10)
	r.rule("R13.5", "request-side Parse: length cap, same lexers, trailing input rejected", 3)

	// ---- R13.1 -----------------------------------------------------------
	for _, c := range []struct {
		name string
		want int64
	}{{"maxSchemeLen", 64}, {"maxHostLen", 253}, {"maxPortLen", 5}, {"maxUint16", 65535}, {"portHTTP", 80}, {"portHTTPS", 443}, {"hostPortSep", ':'}, {"labelSep", '.'}} {
		v, err := p.ConstInt(pkgOrigins, c.name)
		if err != nil {
			r.undecided("R13.1", c.name, err.Error())
			continue
		}
		r.check(v == c.want, "R13.1", "const "+c.name, "", fmt.Sprintf("%s = %d, documentation says %d", c.name, v, c.want), 1)
	}
	for _, c := range []struct{ name, want string }{{"schemeHostSep", "://"}, {"subdomainWildcard", "*"}, {"portWildcard", "*"}, {"schemeHTTP", "http"}, {"schemeHTTPS", "https"}} {
		v, err := p.ConstString(pkgOrigins, c.name)
		if err != nil {
			r.undecided("R13.1", c.name, err.Error())
			continue
		}
		r.check(v == c.want, "R13.1", "const "+c.name, "", fmt.Sprintf("%s = %q, documentation says %q", c.name, v, c.want), 1)
	}
	// loop bounds of the lexers use the limits
	for _, lx := range []struct{ fn, bound, what string }{
		{"parseScheme", "min:builtin.min(64, len:builtin.len(param:str))", "scheme scan bounded by min(64, len)"},
		{"parsePort", "min:builtin.min(5, len:builtin.len(param:str))", "port scan bounded by min(len, 5)"},
	} {
		fn := p.Func(pkgOrigins, lx.fn)
		if fn == nil {
			r.undecided("R13.1", lx.fn, "anchor not found")
			continue
		}
		x := p.NewExec(nil)
		paths := x.Summarize(fn)
		r.Paths += len(paths)
		r.fn(funcName(fn))
		found := false
		for _, pa := range paths {
			for _, a := range pa.Atoms {
				if a.T.MentionsKey(lx.bound) {
					found = true
				}
			}
		}
		r.check(found, "R13.1", lx.fn+": "+lx.what, p.Pos(fn.Pos()), "no loop guard compares the index with "+lx.bound, len(paths))
	}
	// parsePort: range check and leading digit
	if fn := p.Func(pkgOrigins, "parsePort"); fn != nil {
		x := p.NewExec(nil)
		paths := x.Summarize(fn)
		okRange, okFirst := true, true
		nSucc := 0
		for _, pa := range paths {
			if pa.End != "return" || len(pa.Rets) != 3 || !pa.Rets[2].IsConst("true") {
				continue
			}
			nSucc++
			hasUpper := false
			for _, a := range pa.Atoms {
				if a.T.Op == "bin" && a.T.Name == "<" && a.T.Args[0].IsConst("65535") && !a.Pos {
					hasUpper = true
				}
			}
			if !hasUpper {
				okRange = false
			}
		}
		for _, pa := range paths {
			if pa.Start != "entry" {
				continue
			}
			if pa.End != "return" {
				// reaching the loop requires a non-empty input starting with a non-zero digit
				if !pa.Has("bin:==(len:builtin.len(param:str), 0)", false) || !pa.Has("call:(*util.ASCIISet).Contains(global:origins.nonzeroDigits, index(param:str, 0))", true) {
					okFirst = false
				}
			}
		}
		r.check(okRange && nSucc > 0, "R13.1", "parsePort: success ⇒ port ≤ 65535", p.Pos(fn.Pos()), "a success return of parsePort is not guarded by the 65535 upper bound", len(paths))
		r.check(okFirst, "R13.1", "parsePort: first byte is a non-zero digit", p.Pos(fn.Pos()), "the port scan can start without a leading non-zero digit", len(paths))
	}
	if fn := p.Func(pkgOrigins, "parseScheme"); fn != nil {
		x := p.NewExec(nil)
		paths := x.Summarize(fn)
		okFirst := true
		for _, pa := range paths {
			if pa.Start == "entry" && pa.End != "return" {
				if !pa.Has("bin:==(len:builtin.len(param:str), 0)", false) || !pa.Has("call:(*util.ASCIISet).Contains(global:origins.lowerAlpha, index(param:str, 0))", true) {
					okFirst = false
				}
			}
		}
		r.check(okFirst, "R13.1", "parseScheme: first byte is a lower-case letter", p.Pos(fn.Pos()), "the scheme scan can start without a leading lower-case letter", len(paths))
	}

	// ---- R13.2 -----------------------------------------------------------
	type cls struct {
		name           string
		exact          string
		mustHave       string
		mustNotHave    string
		noUpperNoASCII bool
	}
	for _, c := range []cls{
		{name: "lowerAlpha", exact: "abcdefghijklmnopqrstuvwxyz"},
		{name: "digits", exact: "0123456789"},
		{name: "nonzeroDigits", exact: "123456789"},
		{name: "laterSchemeBytes", mustHave: "abcdefghijklmnopqrstuvwxyz0123456789+-.", mustNotHave: ":/?#@[] \t*", noUpperNoASCII: true},
		{name: "asciiLabelBytes", mustHave: "abcdefghijklmnopqrstuvwxyz0123456789-", mustNotHave: ".:/?#@[] \t*", noUpperNoASCII: true},
	} {
		s, err := p.ASCIISetTable(pkgOrigins, c.name)
		if err != nil {
			r.undecided("R13.2", c.name, err.Error())
			continue
		}
		set := map[byte]bool{}
		for i := 0; i < len(s); i++ {
			set[s[i]] = true
		}
		detail := ""
		if c.exact != "" {
			want := map[byte]bool{}
			for i := 0; i < len(c.exact); i++ {
				want[c.exact[i]] = true
			}
			if len(want) != len(set) {
				detail = fmt.Sprintf("table is %q, documentation implies exactly %q", s, c.exact)
			}
			for b := range want {
				if !set[b] {
					detail = fmt.Sprintf("table is %q, documentation implies exactly %q", s, c.exact)
				}
			}
		}
		for i := 0; i < len(c.mustHave); i++ {
			if !set[c.mustHave[i]] {
				detail = fmt.Sprintf("byte %q missing from %s", c.mustHave[i], c.name)
			}
		}
		for i := 0; i < len(c.mustNotHave); i++ {
			if set[c.mustNotHave[i]] {
				detail = fmt.Sprintf("byte %q must not be in %s", c.mustNotHave[i], c.name)
			}
		}
		if c.noUpperNoASCII {
			for b := range set {
				if b >= 0x80 || (b >= 'A' && b <= 'Z') || b < 0x21 {
					detail = fmt.Sprintf("byte %q (upper case, control or non-ASCII) in %s", b, c.name)
				}
			}
		}
		r.check(detail == "", "R13.2", "table "+c.name, "", detail, len(s))
	}
	for _, pr := range []struct{ fn, table string }{{"isLowerAlpha", "lowerAlpha"}, {"isSubsequentSchemeByte", "laterSchemeBytes"}, {"isASCIILabelByte", "asciiLabelBytes"}, {"isDigit", "digits"}, {"isNonZeroDigit", "nonzeroDigits"}} {
		fn := p.Func(pkgOrigins, pr.fn)
		if fn == nil {
			// no such wrapper: the lexers consult the table directly, and their
			// step rules (R13.6–R13.9) read the table off the inlined call
			r.ok("R13.2", pr.fn+" consults "+pr.table, 0, "wrapper absent")
			continue
		}
		x := p.NewExec(nil)
		ps := x.Summarize(fn)
		want := "call:(*util.ASCIISet).Contains(global:origins." + pr.table + ", param:b)"
		good := len(ps) == 1 && len(ps[0].Rets) == 1 && ps[0].Rets[0].Key() == want
		got := ""
		if len(ps) == 1 && len(ps[0].Rets) == 1 {
			got = ps[0].Rets[0].Key()
		}
		r.check(good, "R13.2", pr.fn+" consults "+pr.table, p.Pos(fn.Pos()), "predicate returns "+got, len(ps))
	}

	// ---- R13.3 / R13.4 on ParsePattern's path table -----------------------------
	fn := p.Func(pkgOrigins, "ParsePattern")
	if fn == nil {
		r.undecided("R13.3", "ParsePattern", "anchor not found")
		return r
	}
	x := p.NewExec(nil)
	paths := x.Summarize(fn)
	r.Paths += len(paths)
	r.fn(funcName(fn))
	if hasLoop(fn) || len(x.Problems) > 0 || len(paths) < 20 {
		r.undecided("R13.3", "ParsePattern", fmt.Sprintf("cannot summarise ParsePattern as a loop-free composition of its lexers (%d paths): %s", len(paths), strings.Join(x.Problems, "; ")))
		return r
	}
	k := newPPKeys()
	nOK, nRej := 0, 0
	rejReasons := map[string]int{}
	for _, pa := range paths {
		if pa.End != "return" || len(pa.Rets) != 2 {
			r.fail("R13.3", "ParsePattern path {"+shortAtoms(pa)+"}", "", "path does not return (Pattern, error)")
			continue
		}
		ret := pa.Rets[1]
		if ret.IsConst("nil") {
			nOK++
			continue
		}
		nRej++
		good, detail := true, ""
		if ret.Op != "iface" || ret.Name != "*cfgerrors.UnacceptableOriginPatternError" || ret.Args[0].Op != "alloc" {
			good, detail = false, "rejection is not a freshly built UnacceptableOriginPatternError: "+ret.Key()
		} else {
			pre := "&" + ret.Args[0].Key() + "."
			val, reason := "", ""
			for mk, e := range pa.Mem {
				if mk == pre+"Value" {
					val = e.Val.Key()
				}
				if mk == pre+"Reason" {
					reason = e.Val.Key()
				}
			}
			if val != "param:str" {
				good, detail = false, "the error does not name the pattern as supplied: Value = "+val
			}
			if reason != `"invalid"` && reason != `"prohibited"` {
				good, detail = false, "Reason is "+reason
			}
			rejReasons[reason]++
			// the documented Reason of each defect: "prohibited" for what is
			// well-formed but refused on purpose (`*`/null as a pattern, file,
			// IPv4-mapped and non-canonical IP literals, hosts the IDNA profile
			// refuses, the scheme's default port), "invalid" for everything else
			if len(pa.Atoms) > 0 && good {
				la := pa.Atoms[len(pa.Atoms)-1]
				lk := la.T.Key()
				want := `"invalid"`
				switch {
				case lk == `bin:==(param:str, "*")`, lk == `bin:==(param:str, "null")`, lk == `bin:==(`+k.S+`#0, "file")`,
					strings.HasPrefix(lk, "call:(net/netip.Addr).Is4In6("), strings.HasPrefix(lk, "bin:==(call:(net/netip.Addr).String("),
					strings.Contains(lk, "idna.Profile).ToASCII("):
					want = `"prohibited"`
				}
				for _, w := range []bool{false, true} {
					if pa.Val("bin:==("+k.port(w)+"#0, 80)") == 1 && pa.Val(`bin:==(`+k.S+`#0, "http")`) == 1 ||
						pa.Val("bin:==("+k.port(w)+"#0, 443)") == 1 && pa.Val(`bin:==(`+k.S+`#0, "https")`) == 1 {
						if strings.HasPrefix(lk, "bin:==("+k.S+"#0, ") || strings.HasPrefix(lk, "bin:==("+k.port(w)+"#0, ") {
							want = `"prohibited"`
						}
					}
				}
				if reason != want {
					good, detail = false, "the rejection decided by "+la.String()+" carries Reason "+reason+", the documented Reason of that defect is "+want
				}
			}
		}
		if z := pa.Rets[0].Key(); z != "*global:origins.zeroPattern" && z != "zero" {
			good, detail = false, "a rejection returns a non-zero pattern: "+z
		}
		r.check(good, "R13.3", "ParsePattern rejection {"+lastAtom(pa)+"}", "", detail, 1)
	}
	if nOK == 0 || nRej < 16 {
		r.undecided("R13.3", "ParsePattern path classes", fmt.Sprintf("%d accepting and %d rejecting paths (≥1 and ≥16 expected)", nOK, nRej))
	}
	type guard struct {
		name string
		test func(pa *Path, w bool) string // "" if the accepting path passed the guard
	}
	need := func(pa *Path, key string, want int, what string) string {
		if pa.Val(key) != want {
			return what
		}
		return ""
	}
	guards := []guard{
		{"not the bare wildcard", func(pa *Path, w bool) string { return need(pa, `bin:==(param:str, "*")`, -1, "`*` is not rejected") }},
		{"not null", func(pa *Path, w bool) string {
			return need(pa, `bin:==(param:str, "null")`, -1, "`null` is not rejected")
		}},
		{"scheme parsed", func(pa *Path, w bool) string { return need(pa, k.S+"#2", 1, "scheme not validated by parseScheme") }},
		{"scheme is not file", func(pa *Path, w bool) string {
			return need(pa, `bin:==(`+k.S+`#0, "file")`, -1, "`file` scheme not rejected")
		}},
		{"scheme-host separator", func(pa *Path, w bool) string { return need(pa, k.SEPok, 1, "`://` not required") }},
		{"wildcard test", func(pa *Path, w bool) string {
			if pa.Val(k.WILD) == 0 {
				return "the leading `*.` is not looked for"
			}
			return ""
		}},
		{"host lexed after stripping exactly the tested prefix", func(pa *Path, w bool) string {
			return need(pa, k.FH(w)+"#2", 1, "host not lexed by fastParseHost on the wildcard-free host")
		}},
		{"wildcard ⇒ base domain ≤ 251 bytes", func(pa *Path, w bool) string {
			if !w {
				return ""
			}
			// measured with or without the trailing dot (R13.10 decides which is right)
			if pa.Val("bin:<(251, len:builtin.len("+k.host(true)+"))") == -1 || pa.Val("bin:<(251, len:builtin.len("+k.hostNoDot()+"))") == -1 {
				return ""
			}
			// … or spelled with a subtraction for the dot: a negated cap atom on the path
			for _, a := range pa.Atoms {
				pos := a
				pos.Pos = true
				if !a.Pos && k.wildcardCap(pa, pos) != 0 {
					return ""
				}
			}
			return "no 251-byte cap on the base domain of a `*.` pattern"
		}},
		{"wildcard ⇒ not an IP", func(pa *Path, w bool) string {
			if !w {
				return ""
			}
			return need(pa, k.isIP(true), -1, "a wildcard before an IP host is not rejected")
		}},
		{"host kind decided", func(pa *Path, w bool) string {
			if pa.Val(k.isIP(w)) == 0 {
				return "the accepting path does not distinguish IP hosts from domains"
			}
			return ""
		}},
		{"IP ⇒ ParseAddr succeeded", func(pa *Path, w bool) string {
			if pa.Val(k.isIP(w)) != 1 {
				return ""
			}
			return need(pa, "bin:==("+k.addr(w)+"#1, nil)", 1, "IP host not validated by netip.ParseAddr")
		}},
		{"IP ⇒ no zone", func(pa *Path, w bool) string {
			if pa.Val(k.isIP(w)) != 1 {
				return ""
			}
			return need(pa, `bin:==(call:(net/netip.Addr).Zone(`+k.addr(w)+`#0), "")`, 1, "zoned IP literal not rejected")
		}},
		{"IP ⇒ not IPv4-mapped", func(pa *Path, w bool) string {
			if pa.Val(k.isIP(w)) != 1 {
				return ""
			}
			return need(pa, "call:(net/netip.Addr).Is4In6("+k.addr(w)+"#0)", -1, "IPv4-mapped IPv6 literal not rejected")
		}},
		{"IP ⇒ canonical text", func(pa *Path, w bool) string {
			if pa.Val(k.isIP(w)) != 1 {
				return ""
			}
			return need(pa, "bin:==(call:(net/netip.Addr).String("+k.addr(w)+"#0), "+k.host(w)+")", 1, "non-canonical IP literal not rejected")
		}},
		{"IP ⇒ scheme is not https", func(pa *Path, w bool) string {
			if pa.Val(k.isIP(w)) != 1 {
				return ""
			}
			return need(pa, `bin:==(`+k.S+`#0, "https")`, -1, "https with an IP host is not rejected")
		}},
		{"domain ⇒ IDNA profile", func(pa *Path, w bool) string {
			if pa.Val(k.isIP(w)) != -1 {
				return ""
			}
			return need(pa, "bin:==("+k.toASCII(w)+"#1, nil)", 1, "domain not validated by the IDNA profile")
		}},
		{"port part: `:` then `*` or a port, nothing left over", func(pa *Path, w bool) string {
			switch pa.Val("bin:<(0, len:builtin.len(" + k.rest(w) + "))") {
			case -1:
				return ""
			case 0:
				return "the accepting path does not look at what follows the host"
			}
			if pa.Val(k.colonOK(w)) != 1 {
				return "something other than `:` may follow the host"
			}
			switch pa.Val(k.starOK(w)) {
			case 1:
				return need(pa, `bin:==(`+k.starRest(w)+`, "")`, 1, "trailing input after `:*` not rejected")
			case -1:
				if pa.Val(k.port(w)+"#2") != 1 {
					return "port not validated by parsePort"
				}
				return need(pa, `bin:==(`+k.port(w)+`#1, "")`, 1, "trailing input after the port not rejected")
			}
			return "the port wildcard is not looked for"
		}},
		{"default port elided", func(pa *Path, w bool) string {
			if pa.Val("bin:<(0, len:builtin.len("+k.rest(w)+"))") != 1 || pa.Val(k.starOK(w)) != -1 {
				return ""
			}
			for _, d := range []struct{ port, scheme string }{{"80", "http"}, {"443", "https"}} {
				pk := "bin:==(" + k.port(w) + "#0, " + d.port + ")"
				sk := `bin:==(` + k.S + `#0, "` + d.scheme + `")`
				// the path excludes (port = default ∧ scheme = its scheme): one of the
				// two is known to be false
				if pa.Val(pk) != -1 && pa.Val(sk) != -1 {
					if pa.Val(pk) == 0 {
						return "port " + d.port + " is not compared"
					}
					return "default port " + d.port + " of " + d.scheme + " not rejected"
				}
			}
			return ""
		}},
	}
	// R13.10: the converse of R13.4 — nothing is rejected for a reason the
	// documentation does not give. The condition that decides a rejection
	// (the last branch taken before the error is built) is one of the
	// documented defects.
	r.rule("R13.10", "every rejection of ParsePattern is decided by a documented defect (no additional, undocumented rejections)", 16)
	{
		type cond struct {
			key  string
			pos  bool
			with string // a condition the path must also carry (positively)
		}
		var doc []cond
		add := func(key string, pos bool) { doc = append(doc, cond{key, pos, ""}) }
		add(`bin:==(param:str, "*")`, true)
		add(`bin:==(param:str, "null")`, true)
		add(k.S+"#2", false)
		add(`bin:==(`+k.S+`#0, "file")`, true)
		add(k.SEPok, false)
		// "a domain of at most 251 bytes", and a domain's length does not count its
		// trailing dot (as for the 253 bytes of a wildcard-free host, where the
		// IDNA profile measures): the cap is on the host without that dot
		add("bin:<(251, len:builtin.len("+k.hostNoDot()+"))", true)
		add(k.isIP(true), true)
		for _, w := range []bool{false, true} {
			add(k.FH(w)+"#2", false)
			add("bin:==("+k.addr(w)+"#1, nil)", false)
			add(`bin:==(call:(net/netip.Addr).Zone(`+k.addr(w)+`#0), "")`, false)
			add("call:(net/netip.Addr).Is4In6("+k.addr(w)+"#0)", true)
			add("bin:==(call:(net/netip.Addr).String("+k.addr(w)+"#0), "+k.host(w)+")", false)
			add("bin:==("+k.toASCII(w)+"#1, nil)", false)
			add(k.colonOK(w), false)
			add("bin:==(index("+k.rest(w)+", 0), 58)", false) // the same test on the first byte of a non-empty rest
			add(`bin:==(`+k.starRest(w)+`, "")`, false)
			add(k.port(w)+"#2", false)
			add(`bin:==(`+k.port(w)+`#1, "")`, false)
			// the scheme's default port, when the port is what is tested last
			doc = append(doc, cond{"bin:==(" + k.port(w) + "#0, 80)", true, `bin:==(` + k.S + `#0, "http")`})
			doc = append(doc, cond{"bin:==(" + k.port(w) + "#0, 443)", true, `bin:==(` + k.S + `#0, "https")`})
		}
		add(`bin:==(`+k.S+`#0, "https")`, true) // https with an IP host; default port 443
		add(`bin:==(`+k.S+`#0, "http")`, true)  // default port 80
		for _, pa := range paths {
			if pa.End != "return" || len(pa.Rets) != 2 || pa.Rets[1].IsConst("nil") || len(pa.Atoms) == 0 {
				continue
			}
			la := pa.Atoms[len(pa.Atoms)-1]
			found := false
			for _, d := range doc {
				if d.key == la.T.Key() && d.pos == la.Pos && (d.with == "" || pa.Val(d.with) == 1) {
					found = true
				}
			}
			if k.wildcardCap(pa, la) == 1 {
				found = true
			}
			detail := "a pattern is rejected because of " + la.String() + ", which is none of the documented defects: patterns of the documented form would be refused"
			if la.Pos && la.T.Key() == "bin:<(251, len:builtin.len("+k.host(true)+"))" {
				detail = "the 251-byte cap on the base domain of a `*.` pattern is applied to the host including its trailing dot: `*.` + a 251-byte domain + `.` is of the documented form (a domain's length does not count the trailing dot) and is refused"
			}
			r.check(found, "R13.10", "ParsePattern rejection decided by {"+lastAtom(pa)+"}", "", detail, 1)
		}
	}
	for _, g := range guards {
		bad := ""
		n := 0
		for _, pa := range paths {
			if len(pa.Rets) != 2 || !pa.Rets[1].IsConst("nil") {
				continue
			}
			n++
			w := pa.Val(k.WILD) == 1
			if why := g.test(pa, w); why != "" {
				bad = why + " on accepting path {" + shortAtoms(pa) + "}"
			}
		}
		r.check(bad == "", "R13.4", "accept ⇒ "+g.name, p.Pos(fn.Pos()), bad, n)
	}
	// the accepted pattern is assembled from the lexed parts
	bad := ""
	for _, pa := range paths {
		if len(pa.Rets) != 2 || !pa.Rets[1].IsConst("nil") {
			continue
		}
		w := pa.Val(k.WILD) == 1
		pat := pa.Rets[0]
		if pat.Op != "composite" {
			bad = "cannot see how the accepted pattern is assembled: " + pat.Key()
			continue
		}
		get := func(f string) string { return fieldOf(pat, f).Key() }
		if get("Scheme") != k.S+"#0" {
			bad = "Pattern.Scheme is not the lexed scheme: " + get("Scheme")
		}
		wantPort := "0"
		if pa.Val("bin:<(0, len:builtin.len("+k.rest(w)+"))") == 1 {
			if pa.Val(k.starOK(w)) == 1 {
				wantPort = "65536"
			} else {
				wantPort = k.port(w) + "#0"
			}
		}
		if get("Port") != wantPort {
			bad = "Pattern.Port is " + get("Port") + ", expected " + wantPort
		}
		// the host pattern kept is the text that was lexed: the wildcard-free
		// host in full (trailing dot included), preceded by its `*.` if any; an
		// IP literal in netip's canonical text
		{
			hv := fieldOf(fieldOf(pat, "HostPattern"), "Value")
			hostArg := k.hostArg(false) // what follows `://`
			wantHV := ""
			switch {
			case w:
				wantHV = "slice(" + hostArg + ", _, bin:+(len:builtin.len(" + k.host(true) + "), 2), _)"
			case pa.Val(k.isIP(false)) == 1:
				wantHV = "call:(net/netip.Addr).String(" + k.addr(false) + "#0)"
			default:
				wantHV = "slice(" + hostArg + ", _, len:builtin.len(" + k.host(false) + "), _)"
			}
			if got := hv.Key(); got != wantHV && got != k.host(false) {
				// the same cut offset spelled with other length arithmetic
				// (e.g. through len(pattern) - len(host-only part))
				same := false
				if !(pa.Val(k.isIP(false)) == 1 && !w) && hv.Op == "slice" && len(hv.Args) >= 3 && hv.Args[0].Key() == hostArg && hv.Args[1].Key() == "_" {
					wantOff := map[string]int64{"len:builtin.len(" + k.host(w) + ")": 1}
					if w {
						wantOff[""] = 2
					}
					same = sameLin(lenLin(hv.Args[2]), wantOff)
				}
				if !same {
					bad = "the host pattern kept is not the host as lexed (a trailing dot or the `*.` would be lost or text added): " + got
				}
			}
		}
		// an IP host is classified by netip's IsLoopback and nothing else (the
		// "deemed insecure" exemption hangs on that kind)
		if !w && pa.Val(k.isIP(false)) == 1 {
			kind := fieldOf(fieldOf(pat, "HostPattern"), "Kind").Key()
			lb := pa.Val("call:(net/netip.Addr).IsLoopback(" + k.addr(false) + "#0)")
			switch {
			case lb == 1 && kind != "2", lb == -1 && kind != "1":
				bad = fmt.Sprintf("an IP host is given kind %s on a path where IsLoopback is %+d (loopback = 2, non-loopback = 1)", kind, lb)
			case lb == 0:
				bad = "an IP host is classified without consulting netip.Addr.IsLoopback: kind " + kind
			}
		}
	}
	r.check(bad == "", "R13.4", "accepted pattern assembled from the lexed scheme and port", p.Pos(fn.Pos()), bad, nOK)

	// ---- R13.5: request-side Parse -------------------------------------------------
	pf := p.Func(pkgOrigins, "Parse")
	if pf == nil {
		r.undecided("R13.5", "Parse", "anchor not found")
		return r
	}
	x2 := p.NewExec(nil)
	pp := x2.Summarize(pf)
	r.Paths += len(pp)
	r.fn(funcName(pf))
	// the request-side length cap must admit every origin an accepted pattern
	// can denote: longest scheme + "://" + longest domain + its optional
	// trailing dot (absolute domain name, accepted by the IDNA profile and not
	// counted in maxHostLen) + ":" + longest port
	longest := int64(0)
	for _, c := range []string{"maxSchemeLen", "maxHostLen", "maxPortLen"} {
		v, err := p.ConstInt(pkgOrigins, c)
		if err != nil {
			r.undecided("R13.5", c, err.Error())
		}
		longest += v
	}
	longest += int64(len("://")) + 1 + 1
	capVal := int64(-1)
	for _, pa := range pp {
		for _, a := range pa.Atoms {
			if a.T.Op == "bin" && a.T.Name == "<" && a.T.Args[0].Op == "const" && a.T.Args[1].Key() == "len:builtin.len(param:str)" {
				if v, err := strconv.ParseInt(a.T.Args[0].Name, 10, 64); err == nil {
					capVal = v
				}
			}
		}
	}
	r.check(capVal >= longest, "R13.5", "Parse: length cap admits the longest origin an accepted pattern denotes", p.Pos(pf.Pos()),
		fmt.Sprintf("Parse rejects origins longer than %d bytes, but an accepted pattern can be %d bytes long (64-byte scheme, 253-byte domain plus trailing dot, 5-digit port): presenting it verbatim as an Origin is refused", capVal, longest), 1)
	capKey := fmt.Sprintf("bin:<(%d, len:builtin.len(param:str))", capVal)
	S := "call:origins.parseScheme(param:str)"
	FH := "call:origins.fastParseHost(" + cutRest(S+"#1", "://") + ")"
	PORT := "call:origins.parsePort(" + cutRest(FH+"#1", ":") + ")"
	badCap, badLex, badTrail := "", "", ""
	nAcc := 0
	for _, pa := range pp {
		if len(pa.Rets) != 2 || !pa.Rets[1].IsConst("true") {
			continue
		}
		nAcc++
		if pa.Val(capKey) != -1 {
			badCap = "an accepting path of Parse is not guarded by the overall length cap " + capKey
		}
		if pa.Val(S+"#2") != 1 || pa.Val(cutOK(S+"#1", "://")) != 1 || pa.Val(FH+"#2") != 1 {
			badLex = "an accepting path of Parse skips a lexer (scheme, ://, host)"
		}
		switch pa.Val("bin:<(0, len:builtin.len(" + FH + "#1))") {
		case 1:
			if pa.Val(cutOK(FH+"#1", ":")) != 1 || pa.Val(PORT+"#2") != 1 || pa.Val(`bin:==(`+PORT+`#1, "")`) != 1 {
				badTrail = "Parse accepts input after the host that is not `:` port with nothing left over"
			}
		case 0:
			badTrail = "Parse does not look at what follows the host"
		}
	}
	// the accepted origin is what was lexed, nothing else: scheme, host and —
	// when a port was written — exactly that port, otherwise 0 ("no port")
	badAsm := ""
	for _, pa := range pp {
		if len(pa.Rets) != 2 || !pa.Rets[1].IsConst("true") {
			continue
		}
		o := pa.Rets[0]
		if o.Op != "composite" {
			badAsm = "cannot see how the accepted origin is assembled: " + o.Key()
			continue
		}
		if got := fieldOf(o, "Scheme").Key(); got != S+"#0" {
			badAsm = "Origin.Scheme is not the lexed scheme: " + got
		}
		if h := fieldOf(o, "Host"); h.Key() != FH+"#0" {
			badAsm = "Origin.Host is not the lexed host: " + h.Key()
		}
		wantPort := "0"
		if pa.Val("bin:<(0, len:builtin.len("+FH+"#1))") == 1 {
			wantPort = PORT + "#0"
		}
		got := fieldOf(o, "Port").Key()
		if fieldOf(o, "Port").Op == "zero" {
			got = "0" // field left out of the literal
		}
		if got != wantPort {
			badAsm = "Origin.Port is " + got + ", expected " + wantPort + " (the port as written; 0 only when none is written)"
		}
	}
	// every refusal of Parse is decided by a documented defect: too long, no
	// scheme, no `://`, no host, or something after the host that is not `:`
	// port with nothing left over
	{
		okLast := map[string]bool{}
		addL := func(key string, pos bool) { okLast[fmt.Sprint(pos, " ", key)] = true }
		addL(S+"#2", false)
		addL(cutOK(S+"#1", "://"), false)
		addL(`call:strings.HasPrefix(`+S+`#1, "://")`, false)
		addL(FH+"#2", false)
		addL(cutOK(FH+"#1", ":"), false)
		addL(`call:strings.HasPrefix(`+FH+`#1, ":")`, false)
		addL("bin:==(index("+FH+"#1, 0), 58)", false)
		addL(PORT+"#2", false)
		addL(`bin:==(`+PORT+`#1, "")`, false)
		addL("bin:<(0, len:builtin.len("+PORT+"#1))", true)   // len(rest) > 0
		addL("bin:==(len:builtin.len("+PORT+"#1), 0)", false) // len(rest) != 0
		badRej := ""
		nRejP := 0
		for _, pa := range pp {
			if len(pa.Rets) != 2 || !pa.Rets[1].IsConst("false") || len(pa.Atoms) == 0 {
				continue
			}
			nRejP++
			la := pa.Atoms[len(pa.Atoms)-1]
			if okLast[fmt.Sprint(la.Pos, " ", la.T.Key())] {
				continue
			}
			// the length cap: a positive `C < len(str)` (or its spelling with the operands swapped, negated)
			if la.T.Op == "bin" && la.T.Name == "<" && la.Pos && la.T.Args[0].Op == "const" && la.T.Args[1].Key() == "len:builtin.len(param:str)" {
				continue
			}
			badRej = "an origin is refused because of " + la.String() + ", which is none of the documented defects (too long, scheme, `://`, host, port, trailing input): origins an accepted pattern denotes would be refused"
		}
		r.check(badRej == "", "R13.5", "Parse: every refusal is decided by a documented defect", p.Pos(pf.Pos()), badRej, nRejP)
	}
	r.check(badAsm == "", "R13.5", "Parse: the accepted origin is assembled from the lexed scheme, host and port", p.Pos(pf.Pos()), badAsm, nAcc)
	r.check(badCap == "" && nAcc > 0, "R13.5", "Parse: overall length cap", p.Pos(pf.Pos()), badCap, len(pp))
	r.check(badLex == "", "R13.5", "Parse: scheme, separator and host lexed", p.Pos(pf.Pos()), badLex, len(pp))
	r.check(badTrail == "", "R13.5", "Parse: trailing input rejected", p.Pos(pf.Pos()), badTrail, len(pp))
	var rs []string
	for k2, n := range rejReasons {
		rs = append(rs, fmt.Sprintf("%s×%d", k2, n))
	}
	sort.Strings(rs)
	r.sample(map[string]any{"ParsePattern_paths": len(paths), "accepting": nOK, "rejecting": nRej, "rejection_reasons": rs, "guards_checked": len(guards)})
	lexerRules(ctx, r)
	// "presenting an accepted wildcard-free pattern verbatim as an Origin is
	// allowed by it" also rests on the tree storing the pattern's host as
	// parsed and Contains walking it byte for byte
	treeRules(ctx, r)
	// "rejected … naming that string": every origin pattern reaches the parser
	// whatever else is wrong with the Config
	r.rule("R4.1", "error discipline of the builder: every validator is consulted on every path and every violation found is part of the returned error (a defective pattern is named even next to other violations)", 1)
	builderRule(ctx, r, "R4.1")
	return r
}

func shortAtoms(pa *Path) string {
	s := pa.AtomString()
	for _, rp := range [][2]string{
		{`slice(call:origins.parseScheme(param:str)#1, 3, _, _)`, "SEP#0"},
		{"call:origins.parseScheme(param:str)", "SCHEME"},
		{"call:origins.fastParseHost(slice(SEP#0, 2, _, _))", "HOSTw"},
		{"call:origins.fastParseHost(SEP#0)", "HOST"},
	} {
		s = strings.ReplaceAll(s, rp[0], rp[1])
	}
	if len(s) > 700 {
		s = s[:700] + "…"
	}
	return s
}

func lastAtom(pa *Path) string {
	if len(pa.Atoms) == 0 {
		return ""
	}
	tmp := &Path{Atoms: pa.Atoms[len(pa.Atoms)-1:]}
	return shortAtoms(tmp) + fmt.Sprintf(" (path with %d conditions)", len(pa.Atoms))
}

// lenLin flattens a term built from +, -, integer constants and lengths into
// a linear form (key of the atom → coefficient; "" for the constant), using
// len(s[c:]) = len(s) - c for a constant c (the paths on which such a slice
// is taken have established that s is at least c bytes long).
func lenLin(t *Term) map[string]int64 {
	out := map[string]int64{}
	var walk func(t *Term, sign int64)
	walk = func(t *Term, sign int64) {
		switch {
		case t.Op == "const":
			if c, err := strconv.ParseInt(t.Name, 10, 64); err == nil {
				out[""] += sign * c
				return
			}
		case t.Op == "bin" && len(t.Args) == 2 && (t.Name == "+" || t.Name == "-"):
			walk(t.Args[0], sign)
			if t.Name == "+" {
				walk(t.Args[1], sign)
			} else {
				walk(t.Args[1], -sign)
			}
			return
		case t.Op == "len" && len(t.Args) == 1:
			a := t.Args[0]
			if a.Op == "slice" && len(a.Args) >= 3 && a.Args[1].Op == "const" && a.Args[1].Name != "_" && a.Args[2].Key() == "_" {
				if c, err := strconv.ParseInt(a.Args[1].Name, 10, 64); err == nil {
					walk(&Term{Op: "len", Name: t.Name, Args: []*Term{a.Args[0]}, Type: t.Type}, sign)
					out[""] -= sign * c
					return
				}
			}
		}
		out[t.Key()] += sign
	}
	walk(t, 1)
	return out
}

func sameLin(a, b map[string]int64) bool {
	for k, v := range a {
		if v != 0 && b[k] != v {
			return false
		}
	}
	for k, v := range b {
		if v != 0 && a[k] != v {
			return false
		}
	}
	return true
}
