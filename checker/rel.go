package main

// REL — entailment between comparison atoms. The rules ask a path whether it
// fixes an atom such as `0 < len(v)`; the source may have written the same
// fact as `len(v) != 0`, `len(v) >= 1` or `v != ""`. Rather than enumerate
// spellings in every rule, a path's comparison atoms are read as difference
// constraints x − y ≤ k over the integers (terms are opaque names; len(·) ≥ 0),
// closed under transitivity (Floyd–Warshall on a handful of nodes), and a
// queried comparison is answered from the closure: +1 entailed, −1 its
// negation entailed, 0 neither. Sound and complete for conjunctions of
// difference constraints; disequalities only sharpen a bound already known
// (x ≤ y ∧ x ≠ y ⇒ x ≤ y − 1). Machine-integer overflow is not modelled (the
// quantities compared are lengths and indices).

import (
	"strconv"
	"strings"
)

type dterm struct {
	base string
	off  int64
}

const relInf = int64(1) << 40

type relSys struct {
	idx map[string]int
	d   [][]int64
	neq [][2]dterm
}

// splitArgs splits "a, b, c" at top-level commas (outside parentheses and
// string literals).
func splitArgs(s string) []string {
	var out []string
	depth, start := 0, 0
	for i := 0; i < len(s); i++ {
		switch s[i] {
		case '"':
			for i++; i < len(s) && s[i] != '"'; i++ {
				if s[i] == '\\' {
					i++
				}
			}
		case '(', '[', '{':
			depth++
		case ')', ']', '}':
			depth--
		case ',':
			if depth == 0 && i+1 < len(s) && s[i+1] == ' ' {
				out = append(out, s[start:i])
				start = i + 2
			}
		}
	}
	return append(out, s[start:])
}

// parseCmp reads a key of the form bin:<(A, B) or bin:==(A, B).
func parseCmp(k string) (op string, a, b string, ok bool) {
	for _, o := range []string{"<", "=="} {
		pre := "bin:" + o + "("
		if strings.HasPrefix(k, pre) && strings.HasSuffix(k, ")") {
			args := splitArgs(k[len(pre) : len(k)-1])
			if len(args) == 2 {
				return o, args[0], args[1], true
			}
		}
	}
	return "", "", "", false
}

func decomposeKey(k string) dterm {
	if n, err := strconv.ParseInt(k, 10, 64); err == nil {
		return dterm{"0", n}
	}
	for _, o := range []string{"+", "-"} {
		pre := "bin:" + o + "("
		if strings.HasPrefix(k, pre) && strings.HasSuffix(k, ")") {
			args := splitArgs(k[len(pre) : len(k)-1])
			if len(args) == 2 {
				if n, err := strconv.ParseInt(args[1], 10, 64); err == nil {
					d := decomposeKey(args[0])
					if o == "+" {
						d.off += n
					} else {
						d.off -= n
					}
					return d
				}
				if n, err := strconv.ParseInt(args[0], 10, 64); err == nil && o == "+" {
					d := decomposeKey(args[1])
					d.off += n
					return d
				}
			}
		}
	}
	return dterm{k, 0}
}

// cmpOperands maps a comparison to integer operands; a string compared with
// "" is a comparison of its length with 0.
func cmpOperands(op, a, b string) (dterm, dterm, bool) {
	if op == "==" {
		if b == `""` {
			return dterm{"len:builtin.len(" + a + ")", 0}, dterm{"0", 0}, true
		}
		if a == `""` {
			return dterm{"len:builtin.len(" + b + ")", 0}, dterm{"0", 0}, true
		}
		if strings.HasPrefix(a, "\"") || strings.HasPrefix(b, "\"") {
			return dterm{}, dterm{}, false
		}
	}
	return decomposeKey(a), decomposeKey(b), true
}

func (r *relSys) node(b string) int {
	if i, ok := r.idx[b]; ok {
		return i
	}
	i := len(r.idx)
	r.idx[b] = i
	for j := range r.d {
		r.d[j] = append(r.d[j], relInf)
	}
	row := make([]int64, i+1)
	for j := range row {
		row[j] = relInf
	}
	row[i] = 0
	r.d = append(r.d, row)
	if strings.HasPrefix(b, "len:") || strings.HasPrefix(b, "conv:uint(") {
		z := r.node("0")
		r.le(z, i, 0) // 0 − len ≤ 0
	}
	if strings.HasPrefix(b, "call:strings.Index") || strings.HasPrefix(b, "call:strings.LastIndex") || strings.HasPrefix(b, "call:bytes.Index") {
		z := r.node("0")
		r.le(z, i, 1) // 0 − index ≤ 1: an index is −1 or a position
	}
	return i
}

// le records x − y ≤ k.
func (r *relSys) le(x, y int, k int64) {
	if k < r.d[x][y] {
		r.d[x][y] = k
	}
}

func (r *relSys) close() {
	n := len(r.d)
	for k := 0; k < n; k++ {
		for i := 0; i < n; i++ {
			if r.d[i][k] >= relInf {
				continue
			}
			for j := 0; j < n; j++ {
				if r.d[k][j] < relInf && r.d[i][k]+r.d[k][j] < r.d[i][j] {
					r.d[i][j] = r.d[i][k] + r.d[k][j]
				}
			}
		}
	}
}

func newRelSys(atoms []Atom) *relSys {
	r := &relSys{idx: map[string]int{}}
	r.node("0")
	for _, at := range atoms {
		op, a, b, ok := parseCmp(at.T.Key())
		if !ok {
			continue
		}
		x, y, ok := cmpOperands(op, a, b)
		if !ok {
			continue
		}
		xi, yi := r.node(x.base), r.node(y.base)
		// x.base + x.off  ?  y.base + y.off
		switch {
		case op == "<" && at.Pos: // x < y: xb − yb ≤ yo − xo − 1
			r.le(xi, yi, y.off-x.off-1)
		case op == "<": // y ≤ x: yb − xb ≤ xo − yo
			r.le(yi, xi, x.off-y.off)
		case at.Pos: // x == y
			r.le(xi, yi, y.off-x.off)
			r.le(yi, xi, x.off-y.off)
		default:
			r.neq = append(r.neq, [2]dterm{x, y})
		}
	}
	for round := 0; round < 4; round++ {
		r.close()
		changed := false
		for _, ne := range r.neq {
			xi, yi := r.idx[ne[0].base], r.idx[ne[1].base]
			if xi == yi {
				continue
			}
			// x ≤ y known exactly at the boundary ⇒ x ≤ y − 1, and symmetrically
			if r.d[xi][yi] == ne[1].off-ne[0].off {
				r.d[xi][yi]--
				changed = true
			}
			if r.d[yi][xi] == ne[0].off-ne[1].off {
				r.d[yi][xi]--
				changed = true
			}
		}
		if !changed {
			break
		}
	}
	return r
}

// query answers a comparison from the closure.
func (r *relSys) query(op string, x, y dterm) int {
	xi, okx := r.idx[x.base]
	yi, oky := r.idx[y.base]
	if x.base == y.base {
		// pure constants
		switch {
		case op == "<" && x.off < y.off, op == "==" && x.off == y.off:
			return 1
		default:
			return -1
		}
	}
	if !okx || !oky {
		return 0
	}
	ub := r.d[xi][yi] // xb − yb ≤ ub
	lb := r.d[yi][xi] // yb − xb ≤ lb  ⇒ xb − yb ≥ −lb
	// x ? y  ⇔  (xb − yb) ? (y.off − x.off)
	c := y.off - x.off
	switch op {
	case "<":
		if ub < relInf && ub <= c-1 {
			return 1
		}
		if lb < relInf && -lb >= c {
			return -1
		}
	case "==":
		if ub < relInf && lb < relInf && ub == c && -lb == c {
			return 1
		}
		if (ub < relInf && ub < c) || (lb < relInf && -lb > c) {
			return -1
		}
		for _, ne := range r.neq {
			if ne[0].base == x.base && ne[1].base == y.base && ne[1].off-ne[0].off == c {
				return -1
			}
			if ne[0].base == y.base && ne[1].base == x.base && ne[0].off-ne[1].off == c {
				return -1
			}
		}
	}
	return 0
}

// entails answers whether the atoms fix the comparison with key k.
func entails(atoms []Atom, cache **relSys, k string) int {
	op, a, b, ok := parseCmp(k)
	if !ok {
		return 0
	}
	x, y, ok := cmpOperands(op, a, b)
	if !ok {
		return 0
	}
	if *cache == nil {
		*cache = newRelSys(atoms)
	}
	return (*cache).query(op, x, y)
}
