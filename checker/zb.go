package main

// ZB — bounds obligations. Every index and slice operation on every path
// summary of a function yields the obligations 0 ≤ i < len(x) resp.
// 0 ≤ lo ≤ hi ≤ len(x). They are discharged by a small difference/linear
// reasoning over provenance terms: facts come from the branch conditions that
// precede the operation on the path, from the arithmetic structure of terms
// (len of slices, literals and appends), from postconditions of an audited
// list of library functions, from recognised induction variables, and from
// named structural invariants of the module (each checked by a rule of its
// own). A goal is proved when it is a non-negative combination of at most
// three facts plus a non-negative constant.

import (
	"fmt"
	"go/types"
	"sort"
	"strconv"
	"strings"
)

// lin is a linear expression c + Σ coef[v]·v over opaque term keys.
type lin struct {
	c    int64
	coef map[string]int64
}

func (l lin) String() string {
	var ks []string
	for k, v := range l.coef {
		if v != 0 {
			ks = append(ks, fmt.Sprintf("%+d·%s", v, k))
		}
	}
	sort.Strings(ks)
	return fmt.Sprintf("%d %s", l.c, strings.Join(ks, " "))
}

func linConst(c int64) lin { return lin{c: c, coef: map[string]int64{}} }

func (l lin) add(m lin, k int64) lin {
	out := lin{c: l.c + k*m.c, coef: map[string]int64{}}
	for v, c := range l.coef {
		out.coef[v] = c
	}
	for v, c := range m.coef {
		out.coef[v] += k * c
		if out.coef[v] == 0 {
			delete(out.coef, v)
		}
	}
	return out
}

func (l lin) isConst() bool { return len(l.coef) == 0 }

// zbCtx accumulates facts (each a lin known to be ≥ 0) for one path.
type zbCtx struct {
	facts []lin
	why   []string
	seen  map[string]bool
	terms map[string]*Term // atoms encountered while linearising
}

func newZB() *zbCtx { return &zbCtx{seen: map[string]bool{}, terms: map[string]*Term{}} }

func (z *zbCtx) fact(l lin, why string) {
	k := l.String()
	if z.seen[k] {
		return
	}
	z.seen[k] = true
	z.facts = append(z.facts, l)
	z.why = append(z.why, why)
}

func (z *zbCtx) eq(a, b lin, why string) {
	z.fact(a.add(b, -1), why)
	z.fact(b.add(a, -1), why)
}

// lin linearises an integer-valued term; unknown sub-terms become atoms.
func (z *zbCtx) lin(t *Term) lin {
	switch {
	case t.Op == "const":
		if v, err := strconv.ParseInt(t.Name, 10, 64); err == nil {
			return linConst(v)
		}
	case t.Op == "bin" && t.Name == "+":
		return z.lin(t.Args[0]).add(z.lin(t.Args[1]), 1)
	case t.Op == "bin" && t.Name == "-":
		return z.lin(t.Args[0]).add(z.lin(t.Args[1]), -1)
	case t.Op == "conv" && len(t.Args) == 1 && (t.Name == "int" || t.Name == "uint"):
		// value-preserving for the non-negative lengths involved (recorded as an axiom)
		return z.lin(t.Args[0])
	case t.Op == "len" && len(t.Args) == 1:
		return z.linLen(t.Args[0])
	}
	return z.atom(t)
}

func (z *zbCtx) atom(t *Term) lin {
	k := t.Key()
	if _, ok := z.terms[k]; !ok {
		z.terms[k] = t
		z.axioms(t)
	}
	return lin{coef: map[string]int64{k: 1}}
}

// linLen linearises len(x).
func (z *zbCtx) linLen(x *Term) lin {
	switch {
	case x.Op == "const" && (x.Name == "nil" || x.Name == `""`):
		return linConst(0)
	case x.Op == "const" && strings.HasPrefix(x.Name, `"`):
		if s, ok := x.ConstString(); ok {
			return linConst(int64(len(s)))
		}
	case x.Op == "lit":
		return linConst(int64(len(x.Args)))
	case x.Op == "append" && len(x.Args) == 2:
		return z.linLen(x.Args[0]).add(z.linLen(x.Args[1]), 1)
	case x.Op == "slice" && len(x.Args) == 4:
		lo := linConst(0)
		if !x.Args[1].IsConst("_") {
			lo = z.lin(x.Args[1])
		}
		hi := z.linLen(x.Args[0])
		if !x.Args[2].IsConst("_") {
			hi = z.lin(x.Args[2])
		}
		return hi.add(lo, -1)
	case x.Op == "ext" && x.Args[0].Op == "call":
		c := x.Args[0]
		switch c.Name {
		case "strings.CutPrefix":
			// #0 is s without the prefix when found; never longer than s
			if x.Idx == 0 {
				l := z.atom(mk("len", "builtin.len", x))
				z.fact(z.linLen(c.Args[0]).add(l, -1), "len(CutPrefix(s,p)#0) ≤ len(s)")
				return l
			}
		}
	case x.Op == "call" && (x.Name == "slices.Insert" || strings.HasPrefix(x.Name, "slices.Insert[")) && len(x.Args) == 3 && x.Args[2].Op == "lit":
		// slices.Insert(s, i, v...) has len(s)+len(v) elements
		return z.linLen(x.Args[0]).add(linConst(int64(len(x.Args[2].Args))), 1)
	case x.Op == "call" && x.Name == "strings.TrimSuffix":
		l := z.atom(mk("len", "builtin.len", x))
		z.fact(z.linLen(x.Args[0]).add(l, -1), "len(TrimSuffix(s,p)) ≤ len(s)")
		return l
	}
	l := z.atom(mk("len", "builtin.len", x))
	return l
}

// axioms adds the facts that hold for a term by construction.
func (z *zbCtx) axioms(t *Term) {
	self := lin{coef: map[string]int64{t.Key(): 1}}
	if t.Type != nil {
		if b, ok := t.Type.Underlying().(*types.Basic); ok && b.Info()&types.IsUnsigned != 0 {
			z.fact(self, "unsigned value ≥ 0")
		}
	}
	switch {
	case t.Op == "len":
		z.fact(self, "len ≥ 0")
	case t.Op == "call" && t.Name == "strings.IndexByte" && len(t.Args) == 2:
		z.fact(self.add(linConst(1), 1), "IndexByte ≥ -1")
		z.fact(z.linLen(t.Args[0]).add(self, -1).add(linConst(1), -1), "IndexByte ≤ len-1")
	case t.Op == "ext" && t.Idx == 0 && t.Args[0].Op == "call" && t.Args[0].Name == "slices.BinarySearch":
		z.fact(self, "BinarySearch index ≥ 0")
		z.fact(z.linLen(t.Args[0].Args[0]).add(self, -1), "BinarySearch index ≤ len")
	case t.Op == "min" && len(t.Args) == 2:
		z.fact(z.lin(t.Args[0]).add(self, -1), "min(a,b) ≤ a")
		z.fact(z.lin(t.Args[1]).add(self, -1), "min(a,b) ≤ b")
		// and min is one of them: if both are ≥ k then min ≥ k — handled for constants
		a, b := z.lin(t.Args[0]), z.lin(t.Args[1])
		if a.isConst() && b.isConst() {
			m := a.c
			if b.c < m {
				m = b.c
			}
			z.eq(self, linConst(m), "min of constants")
		}
	case t.Op == "max" && len(t.Args) == 2:
		z.fact(self.add(z.lin(t.Args[0]), -1), "max(a,b) ≥ a")
		z.fact(self.add(z.lin(t.Args[1]), -1), "max(a,b) ≥ b")
	}
}

// minLower: min(a,b) ≥ k when both a ≥ k and b ≥ k are provable.
func (z *zbCtx) minLower(t *Term, k int64) bool {
	if t.Op != "min" || len(t.Args) != 2 {
		return false
	}
	return z.prove(z.lin(t.Args[0]).add(linConst(k), -1)) && z.prove(z.lin(t.Args[1]).add(linConst(k), -1))
}

// addAtom turns a path condition into facts.
func (z *zbCtx) addAtom(a Atom) {
	t := a.T
	if t.Op != "bin" || len(t.Args) != 2 {
		return
	}
	// s == "" is len(s) == 0; s != "" is len(s) ≥ 1
	if t.Name == "==" && (t.Args[1].IsConst(`""`) || t.Args[0].IsConst(`""`)) {
		s := t.Args[0]
		if s.IsConst(`""`) {
			s = t.Args[1]
		}
		l := z.linLen(s)
		if a.Pos {
			z.eq(l, linConst(0), a.String())
		} else {
			z.fact(l.add(linConst(1), -1), a.String())
		}
		return
	}
	if !isIntegerish(t.Args[0]) && !isIntegerish(t.Args[1]) {
		return
	}
	l, r := z.lin(t.Args[0]), z.lin(t.Args[1])
	switch t.Name {
	case "<":
		if a.Pos {
			z.fact(r.add(l, -1).add(linConst(1), -1), a.String()) // r - l - 1 ≥ 0
		} else {
			z.fact(l.add(r, -1), a.String()) // l - r ≥ 0
		}
	case "==":
		if a.Pos {
			z.eq(l, r, a.String())
		}
	}
}

func isIntegerish(t *Term) bool {
	switch t.Op {
	case "len", "min", "max":
		return true
	case "const":
		_, err := strconv.ParseInt(t.Name, 10, 64)
		return err == nil
	case "bin":
		return t.Name == "+" || t.Name == "-"
	case "conv":
		return t.Name == "int" || t.Name == "uint"
	}
	if t.Type != nil {
		if b, ok := t.Type.Underlying().(*types.Basic); ok {
			return b.Info()&types.IsInteger != 0
		}
	}
	return t.Op == "loopphi" || t.Op == "call" || t.Op == "ext"
}

// prove: is goal ≥ 0 a consequence of the facts? goal = Σ λi·fact_i + c with
// λi ∈ {1,2}, at most three facts, c ≥ 0.
func (z *zbCtx) prove(goal lin) bool {
	if goal.isConst() {
		return goal.c >= 0
	}
	n := len(z.facts)
	ok := func(rest lin) bool { return rest.isConst() && rest.c >= 0 }
	relevant := func(f lin, g lin) bool {
		for v := range f.coef {
			if _, in := g.coef[v]; in {
				return true
			}
		}
		return false
	}
	for i := 0; i < n; i++ {
		if !relevant(z.facts[i], goal) {
			continue
		}
		for _, li := range []int64{1, 2} {
			r1 := goal.add(z.facts[i], -li)
			if ok(r1) {
				return true
			}
			for j := 0; j < n; j++ {
				if j == i || !relevant(z.facts[j], r1) {
					continue
				}
				r2 := r1.add(z.facts[j], -1)
				if ok(r2) {
					return true
				}
				for k := j + 1; k < n; k++ {
					if k == i || !relevant(z.facts[k], r2) {
						continue
					}
					r3 := r2.add(z.facts[k], -1)
					if ok(r3) {
						return true
					}
					for m := k + 1; m < n; m++ {
						if m == i || m == j || !relevant(z.facts[m], r3) {
							continue
						}
						if ok(r3.add(z.facts[m], -1)) {
							return true
						}
					}
				}
			}
		}
	}
	return false
}
