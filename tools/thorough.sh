#!/bin/sh
# thorough tier of one property: both-ways self-test of the checker on the
# variant corpus (firing variants that name this property, and every silent
# variant), on the kept seeded changes that target it and on the
# behaviour-preserving refactorings (which must all stay silent), then the
# check itself on /repo under three load configurations. Scratch copies live under
# mktemp directories and are removed.
id="$1"
cd "$(dirname "$0")/.." || exit 2
tmp=$(mktemp -d)
trap 'rm -rf "$tmp"' EXIT
python3 tools/variants.py --props "$id" --for "$id" --json "$tmp/variants.json" > "$tmp/variants.log" 2>&1
vrc=$?
python3 tools/seeds.py -j 8 --for "$id" --json "$tmp/seeds.json" > "$tmp/seeds.log" 2>&1
src=$?
python3 tools/refactors.py --for "$id" -j 8 --json "$tmp/refactors.json" > "$tmp/refactors.log" 2>&1
rrc=$?
python3 - "$tmp" <<'PY'
import json, sys, os
t = sys.argv[1]
out = {}
for n in ("variants", "seeds", "refactors"):
    try:
        out[n] = json.load(open(os.path.join(t, n + ".json")))
    except Exception as e:
        out[n] = {"error": str(e)}
json.dump(out, open(os.path.join(t, "selftest.json"), "w"))
PY
VERIF_SELFTEST="$tmp/selftest.json" bin/corscheck -property "$id" -tier thorough
rc=$?
if [ $rc -eq 0 ] && { [ $vrc -ne 0 ] || [ $src -ne 0 ] || [ $rrc -ne 0 ]; }; then
  echo "SELFTEST-FAILED property=$id (the checker did not behave as expected on its variant corpus / seeded changes; see below)"
  tail -n 5 "$tmp/variants.log" "$tmp/seeds.log" "$tmp/refactors.log"
  exit 2
fi
exit $rc
