#!/usr/bin/env python3
"""Run the claimed checks against behaviour-preserving refactorings.

usage: refactors.py [--for Cxx] [--only NAME] [--json out.json] [-j N] [<dir>...]
Every <dir>/*.diff (default: /verif/refactors) is applied to a scratch copy of
/repo's working tree (outside /repo and /verif, removed afterwards); every
check must stay silent on it. The refactorings were written by sub-agents that
saw only the library, and each was confirmed to build and to pass the suite.
"""
import glob, json, os, shutil, subprocess, sys, tempfile
from concurrent.futures import ThreadPoolExecutor

ENV = dict(os.environ, GOFLAGS="-mod=mod", GOPROXY="off", GOSUMDB="off", GOTOOLCHAIN="local", GOWORK="off")
VERIF = "/verif"


def run(cmd, cwd=None):
    p = subprocess.run(cmd, cwd=cwd, env=ENV, stdout=subprocess.PIPE, stderr=subprocess.STDOUT, text=True, errors="replace")
    return p.returncode, p.stdout


def one(diff, props):
    tmp = tempfile.mkdtemp(prefix="corsrf-")
    try:
        repo = os.path.join(tmp, "repo")
        shutil.copytree("/repo", repo, ignore=shutil.ignore_patterns(".git"))
        rc, o = run(["git", "apply", diff], cwd=repo)
        if rc != 0:
            return dict(diff=diff, skipped="does not apply to the current tree", fired=[], det=[])
        rc, o = run(["go", "build", "./..."], cwd=repo)
        if rc != 0:
            return dict(diff=diff, skipped="does not build on the current tree", fired=[], det=[])
        vd = os.path.join(tmp, "v")
        os.makedirs(vd)
        shutil.copy(os.path.join(VERIF, "KNOWN_FINDINGS.txt"), vd)
        fired, det = [], []
        for pid in props:
            rc, o = run([os.environ.get("CORSCHECK_BIN", os.path.join(VERIF, "bin", "corscheck")), "-repo", repo, "-verif", vd, "-property", pid])
            if rc != 0:
                fired.append(pid)
                ls = o.splitlines()
                for i, l in enumerate(ls):
                    if " FAIL " in l:
                        det.append(l.strip()[:300])
                        if i + 1 < len(ls):
                            det.append("    " + ls[i + 1].strip()[:300])
                        break
        return dict(diff=diff, skipped=None, fired=fired, det=det)
    finally:
        shutil.rmtree(tmp, ignore_errors=True)


def main():
    args = sys.argv[1:]
    only_for = only = json_out = None
    jobs = 6
    dirs = []
    i = 0
    while i < len(args):
        a = args[i]
        if a == "--for":
            only_for = args[i + 1]; i += 2
        elif a == "--only":
            only = args[i + 1]; i += 2
        elif a == "--json":
            json_out = args[i + 1]; i += 2
        elif a == "-j":
            jobs = int(args[i + 1]); i += 2
        else:
            dirs.append(a); i += 1
    if not dirs:
        dirs = [os.path.join(VERIF, "refactors")]
    m = json.load(open(os.path.join(VERIF, "MANIFEST.json")))
    props = [c["property_id"] for c in m["checks"]]
    if only_for:
        props = [only_for]
    diffs = []
    for d in dirs:
        for diff in sorted(glob.glob(os.path.join(d, "*.diff"))):
            if only and os.path.basename(diff) != only + ".diff":
                continue
            diffs.append(diff)
    with ThreadPoolExecutor(max_workers=jobs) as ex:
        results = list(ex.map(lambda d: one(d, props), diffs))
    bad = 0
    for r in results:
        name = os.path.basename(r["diff"])
        if r["skipped"]:
            print(f"SKIP {name}: {r['skipped']}")
            continue
        if r["fired"]:
            bad += 1
        print(f"{'FIRE' if r['fired'] else 'ok  '} {name}: {','.join(r['fired']) or '-'}")
        for l in r["det"][:8]:
            print("      ", l)
    print("refactorings run:", len([r for r in results if not r["skipped"]]), "on which a check fired:", bad)
    if json_out:
        json.dump({"refactorings_run": len(results), "fired": bad, "results": results}, open(json_out, "w"))
    return 1 if bad else 0


if __name__ == "__main__":
    sys.exit(main())
