#!/bin/sh
# Run every claimed quick check in parallel; usage: runall.sh [repo-dir [verif-out-dir]]
# (defaults: /repo and /verif, i.e. the registered commands; with other
# directories the evidence goes to the given scratch directory).
REPO=${1:-/repo}
OUT=${2:-/verif}
export GOFLAGS=-mod=mod GOPROXY=off GOSUMDB=off GOTOOLCHAIN=local
unset GOWORK
[ -f "$OUT/KNOWN_FINDINGS.txt" ] || { mkdir -p "$OUT"; cp /verif/KNOWN_FINDINGS.txt "$OUT/"; }
seq -w 1 19 | xargs -P 8 -I{} sh -c "/verif/bin/corscheck -repo $REPO -verif $OUT -property C{} -tier quick 2>&1 | grep -E ' PASS| FAIL|VIOLATION|KNOWN-FINDING' -A1 | grep -v '^--' | head -8" | sort
