#!/usr/bin/env python3
"""Re-run the registered checks against every kept seeded change.

For each /verif/seeded/<name>/patch.diff: fresh scratch worktree of /repo,
apply, run bin/corscheck for every claimed property (evidence goes to a
scratch directory), record in meta.json which properties report it, remove
the worktree.  usage: seeds.py [--only NAME] [--match SUBSTR] [--for Cxx] [--update] [-j N]
"""
import json, os, shutil, subprocess, sys, tempfile

ENV = dict(os.environ, GOFLAGS="-mod=mod", GOPROXY="off", GOSUMDB="off", GOTOOLCHAIN="local", GOWORK="off")
VERIF = "/verif"


def run(cmd, cwd=None):
    p = subprocess.run(cmd, cwd=cwd, env=ENV, stdout=subprocess.PIPE, stderr=subprocess.STDOUT, text=True, errors="replace")
    return p.returncode, p.stdout


def main():
    args = sys.argv[1:]
    only = args[args.index("--only") + 1] if "--only" in args else None
    update = "--update" in args
    match = args[args.index("--match") + 1] if "--match" in args else None
    only_for = args[args.index("--for") + 1] if "--for" in args else None
    json_out = args[args.index("--json") + 1] if "--json" in args else None
    results = []
    m = json.load(open(os.path.join(VERIF, "MANIFEST.json")))
    props = [c["property_id"] for c in m["checks"]]
    missed = 0
    jobs = int(args[args.index("-j") + 1]) if "-j" in args else 1
    todo = []
    for name in sorted(os.listdir(os.path.join(VERIF, "seeded"))):
        d = os.path.join(VERIF, "seeded", name)
        if only and name != only or not os.path.exists(os.path.join(d, "patch.diff")):
            continue
        if match and match not in name:
            continue
        meta = json.load(open(os.path.join(d, "meta.json")))
        if only_for and meta["property"] != only_for:
            continue
        todo.append((name, d, meta))
    if only_for:
        props = [only_for]

    def one(item):
        name, d, meta = item
        wt = tempfile.mkdtemp(prefix="seedrun-")
        os.rmdir(wt)
        vd = tempfile.mkdtemp(prefix="seedverif-")
        try:
            # a scratch copy of /repo's current working tree (not a git worktree:
            # nothing under /repo is touched)
            shutil.copytree("/repo", wt, ignore=shutil.ignore_patterns(".git"))
            rc, o = run(["git", "apply", os.path.join(d, "patch.diff")], cwd=wt)
            assert rc == 0, o
            shutil.copy(os.path.join(VERIF, "KNOWN_FINDINGS.txt"), vd)
            fired, details = [], {}
            for pid in props:
                rc, o = run([os.environ.get("CORSCHECK_BIN", os.path.join(VERIF, "bin", "corscheck")), "-repo", wt, "-verif", vd, "-property", pid])
                if rc != 0:
                    fired.append(pid)
                    details[pid] = [l.strip()[:400] for l in o.splitlines() if " FAIL " in l][:3]
        finally:
            shutil.rmtree(wt, ignore_errors=True)
            shutil.rmtree(vd, ignore_errors=True)
        return name, d, meta, fired, details

    from concurrent.futures import ThreadPoolExecutor
    with ThreadPoolExecutor(max_workers=jobs) as ex:
        done = list(ex.map(one, todo))
    for name, d, meta, fired, details in done:
        hit = meta["property"] in fired
        documented = bool(meta.get("documented_miss"))
        if not hit and not documented:
            missed += 1
        results.append({"seed": name, "target": meta["property"], "reported_by": fired, "reported_by_target": hit, "documented_miss": meta.get("documented_miss")})
        print(f"{'ok  ' if hit else ('miss (documented)' if documented else 'MISS')} {name:45s} target={meta['property']} reported_by={','.join(fired) or '-'}")
        if "-v" in args:
            for pid, ls in details.items():
                for l in ls[:1]:
                    print("      ", l[:260])
        if update:
            meta["reported_by"], meta["reports"], meta["detected_by_target_property"] = fired, details, hit
            json.dump(meta, open(os.path.join(d, "meta.json"), "w"), indent=1)
    print("seeds not reported by their target property (documented misses excluded):", missed)
    if json_out:
        json.dump({"seeds_run": len(results), "missed": missed, "results": results}, open(json_out, "w"))
    return 1 if (only_for and missed) else 0


if __name__ == "__main__":
    sys.exit(main())
