#!/usr/bin/env python3
"""Systematic self-test of the checks: single-token mutants of /repo.

usage: mutants.py [-j JOBS] [--kinds k1,k2] [--ids a,b,c | --sample N --seed S] [--json out.json]
For every mutation point listed by tools/mutgen (relational/logical operator
swaps, dropped negations, negated conditions, integer literals ±1, boolean
literals, continue/break, ++/--, dropped method-call statements) the mutant is
built in a scratch copy of /repo (outside /repo and /verif, removed afterwards).
Mutants that do not compile are discarded; the unedited test suite is run on
the others; on the SURVIVORS of the suite — the mutants tests cannot tell from
the original — every check is run. A survivor no check reports is either an
equivalent mutant, outside the 19 properties, or a gap: they are listed for
triage. Nothing here decides a property; it measures the machinery.
"""
import json, os, random, shutil, subprocess, sys, tempfile
from concurrent.futures import ThreadPoolExecutor

ENV = dict(os.environ, GOFLAGS="-mod=mod", GOPROXY="off", GOSUMDB="off", GOTOOLCHAIN="local", GOWORK="off")
VERIF = "/verif"
BIN = os.environ.get("CORSCHECK_BIN", os.path.join(VERIF, "bin", "corscheck"))
MUTGEN = os.environ.get("MUTGEN_BIN", "/tmp/mutgen")


def run(cmd, cwd=None, timeout=300):
    try:
        p = subprocess.run(cmd, cwd=cwd, env=ENV, stdout=subprocess.PIPE, stderr=subprocess.STDOUT, text=True, errors="replace", timeout=timeout)
        return p.returncode, p.stdout
    except subprocess.TimeoutExpired:
        return 124, "timeout"


def one(mid, desc, props):
    tmp = tempfile.mkdtemp(prefix="corsmut-")
    try:
        repo = os.path.join(tmp, "repo")
        shutil.copytree("/repo", repo, ignore=shutil.ignore_patterns(".git"))
        run([MUTGEN, "apply", repo, str(mid)])
        rc, o = run(["go", "build", "./..."], cwd=repo)
        if rc != 0:
            return dict(id=mid, desc=desc, status="does-not-compile")
        rc, o = run(["go", "test", "-vet=off", "-count=1", "-timeout", "90s", "./..."], cwd=repo, timeout=200)
        if rc != 0:
            return dict(id=mid, desc=desc, status="killed-by-tests")
        vd = os.path.join(tmp, "v")
        os.makedirs(vd)
        shutil.copy(os.path.join(VERIF, "KNOWN_FINDINGS.txt"), vd)
        fired, first = [], {}
        for pid in props:
            rc, o = run([BIN, "-repo", repo, "-verif", vd, "-property", pid])
            if rc != 0:
                fired.append(pid)
                for l in o.splitlines():
                    if " FAIL " in l:
                        first[pid] = l.strip()[:200]
                        break
        return dict(id=mid, desc=desc, status="survivor", fired=fired, first=first)
    finally:
        shutil.rmtree(tmp, ignore_errors=True)


def main():
    args = sys.argv[1:]
    jobs, ids, sample, seed, json_out, kinds = 8, None, None, 1, None, None
    i = 0
    while i < len(args):
        a = args[i]
        if a == "-j":
            jobs = int(args[i + 1]); i += 2
        elif a == "--ids":
            ids = [int(x) for x in args[i + 1].split(",")]; i += 2
        elif a == "--sample":
            sample = int(args[i + 1]); i += 2
        elif a == "--seed":
            seed = int(args[i + 1]); i += 2
        elif a == "--json":
            json_out = args[i + 1]; i += 2
        elif a == "--kinds":
            kinds = set(args[i + 1].split(",")); i += 2
        else:
            i += 1
    if not os.path.exists(MUTGEN):
        rc, o = run(["go", "build", "-o", MUTGEN, "."], cwd=os.path.join(VERIF, "tools", "mutgen"))
        assert rc == 0, o
    rc, listing = run([MUTGEN, "list", "/repo"])
    muts = {}
    for l in listing.splitlines():
        parts = l.split("\t")
        if len(parts) >= 4:
            muts[int(parts[0])] = "\t".join(parts[1:])
    todo = sorted(muts)
    if kinds:
        todo = [k for k in todo if muts[k].split("\t")[1] in kinds]
    if ids:
        todo = ids
    elif sample:
        todo = sorted(random.Random(seed).sample(todo, min(sample, len(todo))))
    m = json.load(open(os.path.join(VERIF, "MANIFEST.json")))
    props = [c["property_id"] for c in m["checks"]]
    with ThreadPoolExecutor(max_workers=jobs) as ex:
        results = list(ex.map(lambda k: one(k, muts[k], props), todo))
    tally = {}
    for r in results:
        k = r["status"]
        if k == "survivor":
            k = "survivor-reported" if r["fired"] else "survivor-UNREPORTED"
        tally[k] = tally.get(k, 0) + 1
    for r in results:
        if r["status"] == "survivor":
            print(f"{'reported  ' if r['fired'] else 'UNREPORTED'} #{r['id']}\t{r['desc']}\t{','.join(r['fired']) or '-'}")
    print("mutants:", len(results), tally)
    if json_out:
        json.dump(dict(mutants=len(results), tally=tally, results=results), open(json_out, "w"), indent=1)
    return 0


if __name__ == "__main__":
    sys.exit(main())
