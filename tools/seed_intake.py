#!/usr/bin/env python3
"""Intake of a seeded change produced by a sub-agent.

usage: seed_intake.py <property-id> <src-dir-with-_seed> <seed-name> "<needs>"

Verifies, in a fresh scratch worktree of /repo (removed afterwards):
  - the patch applies and the module builds,
  - the existing suite passes with the change,
  - the demonstration fails with the change and passes without it,
then runs every registered check of /verif against the changed tree and
records which properties report it.  Results go to /verif/seeded/<seed-name>/.
"""
import json, os, shutil, subprocess, sys, tempfile

ENV = dict(os.environ, GOFLAGS="-mod=mod", GOPROXY="off", GOSUMDB="off", GOTOOLCHAIN="local", GOWORK="off")
VERIF = "/verif"


def run(cmd, cwd=None, timeout=900):
    p = subprocess.run(cmd, cwd=cwd, env=ENV, stdout=subprocess.PIPE, stderr=subprocess.STDOUT, text=True, errors="replace", timeout=timeout)
    return p.returncode, p.stdout


def main():
    prop, src, name, needs = sys.argv[1:5]
    seed = os.path.join(src, "_seed")
    out = os.path.join(VERIF, "seeded", name)
    os.makedirs(out, exist_ok=True)
    patch = os.path.join(seed, "patch.diff")
    demo_rel = open(os.path.join(seed, "demo_path.txt")).read().strip()
    demo_src = os.path.join(seed, os.path.basename(demo_rel))
    if not os.path.exists(demo_src):
        demo_src = os.path.join(src, demo_rel)
    shutil.copy(patch, os.path.join(out, "patch.diff"))
    shutil.copy(demo_src, os.path.join(out, os.path.basename(demo_rel)))
    if os.path.exists(os.path.join(seed, "NOTES.md")):
        shutil.copy(os.path.join(seed, "NOTES.md"), os.path.join(out, "NOTES.md"))
    wt = tempfile.mkdtemp(prefix="seedverify-")
    os.rmdir(wt)
    ran = []
    meta = {"property": prop, "name": name, "needs_to_manifest": needs, "demo": demo_rel}
    try:
        rc, o = run(["git", "-C", "/repo", "worktree", "add", "-q", "--detach", wt, "HEAD"])
        assert rc == 0, o
        rc, o = run(["git", "apply", os.path.join(out, "patch.diff")], cwd=wt)
        ran.append("git apply patch.diff -> %d" % rc)
        assert rc == 0, o
        rc, o = run(["go", "build", "./..."], cwd=wt)
        ran.append("go build ./... -> %d" % rc)
        meta["builds"] = rc == 0
        rc, o = run(["go", "test", "-vet=off", "-count=1", "./..."], cwd=wt)
        ran.append("go test -vet=off -count=1 ./... (suite, change applied, demo absent) -> %d" % rc)
        meta["suite_passes_with_change"] = rc == 0
        pkgdir = os.path.dirname(demo_rel) or "."
        shutil.copy(os.path.join(out, os.path.basename(demo_rel)), os.path.join(wt, demo_rel))
        rc, o = run(["go", "test", "-vet=off", "-count=1", "./" + pkgdir], cwd=wt)
        ran.append("go test ./%s (demo present, change applied) -> %d" % (pkgdir, rc))
        meta["demo_fails_with_change"] = rc != 0
        meta["demo_output_with_change"] = "\n".join([l for l in o.splitlines() if "FAIL" in l or "---" in l or "zz_seeded" in l][:12])
        rc, o = run(["git", "apply", "-R", os.path.join(out, "patch.diff")], cwd=wt)
        assert rc == 0, o
        rc, o = run(["go", "test", "-vet=off", "-count=1", "./" + pkgdir], cwd=wt)
        ran.append("go test ./%s (demo present, change reverted) -> %d" % (pkgdir, rc))
        meta["demo_passes_without_change"] = rc == 0
        os.remove(os.path.join(wt, demo_rel))
        rc, o = run(["git", "apply", os.path.join(out, "patch.diff")], cwd=wt)
        assert rc == 0, o
        # run the checks against the changed tree
        m = json.load(open(os.path.join(VERIF, "MANIFEST.json")))
        vd = tempfile.mkdtemp(prefix="seedverif-")
        shutil.copy(os.path.join(VERIF, "KNOWN_FINDINGS.txt"), vd)
        fired, details = [], {}
        for c in m["checks"]:
            pid = c["property_id"]
            rc, o = run([os.environ.get("CORSCHECK_BIN", os.path.join(VERIF, "bin", "corscheck")), "-repo", wt, "-verif", vd, "-property", pid])
            if rc != 0:
                fired.append(pid)
                details[pid] = [l.strip()[:400] for l in o.splitlines() if " FAIL " in l][:3]
        shutil.rmtree(vd, ignore_errors=True)
        ran.append("bin/corscheck -repo <scratch worktree with the change> -property <each claimed property>")
        meta["reported_by"] = fired
        meta["reports"] = details
        meta["detected_by_target_property"] = prop in fired
    finally:
        run(["git", "-C", "/repo", "worktree", "remove", "--force", wt])
        shutil.rmtree(wt, ignore_errors=True)
    meta["what_was_run"] = ran
    json.dump(meta, open(os.path.join(out, "meta.json"), "w"), indent=1)
    keep = meta.get("builds") and meta.get("suite_passes_with_change") and meta.get("demo_fails_with_change") and meta.get("demo_passes_without_change")
    print(json.dumps({k: meta[k] for k in ("property", "name", "builds", "suite_passes_with_change", "demo_fails_with_change", "demo_passes_without_change", "reported_by")}, indent=None))
    if not keep:
        print("NOT CONFIRMED — seed should not be kept")
        return 1
    return 0


if __name__ == "__main__":
    sys.exit(main())
