#!/usr/bin/env python3
"""Combine behaviour-preserving refactorings and run the checks on the result.

usage: refactor_combos.py [-n COMBOS] [-k SIZE] [--seed S] [-j JOBS]
Picks COMBOS random subsets of SIZE diffs from /verif/refactors, applies those
that apply on top of one another to a scratch copy of /repo (outside /repo and
/verif, removed afterwards), checks that the result builds, and runs every
claimed check: none may fire (a composition of behaviour-preserving changes
preserves behaviour). Exercises interactions between the normalisations
(renamed anchors + reshaped loops + library models ...).
"""
import glob, json, os, random, shutil, subprocess, sys, tempfile
from concurrent.futures import ThreadPoolExecutor

ENV = dict(os.environ, GOFLAGS="-mod=mod", GOPROXY="off", GOSUMDB="off", GOTOOLCHAIN="local", GOWORK="off")
VERIF = "/verif"
BIN = os.environ.get("CORSCHECK_BIN", os.path.join(VERIF, "bin", "corscheck"))


def run(cmd, cwd=None):
    p = subprocess.run(cmd, cwd=cwd, env=ENV, stdout=subprocess.PIPE, stderr=subprocess.STDOUT, text=True, errors="replace")
    return p.returncode, p.stdout


def one(combo, props):
    tmp = tempfile.mkdtemp(prefix="corscombo-")
    try:
        repo = os.path.join(tmp, "repo")
        shutil.copytree("/repo", repo, ignore=shutil.ignore_patterns(".git"))
        applied = []
        for d in combo:
            rc, _ = run(["git", "apply", d], cwd=repo)
            if rc == 0:
                applied.append(os.path.basename(d)[:-5])
        rc, o = run(["go", "build", "./..."], cwd=repo)
        if rc != 0 or len(applied) < 2:
            return dict(applied=applied, skipped=True, fired=[], det=[])
        rc, o = run(["go", "vet", "./..."], cwd=repo)
        if rc != 0:
            return dict(applied=applied, skipped=True, fired=[], det=[])
        vd = os.path.join(tmp, "v")
        os.makedirs(vd)
        shutil.copy(os.path.join(VERIF, "KNOWN_FINDINGS.txt"), vd)
        fired, det = [], []
        for pid in props:
            rc, o = run([BIN, "-repo", repo, "-verif", vd, "-property", pid])
            if rc != 0:
                fired.append(pid)
                ls = o.splitlines()
                for i, l in enumerate(ls):
                    if " FAIL " in l:
                        det.append(l.strip()[:300])
                        if i + 1 < len(ls):
                            det.append("    " + ls[i + 1].strip()[:300])
                        break
        return dict(applied=applied, skipped=False, fired=fired, det=det)
    finally:
        shutil.rmtree(tmp, ignore_errors=True)


def main():
    args = sys.argv[1:]
    n, k, seed, jobs = 40, 3, 1, 6
    i = 0
    while i < len(args):
        if args[i] == "-n":
            n = int(args[i + 1]); i += 2
        elif args[i] == "-k":
            k = int(args[i + 1]); i += 2
        elif args[i] == "--seed":
            seed = int(args[i + 1]); i += 2
        elif args[i] == "-j":
            jobs = int(args[i + 1]); i += 2
        else:
            i += 1
    rnd = random.Random(seed)
    diffs = sorted(glob.glob(os.path.join(VERIF, "refactors", "*.diff")))
    combos = [rnd.sample(diffs, k) for _ in range(n)]
    m = json.load(open(os.path.join(VERIF, "MANIFEST.json")))
    props = [c["property_id"] for c in m["checks"]]
    with ThreadPoolExecutor(max_workers=jobs) as ex:
        results = list(ex.map(lambda c: one(c, props), combos))
    bad = ran = 0
    for r in results:
        if r["skipped"]:
            continue
        ran += 1
        if r["fired"]:
            bad += 1
        print(f"{'FIRE' if r['fired'] else 'ok  '} {'+'.join(r['applied'])}: {','.join(r['fired']) or '-'}")
        for l in r["det"][:6]:
            print("      ", l)
    print("combinations run:", ran, "on which a check fired:", bad)
    return 1 if bad else 0


if __name__ == "__main__":
    sys.exit(main())
