// mutgen enumerates single-token mutations of the non-test Go files of a
// directory tree (self-test aid for the checker: see tools/mutants.py).
//
//	mutgen list <dir>            prints one line per mutation point: id file:line:col kind old -> new
//	mutgen apply <dir> <id>      rewrites the file of mutation <id> in place
package main

import (
	"fmt"
	"go/ast"
	"go/parser"
	"go/token"
	"os"
	"path/filepath"
	"sort"
	"strconv"
	"strings"
)

type mut struct {
	file     string
	off, end int
	repl     string
	kind     string
	old      string
	line     int
}

func collect(dir string) []mut {
	var files []string
	filepath.Walk(dir, func(p string, info os.FileInfo, err error) error {
		if err != nil {
			return nil
		}
		if info.IsDir() && (strings.HasPrefix(info.Name(), ".") && p != dir || info.Name() == "testdata") {
			return filepath.SkipDir
		}
		if strings.HasSuffix(p, ".go") && !strings.HasSuffix(p, "_test.go") {
			files = append(files, p)
		}
		return nil
	})
	sort.Strings(files)
	var out []mut
	// fields of the structs declared in each package directory: name -> type text, and siblings by type
	type fieldInfo struct{ strct, typ string }
	pkgFields := map[string]map[string]fieldInfo{}
	constBlock := map[string][]string{} // "pkgname.Const" -> the other constants of its declaration block
	for _, f := range files {
		fset := token.NewFileSet()
		af, err := parser.ParseFile(fset, f, nil, 0)
		if err != nil {
			continue
		}
		for _, dcl := range af.Decls {
			gd, ok := dcl.(*ast.GenDecl)
			if !ok || gd.Tok != token.CONST {
				continue
			}
			var names []string
			for _, sp := range gd.Specs {
				for _, nm := range sp.(*ast.ValueSpec).Names {
					names = append(names, nm.Name)
				}
			}
			for _, nm := range names {
				for _, o := range names {
					if o != nm {
						constBlock[af.Name.Name+"."+nm] = append(constBlock[af.Name.Name+"."+nm], o)
					}
				}
			}
		}
		src, _ := os.ReadFile(f)
		d := filepath.Dir(f)
		if pkgFields[d] == nil {
			pkgFields[d] = map[string]fieldInfo{}
		}
		ast.Inspect(af, func(n ast.Node) bool {
			ts, ok := n.(*ast.TypeSpec)
			if !ok {
				return true
			}
			st, ok := ts.Type.(*ast.StructType)
			if !ok {
				return true
			}
			for _, fl := range st.Fields.List {
				tt := string(src[fset.Position(fl.Type.Pos()).Offset:fset.Position(fl.Type.End()).Offset])
				for _, nm := range fl.Names {
					pkgFields[d][nm.Name] = fieldInfo{ts.Name.Name, tt}
				}
			}
			return true
		})
	}
	for _, f := range files {
		fset := token.NewFileSet()
		af, err := parser.ParseFile(fset, f, nil, 0)
		if err != nil {
			continue
		}
		src, _ := os.ReadFile(f)
		rel, _ := filepath.Rel(dir, f)
		add := func(pos token.Pos, n int, repl, kind string) {
			p := fset.Position(pos)
			out = append(out, mut{file: rel, off: p.Offset, end: p.Offset + n, repl: repl, kind: kind, old: string(src[p.Offset : p.Offset+n]), line: p.Line})
		}
		ast.Inspect(af, func(n ast.Node) bool {
			switch x := n.(type) {
			case *ast.GenDecl:
				if x.Tok == token.IMPORT {
					return false
				}
			case *ast.BinaryExpr:
				alts := map[token.Token][]string{
					token.LSS: {"<=", ">"}, token.LEQ: {"<"}, token.GTR: {">=", "<"}, token.GEQ: {">"},
					token.EQL: {"!="}, token.NEQ: {"=="}, token.LAND: {"||"}, token.LOR: {"&&"},
					token.ADD: {"-"}, token.SUB: {"+"},
				}
				for _, a := range alts[x.Op] {
					add(x.OpPos, len(x.Op.String()), a, "binop")
				}
				if x.Op == token.LAND || x.Op == token.LOR {
					p0, p1 := fset.Position(x.Pos()).Offset, fset.Position(x.End()).Offset
					l0, l1 := fset.Position(x.X.Pos()).Offset, fset.Position(x.X.End()).Offset
					r0, r1 := fset.Position(x.Y.Pos()).Offset, fset.Position(x.Y.End()).Offset
					ln := fset.Position(x.Pos()).Line
					out = append(out, mut{file: rel, off: p0, end: p1, repl: "(" + string(src[l0:l1]) + ")", kind: "keep-left", old: string(src[p0:p1]), line: ln})
					out = append(out, mut{file: rel, off: p0, end: p1, repl: "(" + string(src[r0:r1]) + ")", kind: "keep-right", old: string(src[p0:p1]), line: ln})
				}
			case *ast.UnaryExpr:
				if x.Op == token.NOT {
					add(x.OpPos, 1, "", "drop-not")
				}
			case *ast.BasicLit:
				if x.Kind == token.INT {
					if v, err := strconv.ParseInt(x.Value, 0, 64); err == nil {
						add(x.Pos(), len(x.Value), strconv.FormatInt(v+1, 10), "int+1")
						if v > 0 {
							add(x.Pos(), len(x.Value), strconv.FormatInt(v-1, 10), "int-1")
						}
					}
				}
			case *ast.Ident:
				if x.Name == "true" {
					add(x.Pos(), 4, "false", "bool")
				} else if x.Name == "false" {
					add(x.Pos(), 5, "true", "bool")
				}
			case *ast.BranchStmt:
				if x.Label == nil {
					switch x.Tok {
					case token.CONTINUE:
						add(x.Pos(), len("continue"), "break", "branch")
						add(x.Pos(), len("continue"), "{}", "drop-branch")
					case token.BREAK:
						add(x.Pos(), len("break"), "continue", "branch")
						add(x.Pos(), len("break"), "{}", "drop-branch")
					}
				}
			case *ast.IncDecStmt:
				if x.Tok == token.INC {
					add(x.TokPos, 2, "--", "incdec")
				} else {
					add(x.TokPos, 2, "++", "incdec")
				}
			case *ast.BlockStmt:
				// swap two adjacent simple statements; duplicate a call statement
				simple := func(st ast.Stmt) bool {
					switch st.(type) {
					case *ast.ExprStmt, *ast.AssignStmt, *ast.IncDecStmt:
						return true
					}
					return false
				}
				for k := 0; k+1 < len(x.List); k++ {
					if simple(x.List[k]) && simple(x.List[k+1]) {
						a0, a1 := fset.Position(x.List[k].Pos()).Offset, fset.Position(x.List[k].End()).Offset
						b0, b1 := fset.Position(x.List[k+1].Pos()).Offset, fset.Position(x.List[k+1].End()).Offset
						out = append(out, mut{file: rel, off: a0, end: b1, repl: string(src[b0:b1]) + string(src[a1:b0]) + string(src[a0:a1]), kind: "stmt-swap", old: string(src[a0:b1]), line: fset.Position(x.List[k].Pos()).Line})
					}
				}
				for _, st := range x.List {
					if es, ok := st.(*ast.ExprStmt); ok {
						if _, isCall := es.X.(*ast.CallExpr); isCall {
							a0, a1 := fset.Position(es.Pos()).Offset, fset.Position(es.End()).Offset
							out = append(out, mut{file: rel, off: a0, end: a1, repl: string(src[a0:a1]) + "; " + string(src[a0:a1]), kind: "dup-call", old: string(src[a0:a1]), line: fset.Position(es.Pos()).Line})
						}
					}
				}
			case *ast.IfStmt:
				if x.Else != nil {
					if eb, ok := x.Else.(*ast.BlockStmt); ok && len(eb.List) > 0 {
						b0, b1 := fset.Position(eb.Lbrace).Offset, fset.Position(eb.Rbrace).Offset
						out = append(out, mut{file: rel, off: b0, end: b1 + 1, repl: "{}", kind: "empty-else", old: string(src[b0 : b1+1]), line: fset.Position(eb.Pos()).Line})
					}
				}
				// negate the whole condition
				if x.Else == nil && len(x.Body.List) > 0 {
					b0, b1 := fset.Position(x.Body.Lbrace).Offset, fset.Position(x.Body.Rbrace).Offset
					out = append(out, mut{file: rel, off: b0, end: b1 + 1, repl: "{}", kind: "empty-if", old: string(src[b0 : b1+1]), line: fset.Position(x.Pos()).Line})
				}
				if x.Init == nil {
					p0, p1 := fset.Position(x.Cond.Pos()).Offset, fset.Position(x.Cond.End()).Offset
					out = append(out, mut{file: rel, off: p0, end: p1, repl: "!(" + string(src[p0:p1]) + ")", kind: "negate-if", old: string(src[p0:p1]), line: fset.Position(x.Cond.Pos()).Line})
				}
			case *ast.CallExpr:
				// confuse a function or method with its usual counterpart
				counterpart := map[string]string{
					"HasPrefix": "HasSuffix", "HasSuffix": "HasPrefix", "CutPrefix": "CutSuffix", "TrimSuffix": "TrimPrefix",
					"IndexByte": "LastIndexByte", "ByteLowercase": "ByteUppercase", "ByteUppercase": "ByteLowercase",
					"min": "max", "max": "min", "Add": "Set", "Set": "Add", "RLock": "Lock", "RUnlock": "Unlock", "Lock": "RLock", "Unlock": "RUnlock",
				}
				// drop a defensive copy: slices.Clone(x) -> x, x.ToSlice() -> the receiver's field is out of reach, so only Clone
				if sel, ok := x.Fun.(*ast.SelectorExpr); ok && sel.Sel.Name == "Clone" && len(x.Args) == 1 {
					c0, c1 := fset.Position(x.Pos()).Offset, fset.Position(x.End()).Offset
					a0, a1 := fset.Position(x.Args[0].Pos()).Offset, fset.Position(x.Args[0].End()).Offset
					out = append(out, mut{file: rel, off: c0, end: c1, repl: string(src[a0:a1]), kind: "drop-clone", old: string(src[c0:c1]), line: fset.Position(x.Pos()).Line})
				}
				switch fun := x.Fun.(type) {
				case *ast.Ident:
					if c, ok := counterpart[fun.Name]; ok {
						add(fun.Pos(), len(fun.Name), c, "func-swap")
					}
				case *ast.SelectorExpr:
					if c, ok := counterpart[fun.Sel.Name]; ok {
						add(fun.Sel.Pos(), len(fun.Sel.Name), c, "func-swap")
					}
				}
				// swap two adjacent arguments that are plain identifiers or selectors
				for k := 0; k+1 < len(x.Args); k++ {
					simple := func(e ast.Expr) bool {
						switch e.(type) {
						case *ast.Ident, *ast.SelectorExpr:
							return true
						}
						return false
					}
					if simple(x.Args[k]) && simple(x.Args[k+1]) {
						a0, a1 := fset.Position(x.Args[k].Pos()).Offset, fset.Position(x.Args[k].End()).Offset
						b0, b1 := fset.Position(x.Args[k+1].Pos()).Offset, fset.Position(x.Args[k+1].End()).Offset
						out = append(out, mut{file: rel, off: a0, end: b1, repl: string(src[b0:b1]) + string(src[a1:b0]) + string(src[a0:a1]), kind: "arg-swap", old: string(src[a0:b1]), line: fset.Position(x.Pos()).Line})
					}
				}
			case *ast.SelectorExpr:
				// confuse a constant of another package with a neighbour of its declaration block
				if pk, ok := x.X.(*ast.Ident); ok {
					sibs := constBlock[pk.Name+"."+x.Sel.Name]
					for k, nm := range sibs {
						if k >= 2 {
							break
						}
						add(x.Sel.Pos(), len(x.Sel.Name), nm, "const-swap")
					}
				}
				// confuse a field with a sibling field of the same type
				if fi, ok := pkgFields[filepath.Dir(f)][x.Sel.Name]; ok {
					var sibs []string
					for nm, o := range pkgFields[filepath.Dir(f)] {
						if nm != x.Sel.Name && o.strct == fi.strct && o.typ == fi.typ {
							sibs = append(sibs, nm)
						}
					}
					sort.Strings(sibs)
					for k, nm := range sibs {
						if k >= 3 {
							break
						}
						add(x.Sel.Pos(), len(x.Sel.Name), nm, "field-swap")
					}
				}
			case *ast.AssignStmt:
				// drop a plain (re)assignment: keep the right-hand side's evaluation
				if x.Tok == token.ASSIGN && len(x.Lhs) == 1 && len(x.Rhs) == 1 {
					p0, p1 := fset.Position(x.Lhs[0].Pos()).Offset, fset.Position(x.Lhs[0].End()).Offset
					out = append(out, mut{file: rel, off: p0, end: p1, repl: "_", kind: "drop-assign", old: string(src[p0:p1]), line: fset.Position(x.Pos()).Line})
				}
			case *ast.SliceExpr:
				if x.Low != nil {
					p0, p1 := fset.Position(x.Low.Pos()).Offset, fset.Position(x.Low.End()).Offset
					out = append(out, mut{file: rel, off: p0, end: p1, repl: "(" + string(src[p0:p1]) + ")+1", kind: "slice-lo+1", old: string(src[p0:p1]), line: fset.Position(x.Pos()).Line})
				}
				if x.High != nil {
					p0, p1 := fset.Position(x.High.Pos()).Offset, fset.Position(x.High.End()).Offset
					out = append(out, mut{file: rel, off: p0, end: p1, repl: "(" + string(src[p0:p1]) + ")-1", kind: "slice-hi-1", old: string(src[p0:p1]), line: fset.Position(x.Pos()).Line})
				}
			case *ast.ExprStmt:
				// delete a call statement (method calls on values: x.Add(..), x.Set(..))
				if c, ok := x.X.(*ast.CallExpr); ok {
					if _, isSel := c.Fun.(*ast.SelectorExpr); isSel {
						p0, p1 := fset.Position(x.Pos()).Offset, fset.Position(x.End()).Offset
						out = append(out, mut{file: rel, off: p0, end: p1, repl: "_ = 0", kind: "drop-call", old: string(src[p0:p1]), line: fset.Position(x.Pos()).Line})
					}
				}
			}
			return true
		})
	}
	return out
}

func main() {
	if len(os.Args) < 3 {
		fmt.Fprintln(os.Stderr, "usage: mutgen list <dir> | mutgen apply <dir> <id>")
		os.Exit(2)
	}
	ms := collect(os.Args[2])
	switch os.Args[1] {
	case "list":
		for i, m := range ms {
			old := strings.ReplaceAll(m.old, "\n", " ")
			if len(old) > 60 {
				old = old[:60] + "…"
			}
			fmt.Printf("%d\t%s:%d\t%s\t%s -> %s\n", i, m.file, m.line, m.kind, old, strings.ReplaceAll(m.repl, "\n", " ")[:min(60, len(m.repl))])
		}
	case "apply":
		id, _ := strconv.Atoi(os.Args[3])
		if id < 0 || id >= len(ms) {
			os.Exit(2)
		}
		m := ms[id]
		p := filepath.Join(os.Args[2], m.file)
		src, _ := os.ReadFile(p)
		out := append(append(append([]byte{}, src[:m.off]...), m.repl...), src[m.end:]...)
		os.WriteFile(p, out, 0o644)
	}
}
