module verif/mutgen

go 1.23
