#!/usr/bin/env python3
"""Both-ways self-test of corscheck (DESIGN.md §6.1).

Each variant is one edit of a scratch copy of /repo (outside /repo and
/verif, removed afterwards).  A *firing* variant must be reported by the
listed properties; a *silent* variant (behaviour-preserving refactor or
equivalent mutant) must be reported by none.

usage: variants.py [--tests] [--only NAME] [--props C03,C04]
"""
import json, os, shutil, subprocess, sys, tempfile

ENV = dict(os.environ, GOFLAGS="-mod=mod", GOPROXY="off", GOSUMDB="off", GOTOOLCHAIN="local", GOWORK="off")
VERIF = os.path.dirname(os.path.dirname(os.path.abspath(__file__)))
sys.path.insert(0, os.path.dirname(os.path.abspath(__file__)))
from variant_list import VARIANTS  # noqa: E402


def run(cmd, cwd=None):
    return subprocess.run(cmd, cwd=cwd, env=ENV, stdout=subprocess.PIPE, stderr=subprocess.STDOUT, text=True, errors="replace")


def props_claimed():
    m = json.load(open(os.path.join(VERIF, "MANIFEST.json")))
    return [c["property_id"] for c in m["checks"]]


def main():
    args = sys.argv[1:]
    tests = "--tests" in args
    only = args[args.index("--only") + 1] if "--only" in args else None
    props = args[args.index("--props") + 1].split(",") if "--props" in args else props_claimed()
    only_for = args[args.index("--for") + 1] if "--for" in args else None
    json_out = args[args.index("--json") + 1] if "--json" in args else None
    results = []
    bad = 0
    for v in VARIANTS:
        if only and v["name"] != only:
            continue
        if only_for and not v.get("silent") and only_for not in v.get("expect", []):
            continue
        tmp = tempfile.mkdtemp(prefix="corsvar-")
        try:
            repo = os.path.join(tmp, "repo")
            shutil.copytree("/repo", repo, ignore=shutil.ignore_patterns(".git"))
            for (f, old, new) in v["edits"]:
                p = os.path.join(repo, f)
                s = open(p).read()
                if s.count(old) != 1:
                    print(f"VARIANT-BROKEN {v['name']}: pattern occurs {s.count(old)} times in {f}")
                    bad += 1
                    break
                open(p, "w").write(s.replace(old, new))
            else:
                b = run(["go", "build", "./..."], cwd=repo)
                if b.returncode != 0:
                    print(f"VARIANT-BROKEN {v['name']}: does not compile\n{b.stdout[-400:]}")
                    bad += 1
                    continue
                suite = ""
                if tests:
                    t = run(["go", "test", "-vet=off", "-count=1", "./..."], cwd=repo)
                    suite = "suite:pass" if t.returncode == 0 else "suite:FAIL"
                vd = os.path.join(tmp, "verif")
                os.makedirs(vd)
                shutil.copy(os.path.join(VERIF, "KNOWN_FINDINGS.txt"), vd)
                fired = []
                details = {}
                for pr in props:
                    c = run([os.environ.get("CORSCHECK_BIN", os.path.join(VERIF, "bin", "corscheck")), "-repo", repo, "-verif", vd, "-property", pr])
                    if c.returncode != 0:
                        fired.append(pr)
                        details[pr] = [l for l in c.stdout.splitlines() if " FAIL " in l][:2]
                expect = [p for p in v.get("expect", []) if p in props]
                if v.get("silent"):
                    ok = not fired
                else:
                    ok = bool(expect) and all(p in fired for p in expect) if expect else True
                results.append({"variant": v["name"], "kind": "silent" if v.get("silent") else "firing", "reported_by": fired, "as_expected": ok})
                status = "ok " if ok else "BAD"
                if not ok:
                    bad += 1
                print(f"{status} {v['name']:45s} fired={','.join(fired) or '-':30s} expect={'silent' if v.get('silent') else ','.join(v.get('expect', []))} {suite}")
                if not ok or "-v" in args:
                    for pr, ls in details.items():
                        for l in ls:
                            print("      ", l[:300])
        finally:
            shutil.rmtree(tmp, ignore_errors=True)
    print("variants with unexpected outcome:", bad)
    if json_out:
        json.dump({"variants_run": len(results), "unexpected": bad, "results": results}, open(json_out, "w"))
    return 1 if bad else 0


if __name__ == "__main__":
    sys.exit(main())
